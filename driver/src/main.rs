//! dcfacts — rustc_private fact extractor for the datacake static checks.
//!
//! Used as RUSTC_WORKSPACE_WRAPPER under `cargo +nightly check`.  For every
//! workspace crate it writes one JSON file with the *pre-lowering* MIR of every
//! body (coroutine bodies included, captured from the `mir_promoted` provider
//! before anything steals them), the ADT table and the impl table.
//!
//! It applies no rule.  Output directory: env DCFACTS_OUT (unset = plain rustc).
#![feature(rustc_private)]

extern crate rustc_abi;
extern crate rustc_data_structures;
extern crate rustc_driver;
extern crate rustc_hir;
extern crate rustc_index;
extern crate rustc_interface;
extern crate rustc_middle;
extern crate rustc_session;
extern crate rustc_span;

use std::collections::HashMap;
use std::fmt::Write as _;
use std::sync::Mutex;

use rustc_data_structures::steal::Steal;
use rustc_driver::{Callbacks, Compilation};
use rustc_hir::def::DefKind;
use rustc_hir::def_id::{DefId, LocalDefId};
use rustc_index::IndexVec;
use rustc_interface::interface;
use rustc_middle::mir::{
    self, AggregateKind, BasicBlock, Body, Const, ConstValue, Operand, Place,
    ProjectionElem, Promoted, Rvalue, StatementKind, TerminatorKind,
    VarDebugInfoContents,
};
use rustc_middle::ty::print::PrintTraitRefExt;
use rustc_middle::ty::print::{
    with_crate_prefix, with_no_trimmed_paths, with_no_visible_paths,
};
use rustc_middle::ty::{self, Ty, TyCtxt};
use rustc_session::Session;
use rustc_span::Span;

type MirPromotedFn = for<'tcx> fn(
    TyCtxt<'tcx>,
    LocalDefId,
) -> (
    &'tcx Steal<Body<'tcx>>,
    &'tcx Steal<IndexVec<Promoted, Body<'tcx>>>,
);

static ORIG: Mutex<Option<MirPromotedFn>> = Mutex::new(None);

struct Captured {
    body: Body<'static>,
    promoted: Vec<Body<'static>>,
}
// Bodies are only touched from the compiler's main thread, within the 'tcx lifetime.
unsafe impl Send for Captured {}

static BODIES: Mutex<Option<HashMap<LocalDefId, Captured>>> = Mutex::new(None);

fn my_mir_promoted<'tcx>(
    tcx: TyCtxt<'tcx>,
    def: LocalDefId,
) -> (
    &'tcx Steal<Body<'tcx>>,
    &'tcx Steal<IndexVec<Promoted, Body<'tcx>>>,
) {
    let orig = ORIG.lock().unwrap().expect("original provider saved");
    let r = orig(tcx, def);
    let body: Body<'tcx> = r.0.borrow().clone();
    let promoted: Vec<Body<'tcx>> = r.1.borrow().iter().cloned().collect();
    // SAFETY: the clones are only read inside `after_analysis`, while `tcx` is alive.
    let body: Body<'static> = unsafe { std::mem::transmute(body) };
    let promoted: Vec<Body<'static>> = unsafe { std::mem::transmute(promoted) };
    BODIES
        .lock()
        .unwrap()
        .get_or_insert_with(HashMap::new)
        .insert(def, Captured { body, promoted });
    r
}

fn override_queries(_sess: &Session, providers: &mut rustc_middle::util::Providers) {
    *ORIG.lock().unwrap() = Some(providers.queries.mir_promoted);
    providers.queries.mir_promoted = my_mir_promoted;
}

struct Cb {
    out_dir: String,
}

impl Callbacks for Cb {
    fn config(&mut self, config: &mut interface::Config) {
        config.override_queries = Some(override_queries);
    }

    fn after_analysis<'tcx>(
        &mut self,
        _compiler: &interface::Compiler,
        tcx: TyCtxt<'tcx>,
    ) -> Compilation {
        let krate = tcx.crate_name(rustc_hir::def_id::LOCAL_CRATE).to_string();
        if krate.starts_with("build_script") {
            return Compilation::Continue;
        }
        // Make sure every body owner went through our provider.
        for owner in tcx.hir_body_owners() {
            if !tcx.is_typeck_child(owner.to_def_id()) {
                let _ = tcx.mir_borrowck(owner);
            }
        }
        let mut ex = Extractor { tcx, krate: krate.clone(), captured: HashMap::new() };
        let json = ex.run();
        let features = std::env::var("DCFACTS_TAG").unwrap_or_else(|_| "x".into());
        let path = format!("{}/{}.{}.json", self.out_dir, krate, features);
        let tmp = format!("{}.tmp{}", path, std::process::id());
        std::fs::write(&tmp, json).expect("write fact file");
        std::fs::rename(&tmp, &path).expect("rename fact file");
        Compilation::Continue
    }
}

// ---------------------------------------------------------------------------
// JSON helpers
// ---------------------------------------------------------------------------

fn esc(s: &str) -> String {
    let mut o = String::with_capacity(s.len() + 2);
    o.push('"');
    for c in s.chars() {
        match c {
            '"' => o.push_str("\\\""),
            '\\' => o.push_str("\\\\"),
            '\n' => o.push_str("\\n"),
            '\r' => o.push_str("\\r"),
            '\t' => o.push_str("\\t"),
            c if (c as u32) < 0x20 => {
                let _ = write!(o, "\\u{:04x}", c as u32);
            },
            c => o.push(c),
        }
    }
    o.push('"');
    o
}

fn arr(items: Vec<String>) -> String {
    format!("[{}]", items.join(","))
}

fn opt_s(s: Option<String>) -> String {
    match s {
        Some(s) => esc(&s),
        None => "null".into(),
    }
}

struct Extractor<'tcx> {
    tcx: TyCtxt<'tcx>,
    krate: String,
    captured: HashMap<LocalDefId, Captured>,
}

impl<'tcx> Extractor<'tcx> {
    fn fix(&self, s: String) -> String {
        // `crate::` → the real crate name, so paths agree across crates.
        let mut out = String::with_capacity(s.len() + 16);
        let bytes = s.as_bytes();
        let mut i = 0;
        while i < bytes.len() {
            if s[i..].starts_with("crate::")
                && (i == 0 || !(bytes[i - 1].is_ascii_alphanumeric() || bytes[i - 1] == b'_'))
            {
                out.push_str(&self.krate);
                out.push_str("::");
                i += 7;
            } else {
                let ch = s[i..].chars().next().unwrap();
                out.push(ch);
                i += ch.len_utf8();
            }
        }
        out
    }

    fn p<R>(&self, f: impl FnOnce() -> R) -> R {
        with_no_visible_paths!(with_no_trimmed_paths!(with_crate_prefix!(f())))
    }

    fn path(&self, def: DefId) -> String {
        let s = self.p(|| self.tcx.def_path_str(def));
        self.fix(s)
    }

    fn path_args(&self, def: DefId, args: ty::GenericArgsRef<'tcx>) -> String {
        let s = self.p(|| self.tcx.def_path_str_with_args(def, args));
        self.fix(s)
    }

    fn ty(&self, t: Ty<'tcx>) -> String {
        let s = self.p(|| format!("{}", t));
        self.fix(s)
    }

    fn loc(&self, sp: Span) -> (String, usize, bool, usize) {
        let sm = self.tcx.sess.source_map();
        let exp = sp.from_expansion();
        let lo = sm.lookup_char_pos(sp.lo());
        let file = format!("{}", lo.file.name.prefer_remapped_unconditionally());
        let cs = if exp {
            sm.lookup_char_pos(sp.source_callsite().lo()).line
        } else {
            lo.line
        };
        (file, lo.line, exp, cs)
    }

    fn span_json(&self, sp: Span) -> String {
        let (f, l, e, cs) = self.loc(sp);
        format!("{{\"f\":{},\"l\":{},\"x\":{},\"cs\":{}}}", esc(&f), l, e, cs)
    }

    fn line_fields(&self, sp: Span) -> String {
        let (_f, l, e, cs) = self.loc(sp);
        format!("\"l\":{},\"x\":{},\"cs\":{}", l, e, cs)
    }

    fn run(&mut self) -> String {
        let tcx = self.tcx;
        let mut bodies = Vec::new();
        self.captured = BODIES.lock().unwrap().take().unwrap_or_default();
        let captured = &self.captured;
        let mut keys: Vec<LocalDefId> = captured.keys().copied().collect();
        keys.sort_by_key(|k| self.path(k.to_def_id()));
        for k in keys {
            let c = &captured[&k];
            // SAFETY: see my_mir_promoted.
            let body: &Body<'tcx> = unsafe { std::mem::transmute(&c.body) };
            let promoted: &Vec<Body<'tcx>> = unsafe { std::mem::transmute(&c.promoted) };
            bodies.push(self.body_json(k, body, None));
            for (i, pb) in promoted.iter().enumerate() {
                bodies.push(self.body_json(k, pb, Some(i)));
            }
        }

        let mut adts = Vec::new();
        let mut impls = Vec::new();
        let mut fns = Vec::new();
        for id in tcx.hir_crate_items(()).definitions() {
            let did = id.to_def_id();
            match tcx.def_kind(did) {
                DefKind::Struct | DefKind::Enum | DefKind::Union => {
                    adts.push(self.adt_json(did));
                },
                DefKind::Impl { .. } => {
                    impls.push(self.impl_json(did));
                },
                DefKind::Fn | DefKind::AssocFn => {
                    fns.push(self.fn_json(did));
                },
                _ => {},
            }
        }
        format!(
            "{{\"crate\":{},\"bodies\":{},\"adts\":{},\"impls\":{},\"fns\":{}}}",
            esc(&self.krate),
            arr(bodies),
            arr(adts),
            arr(impls),
            arr(fns)
        )
    }

    fn fn_json(&self, did: DefId) -> String {
        let tcx = self.tcx;
        let vis = format!("{:?}", tcx.visibility(did));
        let public = tcx.visibility(did).is_public();
        let sig = self.p(|| format!("{}", tcx.fn_sig(did).instantiate_identity().skip_norm_wip()));
        let is_async = tcx.asyncness(did).is_async();
        let parent_impl = tcx.opt_parent(did).filter(|p| matches!(tcx.def_kind(*p), DefKind::Impl { .. }));
        format!(
            "{{\"def\":{},\"vis\":{},\"pub\":{},\"sig\":{},\"async\":{},\"impl\":{},\"span\":{}}}",
            esc(&self.path(did)),
            esc(&vis),
            public,
            esc(&self.fix(sig)),
            is_async,
            opt_s(parent_impl.map(|p| self.impl_key(p))),
            self.span_json(tcx.def_span(did)),
        )
    }

    fn impl_key(&self, did: DefId) -> String {
        let tcx = self.tcx;
        let self_ty = self.ty(tcx.type_of(did).instantiate_identity().skip_norm_wip());
        match tcx.impl_opt_trait_ref(did) {
            Some(tr) => {
                let tr = tr.instantiate_identity().skip_norm_wip();
                let s = self.p(|| format!("{}", tr.print_only_trait_path()));
                format!("<{} as {}>", self_ty, self.fix(s))
            },
            None => self_ty,
        }
    }

    fn impl_json(&self, did: DefId) -> String {
        let tcx = self.tcx;
        let self_ty = self.ty(tcx.type_of(did).instantiate_identity().skip_norm_wip());
        let (tr, tr_def) = match tcx.impl_opt_trait_ref(did) {
            Some(tr) => {
                let tr = tr.instantiate_identity().skip_norm_wip();
                let s = self.p(|| format!("{}", tr.print_only_trait_path()));
                (Some(self.fix(s)), Some(self.path(tr.def_id)))
            },
            None => (None, None),
        };
        let derived = tcx.is_automatically_derived(did);
        let items: Vec<String> = tcx
            .associated_item_def_ids(did)
            .iter()
            .map(|d| esc(&self.path(*d)))
            .collect();
        let names: Vec<String> = tcx
            .associated_item_def_ids(did)
            .iter()
            .map(|d| esc(tcx.item_name(*d).as_str()))
            .collect();
        format!(
            "{{\"self\":{},\"trait\":{},\"trait_def\":{},\"derived\":{},\"items\":{},\"names\":{},\"span\":{}}}",
            esc(&self_ty),
            opt_s(tr),
            opt_s(tr_def),
            derived,
            arr(items),
            arr(names),
            self.span_json(tcx.def_span(did)),
        )
    }

    fn adt_json(&self, did: DefId) -> String {
        let tcx = self.tcx;
        let adt = tcx.adt_def(did);
        let mut variants = Vec::new();
        for v in adt.variants().iter() {
            let mut fields = Vec::new();
            for f in v.fields.iter() {
                let fty = tcx.type_of(f.did).instantiate_identity().skip_norm_wip();
                fields.push(format!(
                    "{{\"name\":{},\"ty\":{},\"pub\":{}}}",
                    esc(f.name.as_str()),
                    esc(&self.ty(fty)),
                    f.vis.is_public()
                ));
            }
            variants.push(format!(
                "{{\"name\":{},\"fields\":{}}}",
                esc(v.name.as_str()),
                arr(fields)
            ));
        }
        let kind = if adt.is_enum() {
            "enum"
        } else if adt.is_union() {
            "union"
        } else {
            "struct"
        };
        format!(
            "{{\"def\":{},\"kind\":{},\"pub\":{},\"variants\":{},\"span\":{}}}",
            esc(&self.path(did)),
            esc(kind),
            tcx.visibility(did).is_public(),
            arr(variants),
            self.span_json(tcx.def_span(did)),
        )
    }

    /// Resolution of the calls of `def`'s body (and of closures created in it) under the generic arguments `gargs`:
    /// `[bb, resolved-or-null, [generic args], [nested entries for a generic local callee]]` and `["c", closure def, [entries]]`.
    fn mono_entries(&self, def: LocalDefId, gargs: ty::GenericArgsRef<'tcx>, fe: ty::TypingEnv<'tcx>, depth: usize) -> Vec<String> {
        let tcx = self.tcx;
        let mut ms = Vec::new();
        if depth > 3 {
            return ms;
        }
        let Some(c) = self.captured.get(&def) else { return ms };
        let cb: &Body<'tcx> = unsafe { std::mem::transmute(&c.body) };
        for (bb, data) in cb.basic_blocks.iter_enumerated() {
            for st in data.statements.iter() {
                if let mir::StatementKind::Assign(bx) = &st.kind {
                    if let mir::Rvalue::Aggregate(kind, _) = &bx.1 {
                        let (cdef, cargs) = match &**kind {
                            mir::AggregateKind::Closure(d, a) => (*d, *a),
                            mir::AggregateKind::Coroutine(d, a) => (*d, *a),
                            _ => continue,
                        };
                        let Some(cl) = cdef.as_local() else { continue };
                        let ci = ty::EarlyBinder::bind(cargs).instantiate(tcx, gargs);
                        let Ok(cn) = tcx.try_normalize_erasing_regions(fe, ci) else { continue };
                        let sub = self.mono_entries(cl, cn, fe, depth + 1);
                        if !sub.is_empty() {
                            ms.push(format!("[\"c\",{},{}]", esc(&self.path(cdef)), arr(sub)));
                        }
                    }
                }
            }
            let Some(term) = &data.terminator else { continue };
            let TerminatorKind::Call { func: Operand::Constant(c2), .. } = &term.kind else { continue };
            let ty::FnDef(d2, g2) = c2.const_.ty().kind() else { continue };
            let g2i = ty::EarlyBinder::bind(*g2).instantiate(tcx, gargs);
            let Ok(g2n) = tcx.try_normalize_erasing_regions(fe, g2i) else { continue };
            let is_trait = tcx.trait_of_assoc(*d2).is_some();
            let mut res = String::from("null");
            let mut target: (DefId, ty::GenericArgsRef<'tcx>) = (*d2, g2n);
            if is_trait {
                if let Ok(Some(inst)) = ty::Instance::try_resolve(tcx, fe, *d2, g2n) {
                    let rd = inst.def_id();
                    if rd != *d2 {
                        res = esc(&self.path(rd));
                        target = (rd, inst.args);
                    }
                }
            }
            let mut sub = Vec::new();
            if let Some(tl) = target.0.as_local() {
                if matches!(tcx.def_kind(target.0), DefKind::Fn | DefKind::AssocFn)
                    && target.1.iter().any(|a| a.as_type().map_or(false, |t| !matches!(t.kind(), ty::Param(_))))
                {
                    sub = self.mono_entries(tl, target.1, fe, depth + 1);
                }
            }
            if !is_trait && sub.is_empty() {
                continue;
            }
            let ga2: Vec<String> = g2n
                .iter()
                .map(|a| {
                    let s = self.p(|| format!("{}", a));
                    esc(&self.fix(s))
                })
                .collect();
            ms.push(format!("[{},{},{},{}]", Self::bb(bb), res, arr(ga2), arr(sub)));
        }
        ms
    }

    fn body_json(&self, owner: LocalDefId, body: &Body<'tcx>, promoted: Option<usize>) -> String {
        let tcx = self.tcx;
        let did = owner.to_def_id();
        let dk = tcx.def_kind(did);
        let kind = match dk {
            DefKind::Fn => "fn",
            DefKind::AssocFn => "method",
            DefKind::Closure => {
                if tcx.is_coroutine(did) {
                    "coroutine"
                } else {
                    "closure"
                }
            },
            DefKind::Const { .. } | DefKind::AssocConst { .. } => "const",
            DefKind::Static { .. } => "static",
            DefKind::AnonConst | DefKind::InlineConst => "anonconst",
            _ => "other",
        };
        let parent = match dk {
            DefKind::Closure | DefKind::InlineConst | DefKind::AnonConst => {
                tcx.opt_parent(did).map(|p| self.path(p))
            },
            _ => None,
        };
        // impl this body's item belongs to (walk up through closures)
        let mut cur = did;
        let mut in_impl: Option<DefId> = None;
        while let Some(p) = tcx.opt_parent(cur) {
            if matches!(tcx.def_kind(p), DefKind::Impl { .. }) {
                in_impl = Some(p);
                break;
            }
            cur = p;
        }
        let derived = in_impl.map(|i| tcx.is_automatically_derived(i)).unwrap_or(false);
        let typing_env = ty::TypingEnv::post_analysis(tcx, did);

        let mut locals = Vec::new();
        for (_l, decl) in body.local_decls.iter_enumerated() {
            locals.push(format!(
                "{{\"ty\":{},\"user\":{},\"l\":{}}}",
                esc(&self.ty(decl.ty)),
                decl.is_user_variable(),
                self.loc(decl.source_info.span).3,
            ));
        }
        let mut dbg = Vec::new();
        for v in body.var_debug_info.iter() {
            let val = match &v.value {
                VarDebugInfoContents::Place(p) => self.place(p),
                VarDebugInfoContents::Const(c) => self.const_json(&c.const_, typing_env),
            };
            dbg.push(format!(
                "{{\"name\":{},\"v\":{},\"arg\":{}}}",
                esc(v.name.as_str()),
                val,
                match v.argument_index {
                    Some(i) => i.to_string(),
                    None => "null".into(),
                }
            ));
        }

        let mut blocks = Vec::new();
        for (_bb, data) in body.basic_blocks.iter_enumerated() {
            let mut stmts = Vec::new();
            for st in data.statements.iter() {
                if let Some(s) = self.stmt(st, typing_env) {
                    stmts.push(s);
                }
            }
            let term = match &data.terminator {
                Some(t) => self.term(t, typing_env),
                None => "{\"k\":\"none\"}".into(),
            };
            blocks.push(format!(
                "{{\"s\":{},\"t\":{},\"cleanup\":{}}}",
                arr(stmts),
                term,
                data.is_cleanup
            ));
        }
        let def = match promoted {
            Some(i) => format!("{}::{{promoted#{}}}", self.path(did), i),
            None => self.path(did),
        };
        format!(
            "{{\"def\":{},\"kind\":{},\"promoted\":{},\"parent\":{},\"impl\":{},\"derived\":{},\"span\":{},\"argc\":{},\"locals\":{},\"dbg\":{},\"blocks\":{}}}",
            esc(&def),
            esc(kind),
            promoted.is_some(),
            opt_s(parent),
            opt_s(in_impl.map(|i| self.impl_key(i))),
            derived,
            self.span_json(body.span),
            body.arg_count,
            arr(locals),
            arr(dbg),
            arr(blocks)
        )
    }

    fn place(&self, p: &Place<'tcx>) -> String {
        let mut proj = Vec::new();
        for e in p.projection.iter() {
            proj.push(match e {
                ProjectionElem::Deref => "\"*\"".to_string(),
                ProjectionElem::Field(f, t) => {
                    format!("{{\"f\":{},\"ty\":{}}}", f.as_usize(), esc(&self.ty(t)))
                },
                ProjectionElem::Index(l) => format!("{{\"i\":{}}}", l.as_usize()),
                ProjectionElem::ConstantIndex { offset, from_end, .. } => {
                    format!("{{\"ci\":{},\"end\":{}}}", offset, from_end)
                },
                ProjectionElem::Subslice { from, to, from_end } => {
                    format!("{{\"sub\":[{},{}],\"end\":{}}}", from, to, from_end)
                },
                ProjectionElem::Downcast(name, v) => format!(
                    "{{\"d\":{},\"n\":{}}}",
                    v.as_usize(),
                    opt_s(name.map(|n| n.as_str().to_string()))
                ),
                ProjectionElem::OpaqueCast(_) => "\"opaque\"".to_string(),
                ProjectionElem::UnwrapUnsafeBinder(_) => "\"unwrap_binder\"".to_string(),
            });
        }
        format!("{{\"l\":{},\"p\":{}}}", p.local.as_usize(), arr(proj))
    }

    fn const_json(&self, c: &Const<'tcx>, typing_env: ty::TypingEnv<'tcx>) -> String {
        let tcx = self.tcx;
        let t = c.ty();
        let mut fields = vec![format!("\"ty\":{}", esc(&self.ty(t)))];
        // function items / zero-sized fn defs
        if let ty::FnDef(def, args) = t.kind() {
            fields.push(format!("\"fn\":{}", esc(&self.path(*def))));
            fields.push(format!("\"fn_inst\":{}", esc(&self.path_args(*def, args))));
            // a trait method named as a value (`.map(Replay::from)`): the implementation it denotes
            if tcx.trait_of_assoc(*def).is_some() {
                if let Ok(Some(inst)) = ty::Instance::try_resolve(tcx, typing_env, *def, args) {
                    if inst.def_id() != *def {
                        fields.push(format!("\"fn_resolved\":{}", esc(&self.path(inst.def_id()))));
                    }
                }
            }
        }
        if let ty::Closure(def, _) | ty::Coroutine(def, _) = t.kind() {
            fields.push(format!("\"closure\":{}", esc(&self.path(*def))));
        }
        if let Const::Unevaluated(u, _) = c {
            fields.push(format!("\"uneval\":{}", esc(&self.path(u.def))));
            if let Some(p) = u.promoted {
                fields.push(format!("\"promoted\":{}", p.as_usize()));
            }
        }
        // scalar value if cheaply available
        // (a pattern type over an integer — `(u16) is 1..`, the payload of NonZero — carries a plain integer)
        let base_t = if let ty::Pat(b, _) = t.kind() { *b } else { t };
        let is_scalar_ty = base_t.is_integral() || base_t.is_bool() || base_t.is_char();
        if is_scalar_ty {
            let can_eval = match c {
                Const::Unevaluated(u, _) => u.promoted.is_none(),
                _ => true,
            };
            if can_eval {
                if let Some(si) = c.try_eval_scalar_int(tcx, typing_env) {
                    let size = si.size();
                    let bits = si.to_bits(size);
                    if base_t.is_signed() {
                        let v = size.sign_extend(bits) as i128;
                        fields.push(format!("\"val\":\"{}\"", v));
                    } else {
                        fields.push(format!("\"val\":\"{}\"", bits));
                    }
                }
            }
        }
        // pointers to statics
        if let Const::Val(ConstValue::Scalar(rustc_middle::mir::interpret::Scalar::Ptr(ptr, _)), _) = c {
            let (prov, _off) = ptr.prov_and_relative_offset();
            if let Some(rustc_middle::mir::interpret::GlobalAlloc::Static(def)) =
                tcx.try_get_global_alloc(prov.alloc_id())
            {
                fields.push(format!("\"static\":{}", esc(&self.path(def))));
            }
        }
        // string constants
        if let Const::Val(cv @ ConstValue::Slice { .. }, _) = c {
            if let ty::Ref(_, inner, _) = t.kind() {
                if inner.is_str() {
                    if let Some(b) = cv.try_get_slice_bytes_for_diagnostics(tcx) {
                        fields.push(format!("\"str\":{}", esc(&String::from_utf8_lossy(b))));
                    }
                }
            }
        }
        format!("{{{}}}", fields.join(","))
    }

    fn operand(&self, o: &Operand<'tcx>, typing_env: ty::TypingEnv<'tcx>) -> String {
        match o {
            Operand::Copy(p) => format!("{{\"k\":\"copy\",\"pl\":{}}}", self.place(p)),
            Operand::Move(p) => format!("{{\"k\":\"move\",\"pl\":{}}}", self.place(p)),
            Operand::Constant(c) => {
                format!("{{\"k\":\"const\",\"c\":{}}}", self.const_json(&c.const_, typing_env))
            },
            Operand::RuntimeChecks(rc) => {
                format!("{{\"k\":\"rtcheck\",\"which\":{}}}", esc(&format!("{:?}", rc)))
            },
        }
    }

    fn stmt(&self, st: &mir::Statement<'tcx>, te: ty::TypingEnv<'tcx>) -> Option<String> {
        let lf = self.line_fields(st.source_info.span);
        match &st.kind {
            StatementKind::Assign(b) => {
                let (lhs, rv) = &**b;
                Some(format!(
                    "{{\"k\":\"assign\",\"lhs\":{},\"rv\":{},{}}}",
                    self.place(lhs),
                    self.rvalue(rv, te),
                    lf
                ))
            },
            StatementKind::SetDiscriminant { place, variant_index } => Some(format!(
                "{{\"k\":\"setdiscr\",\"lhs\":{},\"variant\":{},{}}}",
                self.place(place),
                variant_index.as_usize(),
                lf
            )),
            StatementKind::StorageDead(l) => {
                Some(format!("{{\"k\":\"dead\",\"local\":{}}}", l.as_usize()))
            },
            _ => None,
        }
    }

    fn rvalue(&self, rv: &Rvalue<'tcx>, te: ty::TypingEnv<'tcx>) -> String {
        match rv {
            Rvalue::Use(o, _) => format!("{{\"k\":\"use\",\"op\":{}}}", self.operand(o, te)),
            Rvalue::Repeat(o, _) => format!("{{\"k\":\"repeat\",\"op\":{}}}", self.operand(o, te)),
            Rvalue::Ref(_, bk, p) => format!(
                "{{\"k\":\"ref\",\"mut\":{},\"pl\":{}}}",
                matches!(bk, mir::BorrowKind::Mut { .. }),
                self.place(p)
            ),
            Rvalue::ThreadLocalRef(d) => format!("{{\"k\":\"tls\",\"def\":{}}}", esc(&self.path(*d))),
            Rvalue::RawPtr(k, p) => format!(
                "{{\"k\":\"rawptr\",\"mut\":{},\"pl\":{}}}",
                matches!(k, mir::RawPtrKind::Mut),
                self.place(p)
            ),
            Rvalue::Cast(ck, o, t) => format!(
                "{{\"k\":\"cast\",\"ck\":{},\"op\":{},\"ty\":{}}}",
                esc(&format!("{:?}", ck)),
                self.operand(o, te),
                esc(&self.ty(*t))
            ),
            Rvalue::BinaryOp(op, b) => format!(
                "{{\"k\":\"bin\",\"op\":{},\"a\":{},\"b\":{}}}",
                esc(&format!("{:?}", op)),
                self.operand(&b.0, te),
                self.operand(&b.1, te)
            ),
            Rvalue::UnaryOp(op, o) => format!(
                "{{\"k\":\"un\",\"op\":{},\"a\":{}}}",
                esc(&format!("{:?}", op)),
                self.operand(o, te)
            ),
            Rvalue::Discriminant(p) => format!("{{\"k\":\"discr\",\"pl\":{}}}", self.place(p)),
            Rvalue::Aggregate(kind, ops) => {
                let ops: Vec<String> = ops.iter().map(|o| self.operand(o, te)).collect();
                let k = match &**kind {
                    AggregateKind::Array(_) => "\"agg\":\"array\"".to_string(),
                    AggregateKind::Tuple => "\"agg\":\"tuple\"".to_string(),
                    AggregateKind::Adt(def, variant, args, _, active) => {
                        let adt = self.tcx.adt_def(*def);
                        let v = adt.variant(*variant);
                        let fnames: Vec<String> = match active {
                            Some(f) => vec![esc(v.fields[*f].name.as_str())],
                            None => v.fields.iter().map(|f| esc(f.name.as_str())).collect(),
                        };
                        format!(
                            "\"agg\":\"adt\",\"adt\":{},\"adt_inst\":{},\"variant\":{},\"vname\":{},\"fields\":{}",
                            esc(&self.path(*def)),
                            esc(&self.path_args(*def, args)),
                            variant.as_usize(),
                            esc(v.name.as_str()),
                            arr(fnames)
                        )
                    },
                    AggregateKind::Closure(def, _) => {
                        format!("\"agg\":\"closure\",\"def\":{}", esc(&self.path(*def)))
                    },
                    AggregateKind::Coroutine(def, _) => {
                        format!("\"agg\":\"coroutine\",\"def\":{}", esc(&self.path(*def)))
                    },
                    AggregateKind::CoroutineClosure(def, _) => {
                        format!("\"agg\":\"coroutine_closure\",\"def\":{}", esc(&self.path(*def)))
                    },
                    AggregateKind::RawPtr(..) => "\"agg\":\"rawptr\"".to_string(),
                };
                format!("{{\"k\":\"aggregate\",{},\"ops\":{}}}", k, arr(ops))
            },
            Rvalue::CopyForDeref(p) => format!("{{\"k\":\"copyderef\",\"pl\":{}}}", self.place(p)),
            Rvalue::WrapUnsafeBinder(o, _) => {
                format!("{{\"k\":\"use\",\"op\":{}}}", self.operand(o, te))
            },
        }
    }

    fn bb(b: BasicBlock) -> usize {
        b.as_usize()
    }

    fn term(&self, t: &mir::Terminator<'tcx>, te: ty::TypingEnv<'tcx>) -> String {
        let tcx = self.tcx;
        let lf = self.line_fields(t.source_info.span);
        match &t.kind {
            TerminatorKind::Goto { target } => {
                format!("{{\"k\":\"goto\",\"target\":{},{}}}", Self::bb(*target), lf)
            },
            TerminatorKind::SwitchInt { discr, targets } => {
                let mut ts = Vec::new();
                for (v, b) in targets.iter() {
                    ts.push(format!("[\"{}\",{}]", v, Self::bb(b)));
                }
                format!(
                    "{{\"k\":\"switch\",\"discr\":{},\"targets\":{},\"otherwise\":{},{}}}",
                    self.operand(discr, te),
                    arr(ts),
                    Self::bb(targets.otherwise()),
                    lf
                )
            },
            TerminatorKind::UnwindResume => "{\"k\":\"resume\"}".into(),
            TerminatorKind::UnwindTerminate(_) => "{\"k\":\"terminate\"}".into(),
            TerminatorKind::Return => format!("{{\"k\":\"return\",{}}}", lf),
            TerminatorKind::Unreachable => "{\"k\":\"unreachable\"}".into(),
            TerminatorKind::Drop { place, target, .. } => format!(
                "{{\"k\":\"drop\",\"pl\":{},\"target\":{},{}}}",
                self.place(place),
                Self::bb(*target),
                lf
            ),
            TerminatorKind::Call { func, args, destination, target, fn_span, .. } => {
                let mut extra = String::new();
                let fty = match func {
                    Operand::Constant(c) => Some(c.const_.ty()),
                    _ => None,
                };
                if let Some(fty) = fty {
                    if let ty::FnDef(def, gargs) = fty.kind() {
                        let _ = write!(extra, ",\"callee\":{}", esc(&self.path(*def)));
                        let _ = write!(extra, ",\"callee_inst\":{}", esc(&self.path_args(*def, gargs)));
                        let ga: Vec<String> = gargs.iter().map(|a| {
                            let s = self.p(|| format!("{}", a));
                            esc(&self.fix(s))
                        }).collect();
                        let _ = write!(extra, ",\"gargs\":{}", arr(ga));
                        // trait method? record the trait and try to resolve to an impl
                        if let Some(tr) = tcx.trait_of_assoc(*def) {
                            let _ = write!(extra, ",\"trait\":{}", esc(&self.path(tr)));
                            if let Ok(Some(inst)) = ty::Instance::try_resolve(tcx, te, *def, gargs) {
                                let rd = inst.def_id();
                                if rd != *def {
                                    let _ = write!(extra, ",\"resolved\":{}", esc(&self.path(rd)));
                                    let _ = write!(
                                        extra,
                                        ",\"resolved_inst\":{}",
                                        esc(&self.path_args(rd, inst.args))
                                    );
                                }
                            }
                        }
                        let _ = write!(extra, ",\"callee_crate\":{}", esc(tcx.crate_name(def.krate).as_str()));
                        // a generic function of this crate called with (partly) concrete type arguments: how the calls inside it
                        // (and inside the generic functions and closures it reaches, to a small depth) resolve under THESE arguments
                        if let Some(ld) = def.as_local() {
                            // (at least one type argument that is not itself a bare parameter of the caller)
                            if gargs.iter().any(|a| a.as_type().map_or(false, |t| !matches!(t.kind(), ty::Param(_)))) {
                                let ms = self.mono_entries(ld, gargs, te, 0);
                                if !ms.is_empty() {
                                    let _ = write!(extra, ",\"mono\":{}", arr(ms));
                                }
                            }
                        }
                    }
                }
                let a: Vec<String> = args.iter().map(|a| self.operand(&a.node, te)).collect();
                format!(
                    "{{\"k\":\"call\",\"func\":{},\"args\":{},\"dest\":{},\"target\":{}{},{},\"fl\":{}}}",
                    self.operand(func, te),
                    arr(a),
                    self.place(destination),
                    match target {
                        Some(b) => Self::bb(*b).to_string(),
                        None => "null".into(),
                    },
                    extra,
                    lf,
                    self.loc(*fn_span).3,
                )
            },
            TerminatorKind::TailCall { .. } => format!("{{\"k\":\"tailcall\",{}}}", lf),
            TerminatorKind::Assert { cond, expected, msg, target, .. } => {
                let kind = match &**msg {
                    mir::AssertKind::BoundsCheck { .. } => "bounds".to_string(),
                    mir::AssertKind::Overflow(op, ..) => format!("overflow:{:?}", op),
                    mir::AssertKind::OverflowNeg(_) => "overflow_neg".to_string(),
                    mir::AssertKind::DivisionByZero(_) => "div_zero".to_string(),
                    mir::AssertKind::RemainderByZero(_) => "rem_zero".to_string(),
                    mir::AssertKind::MisalignedPointerDereference { .. } => "misaligned".to_string(),
                    mir::AssertKind::NullPointerDereference => "nullptr".to_string(),
                    _ => "other".to_string(),
                };
                format!(
                    "{{\"k\":\"assert\",\"cond\":{},\"expected\":{},\"msg\":{},\"target\":{},{}}}",
                    self.operand(cond, te),
                    expected,
                    esc(&kind),
                    Self::bb(*target),
                    lf
                )
            },
            TerminatorKind::Yield { value, resume, resume_arg, .. } => format!(
                "{{\"k\":\"yield\",\"value\":{},\"target\":{},\"resume_arg\":{},{}}}",
                self.operand(value, te),
                Self::bb(*resume),
                self.place(resume_arg),
                lf
            ),
            TerminatorKind::CoroutineDrop => "{\"k\":\"coroutine_drop\"}".into(),
            TerminatorKind::FalseEdge { real_target, .. } => {
                format!("{{\"k\":\"goto\",\"target\":{},\"false_edge\":true,{}}}", Self::bb(*real_target), lf)
            },
            TerminatorKind::FalseUnwind { real_target, .. } => {
                format!("{{\"k\":\"goto\",\"target\":{},\"false_unwind\":true,{}}}", Self::bb(*real_target), lf)
            },
            TerminatorKind::InlineAsm { .. } => "{\"k\":\"asm\"}".into(),
        }
    }
}

fn main() {
    let mut args: Vec<String> = std::env::args().collect();
    // RUSTC_WORKSPACE_WRAPPER: argv[1] is the path of the real rustc.
    if args.len() > 1 && (args[1].ends_with("rustc") || args[1].contains("/rustc")) {
        args.remove(1);
    }
    match std::env::var("DCFACTS_OUT") {
        Ok(out_dir) if !out_dir.is_empty() => {
            let mut cb = Cb { out_dir };
            rustc_driver::run_compiler(&args, &mut cb);
        },
        _ => {
            struct Plain;
            impl Callbacks for Plain {}
            rustc_driver::run_compiler(&args, &mut Plain);
        },
    }
}
