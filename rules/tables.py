"""Explicit tables (part of the trusted base, DESIGN §7)."""
import re

# P-DERIVED: callees whose result is (a view / transformation / container of) their arguments.
PROPAGATING = {
    'core::ops::deref::Deref::deref',
    'core::ops::deref::DerefMut::deref_mut',
    'core::clone::Clone::clone',
    'core::borrow::Borrow::borrow',
    'core::convert::AsRef::as_ref',
    'core::convert::From::from',
    'core::convert::Into::into',
    'core::convert::TryFrom::try_from',
    'core::convert::TryInto::try_into',
    'core::iter::traits::collect::IntoIterator::into_iter',
    'core::iter::traits::collect::FromIterator::from_iter',
    'core::future::into_future::IntoFuture::into_future',
    'core::future::future::Future::poll',
    'core::pin::Pin::new_unchecked',
    'core::pin::Pin::new',
    'core::pin::Pin::as_mut',
    'core::pin::Pin::get_mut',
    'core::ops::try_trait::Try::branch',
    'core::ops::try_trait::FromResidual::from_residual',
    'core::ops::try_trait::Try::from_output',
    'alloc::borrow::ToOwned::to_owned',
    'alloc::string::ToString::to_string',
    'alloc::boxed::Box::new',
    'alloc::boxed::Box::pin',
    'alloc::sync::Arc::new',
    'alloc::vec::Vec::into_iter',
    'alloc::slice::<impl [T]>::to_vec',
    'alloc::slice::<impl [T]>::iter',
    'core::mem::take',
    'core::mem::replace',
    'core::cmp::max',
    'core::cmp::min',
    'core::cmp::Ord::max',
    'core::cmp::Ord::min',
    'core::iter::traits::iterator::Iterator::next',
}

_PROP_RX = [
    r'^core::iter::traits::iterator::Iterator::(map|filter|filter_map|copied|cloned|take|skip|chain|collect|flat_map|flatten|enumerate|zip|peekable|rev|by_ref|min|max|min_by_key|max_by_key|fold|sum|last|nth|find|next)$',
    r'^core::iter::traits::double_ended::DoubleEndedIterator::',
    r'^core::(option::Option|result::Result)::(map|map_err|ok|err|ok_or|ok_or_else|and_then|or_else|unwrap|expect|unwrap_or|unwrap_or_else|unwrap_or_default|as_ref|as_mut|cloned|copied|as_deref|take|flatten|transpose|into_iter|iter|filter|zip|ok_or|expect_err|unwrap_err|map_or|map_or_else|and|or|unwrap_unchecked)$',
    r'^smallvec::SmallVec::(from_vec|into_vec|from_iter|iter|into_iter|from_slice|as_slice|drain)$',
    r'^alloc::vec::Vec::(iter|as_slice|drain|from_iter|into_boxed_slice|leak)$',
    r'^core::slice::<impl \[T\]>::(iter|iter_mut|chunks|windows|first|last|get|as_ptr)$',
    r'^alloc::collections::btree::(map::BTreeMap|set::BTreeSet)::(iter|into_iter|keys|values|get|get_mut|remove|entry|difference|intersection|range|into_keys|into_values|first_key_value|last_key_value)$',
    r'^std::collections::hash::(map::HashMap|set::HashSet)::(iter|into_iter|keys|values|get|get_mut|remove|entry|drain|into_keys|into_values)$',
    r'^alloc::collections::btree::map::entry::Entry::(and_modify|or_insert|or_insert_with|or_default|key)$',
    r'^std::collections::hash::map::Entry::(and_modify|or_insert|or_insert_with|or_default|key)$',
    r'^core::future::(ready|poll_fn)',
    r'^core::num::<impl u(8|16|32|64|128|size)>::(checked_add|checked_sub|saturating_add|saturating_sub|wrapping_add|wrapping_sub|to_le_bytes|to_be_bytes|from_le_bytes|from_be_bytes|min|max|pow)$',
    r'^core::time::Duration::(from_secs|from_millis|as_secs|as_millis|subsec_millis|saturating_sub|saturating_add|checked_sub|checked_add|subsec_nanos|as_secs_f32)$',
    r'^core::ops::arith::(Add|Sub)::(add|sub)$',
    r'^core::str::<impl str>::(splitn|split|trim|as_bytes|parse|trim_start_matches)$',
    r'^core::ops::function::(FnOnce|FnMut|Fn)::call(_once|_mut)?$',
    r'^core::borrow::BorrowMut::borrow_mut$',
    r'^alloc::borrow::Cow::(into_owned|to_mut)$',
    r'^core::mem::(transmute|ManuallyDrop::new)$',
    r'^core::ptr::(read|NonNull::as_ref)$',
    # constructors of the workspace's plain data types: the value is made of the arguments
    r'^datacake[a-z_]*::.*::(new|from_parts|from_tuple|into_tuple|into_parts)$',
    # views of a buffer / string under any receiver type (AlignedVec::as_slice, Bytes::as_ref, ...)
    r'::(as_slice|as_mut_slice|as_bytes|as_str|to_vec|into_vec|into_boxed_slice|into_inner)$',
]
_PROP_RX = [re.compile(r) for r in _PROP_RX]


def propagates(name):
    if name is None:
        return False
    return any(r.search(name) for r in _PROP_RX)


# P-PANIC: foreign callees that may panic (one line of reason each)
MAY_PANIC = {
    'core::option::Option::unwrap': 'panics on None',
    'core::option::Option::expect': 'panics on None',
    'core::result::Result::unwrap': 'panics on Err',
    'core::result::Result::expect': 'panics on Err',
    'core::result::Result::unwrap_err': 'panics on Ok',
    'core::result::Result::expect_err': 'panics on Ok',
    'core::ops::index::Index::index': 'bounds / missing key',
    'core::ops::index::IndexMut::index_mut': 'bounds / missing key',
    'core::ops::arith::Add::add': 'operator impl of Duration/Instant/SystemTime panics on overflow',
    'core::ops::arith::Sub::sub': 'operator impl of Duration/Instant/SystemTime panics on overflow',
    'core::ops::arith::Mul::mul': 'operator impl of Duration panics on overflow',
    'core::ops::arith::AddAssign::add_assign': 'Duration += overflow',
    'core::ops::arith::SubAssign::sub_assign': 'Duration -= overflow',
    'core::slice::<impl [T]>::copy_from_slice': 'length mismatch',
    'core::slice::<impl [T]>::split_at': 'mid > len',
    'core::time::Duration::from_secs_f32': 'negative / overflow',
    'core::time::Duration::from_secs_f64': 'negative / overflow',
    'core::time::Duration::new': 'overflowing carry',
    'core::panicking::panic': 'explicit panic / assert!',
    'core::panicking::panic_fmt': 'explicit panic!/assert! with message',
    'core::panicking::assert_failed': 'assert_eq!/assert_ne!',
    'core::panicking::unreachable_display': 'unreachable!',
    'core::panicking::panic_display': 'panic!',
    'std::rt::begin_panic': 'panic!',
    'core::option::expect_failed': 'expect',
    'core::result::unwrap_failed': 'unwrap',
    'core::str::<impl str>::split_at': 'offset not on a char boundary / out of range',
    'core::str::<impl str>::split_at_mut': 'offset not on a char boundary / out of range',
    'core::slice::<impl [T]>::split_at_mut': 'mid > len',
    'core::slice::<impl [T]>::clone_from_slice': 'length mismatch',
    'core::slice::<impl [T]>::swap': 'index out of bounds',
    'core::slice::<impl [T]>::chunks': 'chunk size 0',
    'core::slice::<impl [T]>::chunks_exact': 'chunk size 0',
    'core::slice::<impl [T]>::windows': 'window size 0',
    'core::slice::<impl [T]>::rotate_left': 'k > len',
    'core::slice::<impl [T]>::rotate_right': 'k > len',
    'alloc::string::String::remove': 'index out of range / not a char boundary',
    'alloc::string::String::insert': 'index out of range / not a char boundary',
    'alloc::string::String::insert_str': 'index out of range / not a char boundary',
    'alloc::string::String::split_off': 'index out of range / not a char boundary',
    'alloc::string::String::drain': 'range out of bounds / not on char boundaries',
    'alloc::string::String::replace_range': 'range out of bounds / not on char boundaries',
    'alloc::vec::Vec::remove': 'index out of bounds',
    'alloc::vec::Vec::swap_remove': 'index out of bounds',
    'alloc::vec::Vec::insert': 'index out of bounds',
    'alloc::vec::Vec::split_off': 'at > len',
    'alloc::vec::Vec::drain': 'range out of bounds',
    'core::char::methods::<impl char>::from_digit': 'radix > 36',
    'core::char::methods::<impl char>::to_digit': 'radix > 36',
    'core::option::Option::unwrap_unchecked': 'UB on None',
    'core::cell::RefCell::borrow_mut': 'already borrowed',
    'core::cell::RefCell::borrow': 'already mutably borrowed',
}

# rkyv entry points, matched by function name anywhere inside the rkyv crate (module paths differ between versions)
class _RkyvSet:
    def __init__(self, names):
        self.names = set(names)

    def __contains__(self, n):
        return isinstance(n, str) and n.startswith('rkyv::') and n.rsplit('::', 1)[-1] in self.names

    def __iter__(self):
        return iter(sorted(self.names))


# trust their input (no validation)
RKYV_UNCHECKED = _RkyvSet(['archived_root', 'archived_root_mut', 'archived_value', 'archived_value_mut',
                           'archived_unsized_root', 'archived_unsized_root_mut', 'archived_unsized_value',
                           'archived_unsized_value_mut', 'from_bytes_unchecked'])
# validate before handing out a reference / value
RKYV_CHECKED = _RkyvSet(['check_archived_root', 'check_archived_value', 'from_bytes',
                         'check_archived_root_with_context', 'check_archived_value_with_context'])
