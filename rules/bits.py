"""P-BITS: abstract interpretation of straight-line integer code over vectors of 64 abstract bits.

bit ::= 0 | 1 | (name, j) | 'T'
"""
import re
from facts import op_place, op_const, const_int
from analysis import cname

TOPB = 'T'
W = 64

INT_W = {'u8': 8, 'u16': 16, 'u32': 32, 'u64': 64, 'usize': 64, 'i32': 32, 'i64': 64, 'u128': 128, 'bool': 1}


def inp(name, width):
    return [(name, j) for j in range(width)] + [0] * (W - width)


def const_bits(v):
    return [(v >> j) & 1 for j in range(W)]


def b_and(x, y):
    if x == 0 or y == 0:
        return 0
    if x == 1:
        return y
    if y == 1:
        return x
    if x == y:
        return x
    return TOPB


def b_or(x, y):
    if x == 1 or y == 1:
        return 1
    if x == 0:
        return y
    if y == 0:
        return x
    if x == y:
        return x
    return TOPB


class NotStraightLine(Exception):
    pass


def width_of(ty):
    return INT_W.get(ty.strip(), None)


def run(body, inputs, call_model=None, place_model=None):
    """Symbolically execute `body` (must be straight-line apart from asserts).
    inputs: {local: bitvector}.  place_model(place) -> bitvector or None for projected reads.
    call_model(name, term, argvecs) -> bitvector or None.
    Returns the bitvector of _0 (or a dict for tuples: {'tuple': [vec,...]})."""
    st = dict(inputs)

    def rd(op):
        c = op_const(op)
        if c is not None:
            v = const_int(op)
            if v is None:
                return [TOPB] * W
            return const_bits(v & ((1 << W) - 1))
        pl = op_place(op)
        if pl is None:
            return [TOPB] * W
        if pl['p']:
            if place_model:
                r = place_model(pl, st)
                if r is not None:
                    return r
            return [TOPB] * W
        return st.get(pl['l'], [TOPB] * W)

    b = 0
    steps = 0
    while True:
        steps += 1
        if steps > 200:
            raise NotStraightLine('too many blocks')
        blk = body.blocks[b]
        for s in blk['s']:
            if s['k'] != 'assign':
                continue
            lhs = s['lhs']
            rv = s['rv']
            k = rv['k']
            val = [TOPB] * W
            if k == 'use':
                val = rd(rv['op'])
            elif k == 'cast' and rv['ck'] == 'IntToInt':
                src = rd(rv['op'])
                w = width_of(rv['ty'])
                if w is None:
                    val = [TOPB] * W
                else:
                    val = src[:min(w, W)] + [0] * (W - min(w, W))
            elif k == 'bin':
                a, c = rd(rv['a']), rd(rv['b'])
                op = rv['op']
                sh = const_int(rv['b'])
                if op in ('Shl', 'ShlUnchecked') and sh is not None:
                    w = width_of(body.local_ty(lhs['l'])) or W
                    val = ([0] * sh + a)[:w] + [0] * (W - w) if sh < W else [0] * W
                elif op in ('Shr', 'ShrUnchecked') and sh is not None:
                    val = a[sh:] + [0] * sh if sh < W else [0] * W
                elif op == 'BitAnd':
                    val = [b_and(x, y) for x, y in zip(a, c)]
                elif op == 'BitOr':
                    val = [b_or(x, y) for x, y in zip(a, c)]
                elif op in ('Lt', 'Le', 'Gt', 'Ge', 'Eq', 'Ne'):
                    val = [TOPB] + [0] * (W - 1)
            elif k == 'aggregate':
                if rv['agg'] == 'tuple':
                    val = {'tuple': [rd(o) for o in rv['ops']]}
                elif rv['agg'] == 'adt' and len(rv['ops']) == 1:
                    val = rd(rv['ops'][0])
            if not lhs['p']:
                st[lhs['l']] = val
        t = blk['t']
        tk = t['k']
        if tk == 'return':
            return st.get(0, [TOPB] * W)
        if tk in ('goto', 'assert', 'drop'):
            b = t['target']
            continue
        if tk == 'call':
            args = [rd(a) for a in t['args']]
            r = None
            if call_model:
                r = call_model(cname(t), t, args)
            if r is None:
                r = [TOPB] * W
            if not t['dest']['p']:
                st[t['dest']['l']] = r
            if t['target'] is None:
                raise NotStraightLine('diverging call')
            b = t['target']
            continue
        raise NotStraightLine('terminator %s in block %d' % (tk, b))


def std_call_model(name, t, args):
    """try_into (narrowing, exact when dropped bits are known 0) followed by unwrap_or_default; rend value()"""
    if name == 'core::convert::TryInto::try_into':
        m = re.search(r'TryInto<(u8|u16|u32|u64)>', t.get('callee_inst', '')) or re.search(r'try_into.*?(u8|u16|u32|u64)', t.get('callee_inst', ''))
        # target width from generic args: Self, T
        tgt = None
        for g in t.get('gargs', [])[1:]:
            if g in INT_W:
                tgt = INT_W[g]
        if tgt is None:
            return None
        a = args[0]
        if all(x == 0 for x in a[tgt:]):
            return a[:tgt] + [0] * (W - tgt)
        return [TOPB] * W
    if name in ('core::result::Result::unwrap_or_default', 'core::result::Result::unwrap', 'core::result::Result::expect'):
        return args[0]
    if name and name.startswith('rend::') and name.endswith('::value'):
        return args[0]
    if name in ('core::convert::From::from', 'core::convert::Into::into'):
        return args[0]
    return None
