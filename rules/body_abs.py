"""C12.F5.SEM: the body collector (`utils::to_aligned`) by interpretation (P-TRACE).

Every frame — request, reply, error status — reaches the guarded decoder through one function that drains the HTTP body into an
aligned buffer.  The decoder takes the root object from the END of that buffer and the checksum over all of it, so the buffer must
be the concatenation of every chunk the transport delivered, in order.  The function is interpreted against a scripted body of
0 … 5 chunks (hyper delivers one chunk per HTTP/2 DATA frame: a frame above 16 KiB arrives in several) and against a body whose
third read fails; reading a chunk, aggregating the rest, the `Buf` view of an aggregate and appending to the buffer are modelled
effects.  Decided per scenario: Ok carries exactly the chunks of the script, each once, in order; a failed read is an error, never
a shorter buffer.  How the draining is written (unrolled reads + loop, one loop, `to_bytes`, `aggregate` + `copy_to_bytes` or a
`has_remaining` / `chunk` / `advance` loop) does not matter; an `aggregate` of which only the first contiguous `chunk()` is copied
(round 6, C12f) drops every chunk after the third."""
import absint
from absint import Interp, Order, Cell, Unmodelled, UNIT, mk_option, mk_bool
from facts import last_seg
import actor_abs
from actor_abs import World, ok, err, upvar_types

RPC = 'datacake_rpc'


class BodyWorld(World):
    def __init__(self, n, fail_at=None):
        World.__init__(self, hooks=[self.hook])
        self.rest = [('opaque', 'chunk:%d' % i) for i in range(1, n + 1)]
        self.fail_at = fail_at
        self.reads = 0

    def is_body(self, interp, v):
        v = interp.deref_all(v)
        return v is not None and v[0] == 'opaque' and str(v[1]).startswith('the-body')

    def hook(self, world, interp, name, args, t, body):
        seg = last_seg(name)
        a0 = interp.deref_all(args[0]) if args else None
        if args and self.is_body(interp, args[0]):
            if seg == 'data' or name.endswith('BodyExt::frame') or name.endswith('StreamExt::next') or name.endswith('TryStreamExt::try_next'):
                self.reads += 1
                if self.fail_at is not None and self.reads == self.fail_at:
                    self.rest = []
                    return ('future', 'ready', mk_option(err(('opaque', 'transport-error'))))
                if not self.rest:
                    return ('future', 'ready', mk_option(None))
                return ('future', 'ready', mk_option(ok(self.rest.pop(0))))
            if seg in ('aggregate', 'to_bytes', 'collect'):
                if self.fail_at is not None:
                    self.rest = []
                    return ('future', 'ready', err(('opaque', 'transport-error')))
                chunks, self.rest = self.rest, []
                if seg == 'to_bytes':
                    return ('future', 'ready', ok(('concat', list(chunks))))
                return ('future', 'ready', ok(('agg', list(chunks))))
            if seg == 'size_hint':
                return ('opaque', 'size-hint')
            if seg == 'is_end_stream':
                return mk_bool(not self.rest)
        if a0 is not None and a0[0] == 'agg':
            if seg == 'chunk':
                return ('ref', Cell(a0[1][0] if a0[1] else ('concat', [])))
            if seg in ('remaining', 'len'):
                return ('int', None)
            if seg == 'has_remaining':
                return mk_bool(bool(a0[1]))
            if seg == 'advance':
                if a0[1]:
                    a0[1].pop(0)          # (the loop advances by the length of the chunk it just copied)
                return UNIT
            if seg in ('copy_to_bytes', 'to_bytes', 'into_bytes', 'copy_to_slice'):
                chunks = list(a0[1])
                del a0[1][:]
                return ('concat', chunks)
            if seg in ('reader', 'take', 'chain'):
                raise Unmodelled('Buf::%s on an aggregated body' % seg)
        if name.startswith('rkyv::') and 'AlignedVec' in name:
            if seg in ('new', 'with_capacity'):
                return ('vec', [])
            if seg in ('extend_from_slice', 'extend_from_reader') and len(args) == 2:
                v = interp.deref_all(args[0])
                x = interp.deref_all(args[1])
                if v is None or v[0] != 'vec':
                    raise Unmodelled('extend_from_slice on %r' % (v[:1] if v else v,))
                if x is not None and x[0] == 'concat':
                    v[1].extend(x[1])
                elif x is not None and x[0] == 'opaque' and str(x[1]).startswith('chunk:'):
                    v[1].append(x)
                elif x is not None and x[0] == 'agg':
                    raise Unmodelled('an aggregated body appended as a slice')
                else:
                    v[1].append(('opaque', 'other-bytes:%s' % (x[1] if x and len(x) > 1 else x,)))
                return UNIT
            if seg in ('reserve', 'reserve_exact', 'shrink_to_fit'):
                return UNIT
            if seg in ('len', 'capacity'):
                return ('int', None)
        if a0 is not None and a0[0] == 'opaque' and str(a0[1]).startswith('chunk:'):
            if seg in ('len', 'remaining'):
                return ('int', None)
            if seg in ('deref', 'as_ref', 'chunk', 'borrow', 'as_slice', 'clone', 'to_vec', 'into', 'copy_to_bytes'):
                ty = body.local_ty(t['dest']['l']) if not t['dest']['p'] else ''
                return ('ref', Cell(a0)) if ty.startswith('&') else a0
            if seg == 'is_empty' or seg == 'has_remaining':
                return ('bool', None)
        if a0 is not None and a0[0] == 'concat':
            if seg in ('len', 'remaining'):
                return ('int', None)
            if seg in ('deref', 'as_ref', 'chunk', 'borrow', 'as_slice', 'clone', 'to_vec', 'into'):
                ty = body.local_ty(t['dest']['l']) if not t['dest']['p'] else ''
                return ('ref', Cell(a0)) if ty.startswith('&') else a0
        if a0 is not None and a0[0] == 'opaque' and a0[1] == 'size-hint' and seg in ('lower', 'upper', 'exact'):
            return ('int', None) if seg == 'lower' else mk_option(None)
        return None


def find_collector(facts):
    return [b for b in facts.bodies.values() if b.crate == RPC and b.kind == 'coroutine' and not b.d['promoted'] and b.cfg is not None
            and b.name.endswith('::utils::to_aligned::{closure#0}')]


def check_collector(ctx, facts, rule, prefix=''):
    from orswot_abs import _fallback
    try:
        bs = find_collector(facts)
        if len(bs) != 1:
            raise Unmodelled('the body collector (utils::to_aligned) was not found')
        body = bs[0]
        ups = upvar_types(body)
        out = []
        for n, fail_at in [(0, None), (1, None), (2, None), (3, None), (4, None), (5, None), (4, 3)]:
            def run(choices, n=n, fail_at=fail_at):
                world = BodyWorld(n, fail_at)
                it = Interp(facts, Order({}), opaque_call=world.call, step_limit=200000)
                it.poll_hook = world.poll
                it.unknown_call = actor_abs.lenient_unknown
                it.choices = list(choices)
                upv = {i: ('opaque', 'the-body') for i in ups}
                nn = max(upv) + 1 if upv else 1
                st = ('closure', body.defp, [Cell(upv.get(i, ('opaque', 'the-body'))) for i in range(nn)])
                r = it.deref_all(it.run_body(body, [st, ('opaque', 'cx')]))
                return it.oracle_log, r
            out.append((n, fail_at, absint.explore(run)))
    except (Unmodelled, absint.NeedChoice, absint.PanicPath, IndexError, TypeError, KeyError, AttributeError, RecursionError) as e:
        return _fallback(ctx, rule, e)
    site_ = '%s:%s' % (body.file, body.line)
    for n, fail_at, results in out:
        bad = []
        seen = 0
        for log, r in results:
            if r and r[0] == 'panic':
                bad.append('a path panics')
                continue
            seen += 1
            if r is None or r[0] != 'adt' or r[1] != 'core::result::Result':
                bad.append('the collector does not return a Result')
                continue
            if fail_at is not None:
                if r[2] == 0:
                    bad.append('the read of chunk %d fails and Ok is returned with a shorter buffer: the decoder sees a truncated frame' % fail_at)
                continue
            if r[2] != 0:
                bad.append('an error is returned although every read succeeded')
                continue
            v = r[3][0].v
            while v is not None and v[0] == 'ref':
                v = v[1].v
            got = [str(x[1]) for x in v[1]] if v is not None and v[0] == 'vec' else None
            want = ['chunk:%d' % i for i in range(1, n + 1)]
            if got != want:
                missing = [w for w in want if got is None or w not in got]
                bad.append('a body delivered in %d chunk(s) is collected as %s%s — the decoder takes the root object and the checksum from the end of the buffer: '
                           'the frame is refused or another value is observed' % (n, got, ': chunk(s) %s are dropped' % ', '.join(m[6:] for m in missing) if missing else ''))
        label = ('a body of %d chunk(s)' % n) if fail_at is None else 'a body whose read of chunk %d fails' % fail_at
        good = seen > 0 and not bad
        ctx.ob(rule, '%scollector|%s' % (prefix, label), good, site_,
               '%s: %s' % (label, 'the buffer is the concatenation of every chunk, in order' if fail_at is None else 'an error is returned') if good else '%s: %s' % (label, bad[0] if bad else 'no path'))
    return True
