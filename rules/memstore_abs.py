"""C17 (in-memory backend): MemStore's Storage methods, interpreted (P-TRACE + P-ORDER values) per (keyspace, key) against the
reference key-value model.  Abstract pre-state of one key k in keyspace ks: the metadata table does not know ks / knows ks
without k / holds k live or tombstoned at an older stamp; the document table accordingly.  Every write must leave exactly
what the reference model leaves (document and (stamp, tombstone flag)), whatever was there before; reads must return it."""
import absint
from absint import Interp, Order, Cell, MapObj, Unmodelled, UNIT, mk_option
from facts import strip_generics, last_seg, ty_head
import actor_abs
from actor_abs import World, build_value, upvar_types

EC = 'datacake_eventual_consistency'


def hook(world, interp, name, args, t, body):
    seg = last_seg(name)
    if name.startswith('lock_api::') or name.startswith('parking_lot::') or name.startswith('std::sync::'):
        if seg in ('lock', 'write', 'read', 'upgradable_read'):
            return args[0]
    if name in ('alloc::boxed::Box::pin', 'alloc::boxed::Box::new', 'alloc::sync::Arc::new'):
        return args[0]
    if name in ('alloc::string::ToString::to_string', 'alloc::borrow::ToOwned::to_owned', 'alloc::str::<impl str>::to_string', 'alloc::str::<impl str>::to_owned',
                'alloc::string::String::as_str', 'core::convert::AsRef::as_ref'):
        a = interp.deref_all(args[0])
        if a is not None and a[0] == 'key':
            return a
    return None


def doc_value(facts, ty, k, ts):
    def inner(t2):
        if t2 == 'u64':
            return ('key', k)
        if t2.endswith('HLCTimestamp'):
            return ('ts', ts)
        return None
    return build_value(facts, ty, inner)


class Store:
    def __init__(self, facts):
        adts = [a for n, a in facts.adts.items() if n.startswith(EC + '::') and n.endswith('::MemStore')]
        if len(adts) != 1:
            raise Unmodelled('MemStore not found (test-utils configuration)')
        self.adt = adts[0]
        f = self.adt['variants'][0]['fields']
        meta = [i for i, x in enumerate(f) if 'HLCTimestamp' in x['ty'] and 'bool' in x['ty']]
        data = [i for i, x in enumerate(f) if 'Document' in x['ty'] and i not in meta]
        if len(meta) != 1 or len(data) != 1:
            raise Unmodelled('MemStore: metadata / document tables not identified by type')
        self.meta, self.data = meta[0], data[0]
        self.doc_ty = [n for n in facts.adts if n.startswith(EC + '::') and n.endswith('::Document')][0]
        self.md_ty = [n for n in facts.adts if n.startswith(EC + '::') and n.endswith('::DocumentMetadata')][0]
        self.methods = {}
        for b in facts.bodies.values():
            if b.crate == EC and b.kind == 'coroutine' and not b.d['promoted'] and b.impl and 'MemStore' in b.impl and '::storage::Storage' in b.impl \
                    and b.name.endswith('::{closure#0}') and b.parent and not b.parent.endswith('}'):
                self.methods[last_seg(b.name[:-len('::{closure#0}')])] = b

    def make(self, facts, meta, data):
        """meta: {ks: {k: (ts, tomb)}}, data: {ks: {k: ts_of_doc}}"""
        cells = [None] * len(self.adt['variants'][0]['fields'])
        m = MapObj('hash', {ks: Cell(('map', MapObj('hash', {k: Cell(('tuple', [Cell(('ts', v[0])), Cell(('bool', v[1]))])) for k, v in ent.items()}))) for ks, ent in meta.items()})
        d = MapObj('hash', {ks: Cell(('map', MapObj('hash', {k: Cell(doc_value(facts, self.doc_ty, k, v)) for k, v in ent.items()}))) for ks, ent in data.items()})
        ftys = [x['ty'] for x in self.adt['variants'][0]['fields']]

        def wrap(ty, v, depth=0):
            # a table kept behind a private newtype (`KeyspaceTable<V>(RwLock<HashMap<..>>)`): the wrapper is rebuilt around the map
            a = facts.adts.get(ty_head(ty))
            if a is not None and a['kind'] == 'struct' and len(a['variants'][0]['fields']) == 1 and depth < 3:
                return ('adt', ty_head(ty), 0, [Cell(wrap(a['variants'][0]['fields'][0]['ty'], v, depth + 1))])
            return v
        cells[self.meta] = Cell(wrap(ftys[self.meta], ('map', m)))
        cells[self.data] = Cell(wrap(ftys[self.data], ('map', d)))
        for i in range(len(cells)):
            if cells[i] is None:
                cells[i] = Cell(('opaque', 'field'))
        return ('adt', strip_generics(self.adt['def']), 0, cells)

    def read(self, interp_deref, v):
        meta, data = {}, {}

        def table(x):
            while x is not None and x[0] == 'adt' and len(x[3]) == 1:
                x = x[3][0].v
            return x
        for ks, c in table(v[3][self.meta].v)[1].items.items():
            meta[ks] = {}
            for k, cc in c.v[1].items.items():
                tv = cc.v
                meta[ks][k] = (tv[1][0].v[1], tv[1][1].v[1])
        for ks, c in table(v[3][self.data].v)[1].items.items():
            data[ks] = {}
            for k, cc in c.v[1].items.items():
                found = []
                def walk(x, depth=0):
                    if x is None or depth > 5:
                        return
                    if x[0] == 'ts':
                        found.append(x[1])
                    elif x[0] == 'adt':
                        for c2 in x[3]:
                            walk(c2.v, depth + 1)
                walk(cc.v)
                data[ks][k] = found[0] if found else '?'
        return meta, data


def run_method(facts, store, name, state, extra):
    """extra: {type-substring: value} for the remaining upvars, matched by type"""
    body = store.methods.get(name)
    if body is None:
        raise Unmodelled('MemStore::%s not found' % name)
    ups = upvar_types(body)
    world = World(hooks=[hook])
    upv = {}
    for i, ty in ups.items():
        if 'MemStore' in ty:
            upv[i] = ('ref', Cell(state))
        else:
            val = None
            for sub, v in extra:
                if sub in ty:
                    val = v
            if val is None:
                raise Unmodelled('argument of type %s of MemStore::%s' % (ty, name))
            upv[i] = val
    it, r = actor_abs.run_coroutine(facts, body, upv, world)
    return r


PRE = [('no-keyspace', None), ('keyspace-without-key', None), ('live', 'old'), ('tombstone', 'old'), ('tombstones-only', None), ('tombstones-only-with-key', 'old')]


def pre_state(pre):
    kind, _ = pre
    meta, data = {}, {}
    if kind in ('tombstones-only', 'tombstones-only-with-key'):
        # the keyspace holds tombstones but never held a document: the metadata table knows it, the document table does not
        meta['ks'] = {'other': ('t_other', True)}
        if kind == 'tombstones-only-with-key':
            meta['ks']['k'] = ('old', True)
        return meta, data
    if kind != 'no-keyspace':
        meta['ks'] = {'other': ('t_other', False)}
        data['ks'] = {'other': 't_other'}
    if kind == 'live':
        meta['ks']['k'] = ('old', False)
        data['ks']['k'] = 'old'
    if kind == 'tombstone':
        meta['ks']['k'] = ('old', True)
    return meta, data


def check_memstore(ctx, facts, rule):
    from orswot_abs import _fallback
    try:
        st = Store(facts)
        need = {'put', 'multi_put', 'mark_as_tombstone', 'mark_many_as_tombstone', 'remove_tombstones', 'get', 'iter_metadata', 'get_keyspace_list'}
        if not need <= set(st.methods):
            raise Unmodelled('MemStore Storage methods not found: %s' % sorted(need - set(st.methods)))
        out = {}
        from absint import IterObj
        for pre in PRE:
            def fresh():
                m, d = pre_state(pre)
                return st.make(facts, m, d)
            ks = ('ref', Cell(('key', 'ks')))
            s = fresh()
            run_method(facts, st, 'put', s, [('str', ks), ('Document', doc_value(facts, st.doc_ty, 'k', 'new'))])
            out[(pre, 'put')] = st.read(None, s)
            s = fresh()
            run_method(facts, st, 'multi_put', s, [('str', ks), ('Iterator', ('iter', IterObj([doc_value(facts, st.doc_ty, 'k', 'new'), doc_value(facts, st.doc_ty, 'k2', 'new2')]))),
                                                   ('IntoIter', ('iter', IterObj([doc_value(facts, st.doc_ty, 'k', 'new'), doc_value(facts, st.doc_ty, 'k2', 'new2')])))])
            out[(pre, 'multi_put')] = st.read(None, s)
            s = fresh()
            run_method(facts, st, 'mark_as_tombstone', s, [('str', ks), ('u64', ('key', 'k')), ('HLCTimestamp', ('ts', 'new'))])
            out[(pre, 'mark_as_tombstone')] = st.read(None, s)
            s = fresh()
            run_method(facts, st, 'mark_many_as_tombstone', s, [('str', ks), ('Iterator', ('iter', IterObj([doc_value(facts, st.md_ty, 'k', 'new')]))),
                                                                ('IntoIter', ('iter', IterObj([doc_value(facts, st.md_ty, 'k', 'new')])))])
            out[(pre, 'mark_many_as_tombstone')] = st.read(None, s)
            s = fresh()
            run_method(facts, st, 'remove_tombstones', s, [('str', ks), ('Iterator', ('iter', IterObj([('key', 'k')]))), ('IntoIter', ('iter', IterObj([('key', 'k')])))])
            out[(pre, 'remove_tombstones')] = st.read(None, s)
            s = fresh()
            r = run_method(facts, st, 'get', s, [('str', ks), ('u64', ('key', 'k'))])
            out[(pre, 'get')] = (r, st.read(None, s))
            s = fresh()
            r = run_method(facts, st, 'get_keyspace_list', s, [])
            out[(pre, 'get_keyspace_list')] = (r, st.read(None, s))
    except (Unmodelled, absint.NeedChoice, absint.PanicPath, IndexError, TypeError, KeyError, AttributeError) as e:
        return _fallback(ctx, rule, e)
    b0 = st.methods['put']
    site_ = '%s:%s' % (b0.file, b0.line)
    labs = {'no-keyspace': 'keyspace never written', 'keyspace-without-key': 'keyspace known, key absent', 'live': 'key live at an older stamp', 'tombstone': 'key tombstoned at an older stamp',
            'tombstones-only': 'keyspace holds only tombstones (no document table yet), key absent', 'tombstones-only-with-key': 'keyspace holds only tombstones, key tombstoned at an older stamp'}
    for pre in PRE:
        m0, d0 = pre_state(pre)

        def exp_after(op):
            m = {a: dict(b) for a, b in m0.items()}
            d = {a: dict(b) for a, b in d0.items()}
            if op in ('put', 'multi_put'):
                m.setdefault('ks', {})['k'] = ('new', False)
                d.setdefault('ks', {})['k'] = 'new'
                if op == 'multi_put':
                    m['ks']['k2'] = ('new2', False)
                    d['ks']['k2'] = 'new2'
            elif op in ('mark_as_tombstone', 'mark_many_as_tombstone'):
                m.setdefault('ks', {})['k'] = ('new', True)
                if 'ks' in d:
                    d['ks'].pop('k', None)
            elif op == 'remove_tombstones':
                if 'ks' in m:
                    m['ks'].pop('k', None)
            return m, d
        for op in ('put', 'multi_put', 'mark_as_tombstone', 'mark_many_as_tombstone', 'remove_tombstones'):
            got = out[(pre, op)]
            em, ed = exp_after(op)
            # the document table may or may not have an (empty) entry for a keyspace that holds no documents
            gm, gd = got
            gd2 = {k: v for k, v in gd.items() if v}
            ed2 = {k: v for k, v in ed.items() if v}
            good = gm == em and gd2 == ed2
            ctx.ob(rule, '%s|%s' % (op, labs[pre[0]]), good, site_,
                   'MemStore::%s on %s leaves exactly what the reference model leaves' % (op, labs[pre[0]]) if good else
                   'MemStore::%s on %s: metadata ends as %s and documents as %s; the reference model gives metadata %s, documents %s' % (op, labs[pre[0]], gm, gd2, em, ed2))
        r, after = out[(pre, 'get')]
        have = pre[0] == 'live'
        rv = r[3][0].v if (r[0] == 'adt' and r[1] == 'core::result::Result' and r[2] == 0) else None
        is_some = rv is not None and rv[0] == 'adt' and rv[2] == 1
        good = rv is not None and is_some == have and after[0] == m0 and {k: v for k, v in after[1].items() if v} == {k: v for k, v in d0.items() if v}
        ctx.ob(rule, 'get|%s' % labs[pre[0]], good, site_, 'get returns the live document exactly when the key is live, and changes nothing' if good else
               'get on %s returns %s / changes the store' % (labs[pre[0]], 'a document' if is_some else 'nothing'))
        r, after = out[(pre, 'get_keyspace_list')]
        rv = r[3][0].v if (r[0] == 'adt' and r[1] == 'core::result::Result' and r[2] == 0) else None
        names = sorted(x[1] for x in rv[1]) if rv is not None and rv[0] == 'vec' else None
        good = names == sorted(m0) and after[0] == m0
        ctx.ob(rule, 'get_keyspace_list|%s' % labs[pre[0]], good, site_, 'the keyspace list is exactly the keyspaces that hold metadata' if good else
               'get_keyspace_list on %s returns %s (expected %s)' % (labs[pre[0]], names, sorted(m0)))
    return True
