"""C05 — the computed difference is exactly what a replica lacks.  DESIGN §5 C05."""
from analysis import *  # noqa
from facts import strip_generics, op_local, op_const, const_int, last_seg, ty_head
from engine import site
import gate

CONFIGS = ['prod', 'testutils']
EXPLANATION = (
    "PURE: no operation of the set or of its version vectors lets an ambient reading (wall clock, monotonic clock, randomness, environment, thread / process id — directly or through a workspace helper that returns one) decide a branch, a returned value or a stored value: the outcome is a function of the set and the operation (call graph from every method of OrSWotSet / NodeVersions + derived-from relation per body; the crate's own wall-clock helper is the positive control). "
    'SEM (primary): OrSWotSet::diff interpreted over all abstract inputs lists a peer entry exactly when this replica lacks it (live keys first list, tombs'
    'tones second; purge cut-off consulted only when nothing is held). '
    'Decided clauses: D0 what diff lists — in the per-key test every push into a result vector is guarded, on each of the two '
    '"replica holds something" branches, by the STRICT edge held < peer (equal timestamps are the normal state of synchronised '
    'replicas: listing them would make repair never finish), and on the "holds nothing" branch by the false edge of the purge cut-off '
    'predicate; the pushed pair is the peer\'s key and timestamp; the first result vector is fed only from the peer\'s live entries, the '
    'second only from its tombstones, they are returned in that order, and every path through diff walks both maps (no fast-path early '
    'return); diff does not write the set. D1 role routing over six hops: '
    'diff().0 (modifications) reaches only fetch_docs + MultiSet and diff().1 (removals) only Del / MultiDel — through on_diff, '
    'get_keyspace_diff\'s struct fields, repair_members\' arguments, begin_keyspace_sync\'s parameters and the two application tasks (both '
    'lists have the same type, so the compiler accepts any swap). A the actor applies every entry of a batch it is handed (C02\'s handler obligations re-evaluated: nothing is dropped between the gate and storage, the set is folded for exactly what storage wrote). D3.SEM the poller interpreted over three polling rounds against two peers: every keyspace a peer lists whose change stamp differs from the one recorded at that peer\'s last successful exchange of it has its difference computed against that peer and is exchanged with it. D5.SEM the progress tracker / watcher pair interpreted (done is what the task set on its copy, expired a timeout without progress). D6 the GetState handler reads the keyspace change stamp before it takes the snapshot (= C01.S6). D4 source-id discipline (every live-path message carries the ordered-stream source id, every repair-path message the repair source id; = C01.S1). NOT decided: "applying the difference leaves nothing further to fetch" '
    'and the symmetric-exchange statement (consequences over all reachable set pairs).')
ASSUMPTIONS = ['derived Ord on HLCTimestamp (C04.T1)']

OS = 'datacake_crdt::orswot::OrSWotSet::'
NV = 'datacake_crdt::orswot::NodeVersions::'
EC = 'datacake_eventual_consistency::'
P = EC + 'replication::poller::'
MSG = EC + 'keyspace::messages::'


def check_D0(ctx, facts):
    diff = facts.body(OS + 'diff')
    # the per-key test: the workspace method diff calls with a `&mut Vec` result parameter (found by role, not by name)
    body = None
    helper_name = None
    if diff is not None:
        for _b, t in diff.calls():
            n = cname(t)
            if n and n.startswith('datacake_crdt::') and any('alloc::vec::Vec<' in diff.local_ty(op_local(a)) and diff.local_ty(op_local(a)).startswith('&mut')
                                                           for a in t['args'] if op_local(a) is not None):
                helper_name = n
                body = facts.body(n)
    if body is None or diff is None:
        ctx.bad('C05.D0', 'anchors', '', 'diff / check_self_then_insert_to not found (fail closed)')
        return
    flow = Flow(body)
    calls = list(body.calls())
    pushes = [(b, t) for b, t in calls if cname(t) == 'alloc::vec::Vec::push']
    gets = {t['dest']['l']: t for b, t in calls if cname(t) in ('alloc::collections::btree::map::BTreeMap::get', 'std::collections::hash::map::HashMap::get')}
    preds = [(b, t) for b, t in calls if cname(t) and cname(t).startswith(NV) and body.local_ty(t['dest']['l']) == 'bool']
    cmps = comparisons(body)
    n_strict = n_pred = 0
    for i, (pb, pt) in enumerate(pushes):
        # pushed value: (key, ts) from the parameters
        vb = flow.backward([op_local(pt['args'][1])])
        ctx.ob('C05.D0', 'push#%d|value' % i, 2 in vb and 3 in vb and not (set(gets) & vb), site(body, pt['cs']),
               'the listed pair is the peer\'s key and timestamp' if (2 in vb and 3 in vb and not (set(gets) & vb)) else 'the listed pair is not (only) the peer\'s key and timestamp')
        guard = None
        for c in cmps:
            if c['lhs'] is None or c['rhs'] is None or c['rel'] in ('==', '!='):
                continue
            la, lb = flow.backward([c['lhs']]), flow.backward([c['rhs']])
            l_held, r_held = bool(set(gets) & la), bool(set(gets) & lb)
            l_peer, r_peer = 3 in la and not l_held, 3 in lb and not r_held
            if not ((l_held and r_peer) or (r_held and l_peer)):
                continue
            for kind in ('true', 'false'):
                e = c[kind + '_edge']
                if e[1] is not None and body.edge_dominates(e, pb):
                    rel = c['rel'] if kind == 'true' else NEG[c['rel']]
                    if r_held:          # lhs = peer, rhs = held  ->  held FLIP(rel) peer
                        rel = FLIP[rel]
                    guard = ('cmp', rel, c['line'])
        for qb, qt in preds:
            te, fe = bool_edges_of(body, qt['dest']['l'])
            if fe and all(body.edge_dominates(e, pb) for e in fe):
                guard = guard or ('pred-false', None, qt['cs'])
            elif te and all(body.edge_dominates(e, pb) for e in te):
                guard = guard or ('pred-true', None, qt['cs'])
        if guard is None:
            ctx.bad('C05.D0', 'push#%d|guard' % i, site(body, pt['cs']), 'a key is listed unconditionally')
        elif guard[0] == 'cmp':
            n_strict += 1
            ctx.ob('C05.D0', 'push#%d|guard' % i, guard[1] == '<', site(body, guard[2]),
                   'listed only when held %s peer' % guard[1] + ('' if guard[1] == '<' else
                   ' — must be strictly `held < peer`: with `<=` two synchronised replicas list every key for ever; with `>`/`>=` newer peer operations are never fetched'))
        else:
            n_pred += 1
            ctx.ob('C05.D0', 'push#%d|guard' % i, guard[0] == 'pred-false', site(body, guard[2]),
                   'a key the replica holds nothing for is listed only when NOT before the purge cut-off' if guard[0] == 'pred-false' else
                   'a key the replica holds nothing for is listed exactly when it IS before the purge cut-off: purged deletes come back, fresh keys are never fetched')
    ctx.floor('C05.D0', 'strictly guarded pushes (replica holds an insert / a delete)', n_strict, 2)
    ctx.floor('C05.D0', 'cut-off guarded pushes (replica holds nothing)', n_pred, 1)
    # diff: which loop feeds which vector; order of the returned tuple
    dflow = Flow(diff)
    dcalls = list(diff.calls())
    names = [f['name'] for f in facts.adts['datacake_crdt::orswot::OrSWotSet']['variants'][0]['fields']]
    sites_ = [(b, t) for b, t in dcalls if cname(t) == helper_name]
    vec_of = {}
    for b, t in sites_:
        vec_roots = [l for l in referent_roots(diff, op_local(t['args'][3]))]
        # the loop this call sits in iterates which field of `other` (param 2)?
        src = None
        for nb, nt in dcalls:
            if cname(nt) == 'core::iter::traits::iterator::Iterator::next' and diff.dominates(nb, b) and nt['dest']['l'] in dflow.backward([op_local(t['args'][2])]):
                itb = dflow.backward([op_local(nt['args'][0])])
                for _b, _j, s in diff.assigns():
                    if s['lhs']['l'] in itb and s['rv']['k'] == 'ref':
                        pl = s['rv']['pl']
                        if pl['l'] == 2 and len(pl['p']) >= 2 and isinstance(pl['p'][1], dict):
                            src = names[pl['p'][1]['f']]
        for v in vec_roots:
            vec_of[v] = src
    ret = None
    for _b, _j, s in diff.assigns():
        if s['lhs']['l'] == 0 and s['rv']['k'] == 'aggregate' and s['rv']['agg'] == 'tuple':
            ret = [op_local(o) for o in s['rv']['ops']]
    good = False
    detail = 'returned tuple not found'
    if ret and len(ret) == 2:
        srcs = []
        for l in ret:
            roots = dflow.backward([l])
            srcs.append(sorted({vec_of[v] for v in vec_of if v in roots and vec_of[v]}))
        good = srcs == [['entries'], ['dead']]
        detail = 'diff returns (vector fed from other.%s, vector fed from other.%s)' % ('/'.join(srcs[0]) or '?', '/'.join(srcs[1]) or '?')
    ctx.ob('C05.D0', 'diff|lists', good, site(diff), detail + ('' if good else ' — expected (entries, dead): modifications and removals are mixed up at the source'))
    # every path of diff walks both of the peer's maps (no early return that skips the per-key test)
    rets = diff.return_blocks()
    for b, t in sites_:
        nb_ = None
        for nb2, nt2 in dcalls:
            if cname(nt2) == 'core::iter::traits::iterator::Iterator::next' and diff.dominates(nb2, b):
                nb_ = nb2
        idx = sites_.index((b, t))
        good = nb_ is not None and diff.must_pass([0], [nb_], rets)
        ctx.ob('C05.D0', 'diff|loop#%d-on-every-path' % idx, good, site(diff, t['cs']),
               'every path through diff walks this map of the peer' if good else
               'diff can return without walking this map of the peer (early return / fast path): keys the replica lacks are not listed, so repair never fetches them')
    ctx.ob('C05.D0', 'diff|read-only', diff.local_ty(1).startswith('&') and not diff.local_ty(1).startswith('&mut'), site(diff),
           'diff takes %s' % diff.local_ty(1))


def bool_edges_of(body, local):
    import c18
    return c18.bool_edges(body, local)


def nested_param_locals(facts, root_fn, param_local):
    """follow a parameter of an async fn into the coroutine bodies that capture it: [(body, set(locals))]"""
    out = []
    cur_body, cur_locals = root_fn, {param_local}
    for _ in range(4):
        flow = Flow(cur_body)
        derived = flow.forward(list(cur_locals), stop=[0])
        out.append((cur_body, derived))
        nxt = None
        for blk, s, cdef, ops in closure_aggregates(cur_body):
            for j, o in enumerate(ops):
                l = op_local(o)
                if l is not None and l in derived:
                    child = facts.bodies.get(cdef)
                    if child is None:
                        continue
                    ls = set()
                    for _b, _j, st in child.assigns():
                        for pl in rv_places(st['rv']):
                            if pl['l'] == 1 and pl['p']:
                                fs = [e for e in pl['p'] if isinstance(e, dict) and 'f' in e]
                                if fs and fs[0]['f'] == j:
                                    ls.add(st['lhs']['l'])
                    if ls:
                        nxt = (child, ls)
        if nxt is None:
            break
        cur_body, cur_locals = nxt
    return out


DROPPERS = ('filter', 'filter_map', 'take', 'skip', 'step_by', 'take_while', 'skip_while', 'map_while')
MUT_DROPS = re.compile(r'::(retain|retain_mut|truncate|drain|pop|remove|swap_remove|dedup|dedup_by|dedup_by_key|clear|split_off|drain_filter|extract_if)$')


def lossy_steps(facts, body, flow, start_locals, upto_block=None):
    """steps applied to a list (identified by the locals that hold / derive from it) that can drop entries:
    iterator adaptors on a chain fed from it, and in-place mutations through a `&mut` of it"""
    out = []
    derived = flow.forward(list(start_locals), stop=[0])
    for b, t in body.calls():
        n = cname(t)
        if not n:
            continue
        if n.startswith('core::iter::traits::iterator::Iterator::') and last_seg(n) in DROPPERS and op_local(t['args'][0]) in derived:
            out.append((t['cs'], last_seg(n)))
        if MUT_DROPS.search(n) and t['args']:
            al = op_local(t['args'][0])
            roots = referent_roots(body, al) if al is not None else set()
            aty = body.local_ty(al) if al is not None else ''
            if al is not None and (al in derived or roots & set(derived)) and ('Vec<' in aty or 'SmallVec<' in aty):
                out.append((t['cs'], last_seg(n)))
    return out


def check_D1_tasks(ctx, facts, rule):
    # (5)/(6) the tasks build only their own message kinds from the list
    for task, allowed, plist_name in (('handle_removals', {'Del', 'MultiDel'}, 'removed'), ('handle_modified', {'MultiSet', 'Set'}, 'modified')):
        fn = facts.body(P + task)
        if fn is None:
            ctx.bad(rule, 'hop5|' + task, '', task + ' not found')
            continue
        pn = fn.local_names()
        plist = [k for k, v in pn.items() if v == plist_name and k <= fn.argc]
        built = set()
        fetch = False
        uses_list = False
        for body, ls in (nested_param_locals(facts, fn, plist[0]) if plist else []):
            for _b, _j, s in body.assigns():
                rv = s['rv']
                if rv['k'] == 'aggregate' and rv.get('agg') == 'adt' and strip_generics(rv['adt']).startswith(MSG):
                    built.add(last_seg(rv['adt']))
                    if any(op_local(o) in Flow(body, all_calls=True).forward(list(ls), stop=[0]) for o in rv['ops']):
                        uses_list = True
            for bb, t in body.calls():
                if cname(t) == EC + 'rpc::client::ReplicationClient::fetch_docs':
                    fetch = True
                    if any(op_local(a) in Flow(body, all_calls=True).forward(list(ls), stop=[0]) for a in t['args']):
                        uses_list = True
        good = bool(built) and built <= allowed and uses_list and (fetch if task == 'handle_modified' else not fetch)
        ctx.ob(rule, 'hop5|' + task, good, site(fn),
               '%s turns its list into %s%s only' % (task, '/'.join(sorted(built)), ' after fetch_docs' if fetch else '') if good else
               '%s builds %s (allowed %s), fetches documents: %s, uses its list: %s' % (task, sorted(built), sorted(allowed), fetch, uses_list))


def check_D1(ctx, facts, rule='C05.D1'):
    # (1) on_diff returns diff()'s tuple unpermuted
    hop1_pending = []
    od = [b for b in facts.bodies.values() if b.kind == 'coroutine' and b.name == EC + 'keyspace::actor::KeyspaceActor::on_diff::{closure#0}']
    for b in od:
        dc = [(bb, t) for bb, t in b.calls() if cname(t) == OS + 'diff']
        import analysis as _an
        good = len(dc) == 1 and dc[0][1]['dest']['l'] in _an._return_locals(b) and not dc[0][1]['dest']['p']
        why = 'on_diff does not return the pair computed by diff()'
        if len(dc) == 1 and not good:
            # destructure-and-rebuild is fine when the two lists keep their positions and are not touched in between
            flow = Flow(b)
            X = dc[0][1]['dest']['l']
            part = {0: set(), 1: set()}
            for _b, _j, s in b.assigns():
                if s['rv']['k'] == 'use':
                    pl = op_place(s['rv']['op'])
                    if pl and pl['l'] == X and len(pl['p']) == 1 and isinstance(pl['p'][0], dict) and 'f' in pl['p'][0]:
                        part[pl['p'][0]['f']] |= flow.forward([s['lhs']['l']], stop=[0])
            ret = None
            for _b, _j, s in b.assigns():
                if s['lhs']['l'] in _an._return_locals(b) and s['rv']['k'] == 'aggregate' and s['rv']['agg'] == 'tuple' and len(s['rv']['ops']) == 2:
                    ret = [op_local(o) for o in s['rv']['ops']]
            touched = [s['cs'] for _b, _j, s in b.assigns() if s['rv']['k'] == 'ref' and s['rv']['mut'] and s['rv']['pl']['l'] in (part[0] | part[1])]
            if ret and ret[0] in part[0] and ret[1] in part[1] and ret[0] not in part[1] and ret[1] not in part[0]:
                if touched:
                    why = 'a list computed by diff() is modified (line %s) before on_diff returns it: entries the replica lacks are withheld from the repair' % touched[0]
                else:
                    good = True
            elif ret:
                why = 'on_diff returns the two lists of diff() in each other\'s position'
        hop1_pending.append((good, site(b), why))
    if not od:
        hop1_pending.append((False, '', 'on_diff not found'))
    # (2) get_keyspace_diff: .0 -> modified, .1 -> removed
    kd = facts.adts.get(P + 'KeyspaceDiff')
    gk = [b for b in facts.bodies.values() if b.kind == 'coroutine' and b.name.startswith(P + 'get_keyspace_diff::{closure#0}')
          and any(s['rv']['k'] == 'aggregate' and s['rv'].get('agg') == 'adt' and strip_generics(s['rv']['adt']) == P + 'KeyspaceDiff' for _b, _j, s in b.assigns())]
    if not gk or kd is None:
        ctx.bad(rule, 'hop2|get_keyspace_diff', '', 'get_keyspace_diff / KeyspaceDiff not found')
    # SEM: get_keyspace_diff and handle_removals interpreted (repair_abs): every computed entry arrives in KeyspaceDiff with its own
    # stamp, in its own list, and removals are sent as deletes with exactly those stamps under the read-repair source; subsumes hop2
    import repair_abs
    hop_sem = repair_abs.check_repair(ctx, facts, rule + '.SEM' if not rule.endswith('.SEM') else rule)
    # (hop1 is part of that summary when the actor's `Diff` handler was interpreted inside it: the reply IS what on_diff makes of diff())
    if not (hop_sem and getattr(ctx, 'on_diff_interpreted', False)):
        for good_, site_, why_ in hop1_pending:
            ctx.ob(rule, 'hop1|on_diff', good_, site_, 'on_diff returns diff()\'s pair, positions kept, lists untouched' if good_ else why_)
    for b in ([] if hop_sem else gk):
        flow = Flow(b)
        sends = [(bb, t) for bb, t in b.calls() if cname(t) == 'puppet::ActorMailbox::send' and 'Diff' in ' '.join(t.get('gargs') or [])]
        good = False
        if sends:
            aw = awaited_output_local(b, flow, sends[0][0])
            pair = flow.forward([aw], stop=[0]) if aw is not None else set()
            part = {0: set(), 1: set()}
            for _b, _j, s in b.assigns():
                if s['rv']['k'] == 'use':
                    pl = op_place(s['rv']['op'])
                    if pl and pl['l'] in pair and len(pl['p']) == 1 and isinstance(pl['p'][0], dict) and 'f' in pl['p'][0] and 'Vec<' in b.local_ty(s['lhs']['l']):
                        part[pl['p'][0]['f']].add(s['lhs']['l'])
            for _b, _j, s in b.assigns():
                rv = s['rv']
                if rv['k'] == 'aggregate' and rv.get('agg') == 'adt' and strip_generics(rv['adt']) == P + 'KeyspaceDiff':
                    fl = dict(zip(rv['fields'], rv['ops']))
                    if 'modified' not in fl or 'removed' not in fl:
                        continue          # (the two lists travel in another shape: this structural clause cannot read it — `good` stays false, fail closed)
                    mb = flow.backward([op_local(fl['modified'])])
                    rb = flow.backward([op_local(fl['removed'])])
                    good = bool(part[0] & mb) and not (part[1] & mb) and bool(part[1] & rb) and not (part[0] & rb)
        if sends:
            lossy = lossy_steps(facts, b, flow, part[0] | part[1])
            ctx.ob(rule, 'hop2|lossless', not lossy, site(b), 'the two lists are carried into KeyspaceDiff without dropping entries' if not lossy else
                   'entries of the computed difference are dropped before they are stored in KeyspaceDiff (%s)' % lossy)
        ctx.ob(rule, 'hop2|get_keyspace_diff', good, site(b),
               'diff().0 -> KeyspaceDiff.modified, diff().1 -> KeyspaceDiff.removed' if good else
               'the pair returned by the actor is not stored as (modified, removed): removals are fetched as documents and modifications applied as deletes')
    # (3) repair_members: field removed / modified -> begin_keyspace_sync argument positions
    rm = [b for b in facts.bodies.values() if b.kind == 'coroutine' and b.name == P + 'repair_members::{closure#0}']
    pos = {}
    for b in rm:
        fields = [f['name'] for f in kd['variants'][0]['fields']]
        flow = Flow(b, only=set())
        for bb, t in b.calls():
            if cname(t) != P + 'begin_keyspace_sync':
                continue
            def diff_field(pl):
                if pl and b.local_ty(pl['l']) == P + 'KeyspaceDiff' and pl['p'] and isinstance(pl['p'][-1], dict) and 'f' in pl['p'][-1]:
                    return fields[pl['p'][-1]['f']]
                return None

            def field_source(l, depth=0):
                back = flow.backward([l])
                for _b, _j, s in b.assigns():
                    if s['lhs']['l'] in back and s['rv']['k'] == 'use':
                        f_ = diff_field(op_place(s['rv']['op']))
                        if f_ is not None:
                            return f_
                # through a one-argument converter of the crate that keeps every entry (element-wise map / collect, no dropping adaptor)
                for _b2, t2 in b.calls():
                    cb = facts.body(cname(t2)) if cname(t2) and cname(t2).startswith(EC) else None
                    if cb is None or t2['dest']['l'] not in back or t2['dest']['p'] or len(t2['args']) != 1 or depth > 2:
                        continue
                    if lossy_steps(facts, cb, Flow(cb), [1]) or 0 not in Flow(cb).forward([1]):
                        continue
                    f_ = diff_field(op_place(t2['args'][0]))
                    if f_ is None and op_local(t2['args'][0]) is not None:
                        f_ = field_source(op_local(t2['args'][0]), depth + 1)
                    if f_ is not None:
                        return f_
                return None
            full = None
            for i, a in enumerate(t['args']):
                # both lists travelling together in one private struct with fields called modified / removed: which is which is then decided
                # by name inside begin_keyspace_sync (routing summary below)
                cands_ = [op_place(a)]
                if op_local(a) is not None:
                    back_ = flow.backward([op_local(a)])
                    cands_ += [op_place(s_['rv']['op']) for _b0, _j0, s_ in b.assigns() if s_['lhs']['l'] in back_ and s_['rv']['k'] == 'use']
                for pl_ in cands_:
                    if pl_ and b.local_ty(pl_['l']) == P + 'KeyspaceDiff' and pl_['p'] and isinstance(pl_['p'][-1], dict) and 'ty' in pl_['p'][-1]:
                        ba = facts.adts.get(ty_head(pl_['p'][-1]['ty']))
                        if ba is not None and ba['kind'] == 'struct' and {'modified', 'removed'} <= {f['name'] for f in ba['variants'][0]['fields']}:
                            pos['bundle'] = i + 1
                f_ = diff_field(op_place(a))
                if f_ is None and op_local(a) is not None:
                    f_ = field_source(op_local(a))
                if f_ is None and op_local(a) is not None and ('Vec<' in b.local_ty(op_local(a))):
                    # through an iterator chain in this body (a converter inlined at load, or written in place): the argument derives from
                    # exactly ONE field of the diff and no dropping adaptor sits on the way
                    full = full or Flow(b)
                    back = full.backward([op_local(a)])
                    found = set()
                    srcs = []
                    for _b3, t3 in b.calls():
                        if t3['dest']['l'] in back:
                            for a3 in t3['args']:
                                f3 = diff_field(op_place(a3))
                                if f3 is not None:
                                    found.add(f3)
                                    srcs.append(t3['dest']['l'])
                    for _b3, _j3, s3 in b.assigns():
                        if s3['lhs']['l'] in back and s3['rv']['k'] == 'use':
                            f3 = diff_field(op_place(s3['rv']['op']))
                            if f3 is not None:
                                found.add(f3)
                                srcs.append(s3['lhs']['l'])
                    if len(found) == 1 and not [x for x in lossy_steps(facts, b, full, srcs) if True and any(
                            op_local(t4['args'][0]) in back for _b4, t4 in b.calls() if t4['cs'] == x[0] and t4['args'])]:
                        f_ = found.pop()
                if f_ is not None:
                    pos[f_] = i + 1
    # (3b) every listed change is exchanged: from the Some edge of the loop over the changes no path comes back to the loop
    #      (or leaves it) without passing begin_keyspace_sync — a skipped change is a difference that is never applied
    for b in rm:
        flow3 = Flow(b)
        calls3 = list(b.calls())
        syncs = [bb for bb, t in calls3 if cname(t) == P + 'begin_keyspace_sync']
        for nb, nt in [(bb, t) for bb, t in calls3 if cname(t) == 'core::iter::traits::iterator::Iterator::next']:
            ity = b.local_ty(op_local(nt['args'][0])) if op_local(nt['args'][0]) is not None else ''
            if 'KeyspaceDiff' not in ity and 'KeyspaceDiff' not in b.local_ty(nt['dest']['l']):
                continue
            re3 = ResultEdges(b, flow3, nb, include_option=True)
            starts = [e[1] for e in re3.ok]
            R = b.reachable_from(starts, avoid=syncs) if starts else set()
            skipped = bool(starts) and (nb in R or bool(set(b.return_blocks()) & R))
            ctx.ob(rule, 'hop3|every-change-exchanged', bool(starts) and bool(syncs) and not skipped, site(b, nt['cs']),
                   'every change listed for a peer is handed to begin_keyspace_sync (no iteration skips it)' if starts and syncs and not skipped else
                   'an iteration over the listed changes can skip begin_keyspace_sync: that difference (e.g. one that only lists removals) is never applied, '
                   'and if its stamp is recorded as synced it is never retried')
    bks = facts.body(P + 'begin_keyspace_sync')
    import sync_abs
    routing_sem = sync_abs.check_supervision(ctx, facts, rule + '.SEM' if not rule.endswith('.SEM') else rule, only_routing=True)
    if rule.startswith('C05'):
        import poll_abs
        poll_abs.check_polling(ctx, facts, 'C05.D3.SEM')
        import tracker_abs
        tracker_abs.check_tracker(ctx, facts, 'C05.D5.SEM')
    if bks is not None and 'bundle' in pos and routing_sem:
        ctx.ok(rule, 'hop3|repair_members', site(rm[0]) if rm else '', 'the two lists travel together, by name, in one private struct handed to begin_keyspace_sync; which task gets which is decided by the routing summary')
        check_D1_tasks(ctx, facts, rule)
        return
    if bks is None or 'removed' not in pos or 'modified' not in pos:
        ctx.bad(rule, 'hop3|repair_members', '', 'cannot see how repair_members hands the two lists to begin_keyspace_sync (fail closed)')
        return
    pnames = bks.local_names()
    good = pnames.get(pos['removed']) == 'removed' and pnames.get(pos['modified']) == 'modified'
    ctx.ob(rule, 'hop3|repair_members', good, site(rm[0]),
           'change.removed -> parameter `%s`, change.modified -> parameter `%s`' % (pnames.get(pos['removed']), pnames.get(pos['modified'])) +
           ('' if good else ' — the two lists are passed in each other\'s position'))
    # (4) begin_keyspace_sync: parameter -> task
    reach = {}
    for fld in ('removed', 'modified'):
        plist = [k for k, v in pnames.items() if v == fld and k <= bks.argc]
        tasks = set()
        if plist:
            for body, ls in nested_param_locals(facts, bks, plist[0]):
                for bb, t in body.calls():
                    if cname(t) in (P + 'handle_removals', P + 'handle_modified') and any(op_local(a) in ls for a in t['args']):
                        tasks.add(last_seg(cname(t)))
        reach[fld] = tasks
    lossy4 = []
    for fld in ('removed', 'modified'):
        plist = [k for k, v in pnames.items() if v == fld and k <= bks.argc]
        if plist:
            for body, ls in nested_param_locals(facts, bks, plist[0]):
                for line, what in lossy_steps(facts, body, Flow(body), ls):
                    lossy4.append((fld, what, line))
    ctx.ob(rule, 'hop4|lossless', not lossy4, site(bks),
           'both lists reach their application task without an entry being dropped' if not lossy4 else
           'entries of the difference are dropped inside begin_keyspace_sync before they reach their task: %s — the peer\'s operations for those keys are '
           'never applied although the exchange is recorded as complete' % ['%s: %s (line %s)' % x for x in lossy4])
    good = reach['removed'] == {'handle_removals'} and reach['modified'] == {'handle_modified'}
    ctx.ob(rule, 'hop4|begin_keyspace_sync', good, site(bks),
           'parameter removed -> handle_removals only, parameter modified -> handle_modified only' if good else
           'parameter removed reaches %s, parameter modified reaches %s' % (sorted(reach['removed']), sorted(reach['modified'])))
    check_D1_tasks(ctx, facts, rule)

def check(ctx):
    facts = ctx.facts('prod')
    # PURE (round 8, C04h: the mutators dropped operations stamped too far ahead of the replica's wall clock): set operations read no ambient input
    import purity
    purity.check_pure_core(ctx, facts, 'C05.PURE')
    # SEM: diff's per-key transfer function over the finite domain of order types (P-ORDER): a peer entry is listed exactly
    # when this replica lacks it, live keys first list, tombstones second.  Subsumes D0, which is only evaluated when the
    # code uses a construct the abstract interpreter does not model.
    import orswot_abs
    if not orswot_abs.check_diff(ctx, facts, 'C05.SEM'):
        check_D0(ctx, facts)
    check_D1(ctx, facts)
    # D4: the source-id discipline (= C01.S1) re-evaluated under C05: the repair path assumes that only repair exchanges feed the
    # read-repair source; a live-path message filed under it makes the replica refuse repaired entries it lacks, and `diff` lists them
    # again after every exchange (round 6, C05f)
    import c01
    c01.check_S1(ctx, facts, CallGraph(facts), rule='C05.D4')
    # D6: the state a replica diffs against and the stamp it records as synchronised come from one GetState reply: the stamp is read
    # before the snapshot (= C01.S6; round 7, C05g — the third independent rediscovery of that reordering)
    c01.check_S6(ctx, facts, rule='C05.D6')
    # A: the keyspace actor applies what it is handed (keyspace/actor.rs is one of C05's anchors): the C02 handler
    #    obligations (write-then-fold, record = what storage gets, every region folds) re-evaluated under C05.A
    import c02
    n0 = len(ctx.obs)
    c02.check(ctx)
    for o in ctx.obs[n0:]:
        if o.rule.startswith('C02.G'):
            o.ok = True          # the gate mismatch is reported under C02 / C04 only (one defect, one place)
            o.detail = '(gate agreement is evaluated and reported under C02.G / C04.G)'
            o.nontrivial = False
        o.rule = o.rule.replace('C02.', 'C05.A-')
