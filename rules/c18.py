"""C18 — a keyspace has one state even under concurrent first use.  DESIGN §5 C18."""
from analysis import *  # noqa
from facts import strip_generics, op_local, op_const, const_int, last_seg, ty_head
from engine import site

CONFIGS = ['prod']
EXPLANATION = (
    'SEM (abstract interpretation of the MIR, no code runs): KeyspaceGroup::get_or_create_keyspace is interpreted for a name the group does not hold, with a COMPETITOR running '
    'the same function for the same name to completion (the real code, interpreted on the same tables) before the call, at each of its awaits, and at each gap between two of its '
    'critical sections (a parallel runtime needs no await to interleave there; no competitor while the call holds a guard, it would block): for every placement both calls and a later '
    'lookup must return the same keyspace actor, and the change-stamp cell registered for the name must be the one created with that actor. Two tasks, every interleaving of one of them at '
    'that granularity; subsumes A1, A2 and A4, which are the fallback. '
    'Structural clauses (check-then-act atomicity, the mechanism of the property): A1 every insert into the keyspace table reachable from '
    'get_or_create_keyspace is performed under a write guard under which an absence test on the same table was made, with no await '
    '(Yield) between the guard\'s acquisition and the insert, the insert lying only on the absent edge and the present edge returning '
    'the existing entry; A2 the keyspace\'s change-stamp cell is registered on the absent edge of the same test without an await after '
    'the table guard was taken (a loser must not overwrite the winner\'s cell); A5 the store registers its RPC services and starts its tasks only after the rebuild from storage succeeded (the loader inserts unconditionally: an instance created by a request served during the load would be replaced); A3 the unconditional bulk loader is reachable only from '
    'store creation, not from request paths.')
ASSUMPTIONS = ['parking_lot RwLock write guards are exclusive', 'a task is only descheduled at an await (Yield) point']

G = 'datacake_eventual_consistency::keyspace::group::'
KG = G + 'KeyspaceGroup'
LOCK_W = ('lock_api::rwlock::RwLock::write', 'lock_api::mutex::Mutex::lock', 'std::sync::RwLock::write', 'std::sync::Mutex::lock')
LOCK_R = ('lock_api::rwlock::RwLock::read', 'lock_api::rwlock::RwLock::upgradable_read', 'std::sync::RwLock::read')
BT = 'alloc::collections::btree::map::'
OVERWRITE = (BT + 'BTreeMap::insert', BT + 'entry::OccupiedEntry::insert', BT + 'entry::Entry::insert_entry')
ABSENT_ONLY = (BT + 'entry::VacantEntry::insert', BT + 'entry::VacantEntry::insert_entry')
LOOKUP_OR_INSERT = (BT + 'entry::Entry::or_insert', BT + 'entry::Entry::or_insert_with', BT + 'entry::Entry::or_insert_with_key', BT + 'entry::Entry::or_default')
LOOKUP = (BT + 'BTreeMap::get', BT + 'BTreeMap::get_mut', BT + 'entry::OccupiedEntry::get', BT + 'entry::OccupiedEntry::get_mut',
          BT + 'entry::OccupiedEntry::into_mut', BT + 'BTreeMap::get_key_value')


def return_points(body):
    """[(block, stmt-or-term)] writing the return place itself"""
    out = [(b, s) for b, _j, s in body.assigns() if s['lhs']['l'] == 0 and not s['lhs']['p']]
    out += [(b, t) for b, t in body.calls() if t['dest']['l'] == 0 and not t['dest']['p']]
    return out


def ret_sources(body, flow, s):
    """locals the returned value is derived from"""
    if s.get('k') == 'call':
        return flow.backward([op_local(a) for a in s['args'] if op_local(a) is not None])
    src = set()
    if s.get('rv'):
        for pl in rv_places(s['rv']):
            src |= flow.backward([pl['l']])
    return src


ABSENCE = ('alloc::collections::btree::map::BTreeMap::get', 'alloc::collections::btree::map::BTreeMap::contains_key',
           'alloc::collections::btree::map::BTreeMap::entry', 'alloc::collections::btree::map::BTreeMap::get_mut')


def field_of_lock(body, flow, facts, lock_term):
    """name of the KeyspaceGroup field whose lock is taken"""
    names = [f['name'] for f in facts.adts[KG]['variants'][0]['fields']]
    back = flow.backward([op_local(lock_term['args'][0])])
    for _b, _j, s in body.assigns():
        if s['lhs']['l'] in back and s['rv']['k'] == 'ref':
            pl = s['rv']['pl']
            if body.local_ty(pl['l']).replace('&', '').strip().startswith(KG):
                fs = [e['f'] for e in pl['p'] if isinstance(e, dict) and 'f' in e]
                if fs:
                    return names[fs[0]]
    return None


def bool_edges(body, local):
    """(true_edges, false_edges) of the switch steered by bool `local` (through Not / copies)"""
    cur, pol = local, True
    for _ in range(5):
        sw = switch_on(body, cur)
        if sw:
            sb, st = sw[0]
            tm = {int(v): tb for v, tb in st['targets']}
            f_t = tm.get(0, st['otherwise'])
            t_t = st['otherwise'] if 0 in tm else tm.get(1)
            te, fe = [(sb, t_t)], [(sb, f_t)]
            return (te, fe) if pol else (fe, te)
        nxt = None
        for _b, _j, s in body.assigns():
            if s['lhs']['p']:
                continue
            if s['rv']['k'] == 'un' and s['rv']['op'] == 'Not' and op_local(s['rv']['a']) == cur:
                nxt, pol = s['lhs']['l'], not pol
            elif s['rv']['k'] == 'use' and op_local(s['rv']['op']) == cur and not op_place(s['rv']['op'])['p']:
                nxt = s['lhs']['l']
        if nxt is None:
            return ([], [])
        cur = nxt
    return ([], [])


class Presence:
    """present / absent edges of a map presence test (get / contains_key, possibly through is_some / is_none)"""

    def __init__(self, body, flow, tb):
        t = body.term(tb)
        self.ok, self.err = [], []
        dest = t['dest']['l']
        if body.local_ty(dest) == 'bool':
            self.ok, self.err = bool_edges(body, dest)
        else:
            re_ = ResultEdges(body, flow, tb, include_option=True)
            self.ok, self.err = list(re_.ok), list(re_.err)
            fw = flow.forward([dest], stop=[0])
            for b2, t2 in body.calls():
                if cname(t2) in ('core::option::Option::is_some', 'core::option::Option::is_none') and op_local(t2['args'][0]) in fw:
                    te, fe = bool_edges(body, t2['dest']['l'])
                    if cname(t2).endswith('is_none'):
                        te, fe = fe, te
                    self.ok += te
                    self.err += fe
        self.inspected = bool(self.ok or self.err)


def yields_on_paths(body, a, b):
    """Yield blocks lying on some path a -> b"""
    ys = [i for i, blk in enumerate(body.blocks) if blk['t']['k'] == 'yield' and not blk['cleanup']]
    fr = body.reachable_from([a])
    return [y for y in ys if y in fr and b in body.reachable_from([y])]


def check(ctx):
    facts = ctx.facts('prod')
    if KG not in facts.adts:
        ctx.bad('C18.A1', 'anchor', '', 'KeyspaceGroup not found (fail closed)')
        return
    cg = CallGraph(facts)
    root = facts.body(KG + '::get_or_create_keyspace')
    if root is None:
        ctx.bad('C18.A1', 'anchor', '', 'get_or_create_keyspace not found (fail closed)')
        return
    reach = [b for b in cg.reach([root], bound=4) if b.crate == 'datacake_eventual_consistency' and b.name.startswith(G)]
    n_group = n_ts = n_ret = 0
    # SEM: the first use of a keyspace interpreted with one competitor at every suspension point (every await, and every gap between
    # two critical sections) of the creation path (group_abs); subsumes A1, A2 and A4, which are evaluated only when a construct is not modelled
    import group_abs
    sem = group_abs.check_group(ctx, facts, 'C18.SEM')
    for body in ([] if sem else reach):
        flow = Flow(body)
        calls = list(body.calls())
        locks = {}
        for b, t in calls:
            if cname(t) in LOCK_W:
                locks[t['dest']['l']] = (b, t, field_of_lock(body, flow, facts, t))
        inserts = [(b, t) for b, t in calls if cname(t) in OVERWRITE + ABSENT_ONLY + LOOKUP_OR_INSERT]
        # group-table absence tests under a write guard, by guard
        group_tests = {}
        for gl, (lb, lt, fld) in locks.items():
            if fld != 'group':
                continue
            for b, t in calls:
                if cname(t) in ABSENCE and gl in flow.backward([op_local(t['args'][0])]) and body.dominates(lb, b):
                    group_tests.setdefault(gl, []).append((b, t))
        # lookups on the keyspace table (under any guard of it): their results are "the table's instance"
        table_guards = {l for l, (_b, _t, f) in locks.items() if f == 'group'}
        for b, t in calls:
            if cname(t) in LOCK_R and field_of_lock(body, flow, facts, t) == 'group':
                table_guards.add(t['dest']['l'])
        lookups = [t['dest']['l'] for b, t in calls if cname(t) in LOOKUP + LOOKUP_OR_INSERT
                   and table_guards & flow.backward([op_local(t['args'][0])])]
        real_inserts = []      # blocks where this task's fresh actor really enters the table
        for ib, it in inserts:
            recv = flow.backward([op_local(it['args'][0])])
            gls = [gl for gl in locks if gl in recv]
            if not gls:
                continue
            gl = gls[0]
            lb, lt, fld = locks[gl]
            name = body.name.replace(G, '').replace('::{closure#0}', '')
            if fld == 'group':
                n_group += 1
                key = '%s|group-insert' % name
                ys = yields_on_paths(body, lb, ib)
                tests = group_tests.get(gl, [])
                meth = cname(it)
                why = []
                if meth in ABSENT_ONLY:
                    absent_ok = True        # a VacantEntry exists only when the key is absent
                    real_inserts.append((ib, it))
                elif meth in LOOKUP_OR_INSERT:
                    absent_ok = True        # inserts only when absent; its result is the table's instance either way
                else:
                    absent_ok = False
                    if meth.endswith('OccupiedEntry::insert'):
                        why.append('the occupied entry is overwritten: a task that lost the race replaces the winner\'s actor')
                    for tb, tt in tests:
                        if cname(tt).endswith('::entry'):
                            continue
                        re_ = Presence(body, flow, tb)
                        if re_.inspected and any(body.edge_dominates(e, ib) for e in re_.err) and not any(body.edge_dominates(e, ib) for e in re_.ok):
                            absent_ok = True
                    if absent_ok:
                        real_inserts.append((ib, it))
                    elif not [x for x in tests if not cname(x[1]).endswith('::entry')] and not why:
                        why.append('no absence test on the keyspace table is made under the write guard: the insert is unconditional, so a task that lost the '
                                   'race replaces the winner\'s actor (writes acknowledged through the first actor vanish from the set peers synchronise against)')
                    elif not why:
                        why.append('the insert is not confined to the absent edge of the test')
                if ys:
                    why.append('an await lies between taking the guard and the insert')
                good = absent_ok and not ys
                ctx.ob('C18.A1', key, good, site(body, it['cs']),
                       'insert-if-absent under one write guard, no await in between' if good else '; '.join(why))
                # what the function hands back is the instance the table holds
                ins_roots = set()
                for rib, rit in real_inserts:
                    if len(rit['args']) > 1:
                        ins_roots |= flow.backward([op_local(a) for a in rit['args'][1:] if op_local(a) is not None])
                ins_roots = {l for l in ins_roots if l > body.argc}
                for rb, s_ in return_points(body):
                    if rb not in body.reachable_from([lb]):
                        src = ret_sources(body, flow, s_)
                        ok_r = bool(src & set(lookups))
                        why_r = 'a value returned before the guard is taken does not come from the keyspace table'
                    else:
                        src = ret_sources(body, flow, s_)
                        if src & set(lookups):
                            ok_r, why_r = True, ''
                        else:
                            passes = bool(real_inserts) and body.must_pass([lb], [x[0] for x in real_inserts], [rb])
                            shares = bool(src & ins_roots)
                            ok_r = passes and shares
                            why_r = ('the function can return its own freshly spawned keyspace actor on a path where that actor was not inserted into the '
                                     'table (the key was already present): the caller applies its mutation to an orphan set that peers never '
                                     'synchronise against, while the write is acknowledged' if not passes else
                                     'the value returned after the insert is not the inserted instance')
                    idx = len([o for o in ctx.obs if o.rule == 'C18.A4' and o.key.startswith(name + '|returns-table-instance')])
                    ctx.ob('C18.A4', '%s|returns-table-instance#%d' % (name, idx), ok_r, site(body, s_.get('cs')),
                           'the returned keyspace is the one the table holds (looked up, or inserted on every path to this return)' if ok_r else why_r)
                    n_ret += 1
            elif fld == 'keyspace_timestamps':
                n_ts += 1
                key = '%s|stamp-cell-insert' % name
                # must lie on the absent edge of a group-table test, with no Yield since that guard was taken
                good = False
                why = 'the change-stamp cell is registered unconditionally: a task that lost the race overwrites the winner\'s cell, so the keyspace\'s changes are no longer advertised to peers'
                if cname(it) in ABSENT_ONLY + LOOKUP_OR_INSERT:
                    good = True      # an existing cell is kept: the winner's registration survives
                for ggl, tests in group_tests.items():
                    glb = locks[ggl][0]
                    for tb, tt in tests:
                        re_ = Presence(body, flow, tb)
                        if cname(tt).endswith('::entry'):
                            continue
                        if re_.inspected and any(body.edge_dominates(e, ib) for e in re_.err):
                            if yields_on_paths(body, glb, ib):
                                why = 'an await lies between taking the keyspace-table guard and registering the change-stamp cell'
                            else:
                                good = True
                # or: registered only after this very task inserted its actor into the table (same guard scope, no await)
                for rib, rit in real_inserts:
                    if body.dominates(rib, ib) and not yields_on_paths(body, rib, ib):
                        good = True
                # or: insert-if-absent under its own guard
                own_tests = [(b, t) for b, t in calls if cname(t) in ABSENCE and gl in flow.backward([op_local(t['args'][0])]) and body.dominates(b, ib)]
                for tb, tt in own_tests:
                    re_ = Presence(body, flow, tb)
                    if re_.inspected and any(body.edge_dominates(e, ib) for e in re_.err) and not yields_on_paths(body, lb, ib):
                        good = True
                ctx.ob('C18.A2', key, good, site(body, it['cs']),
                       'the change-stamp cell is registered only by the task that created the keyspace' if good else why)
    if not sem:
        ctx.floor('C18.A1', 'keyspace-table inserts reachable from get_or_create_keyspace', n_group, 1)
        ctx.floor('C18.A2', 'change-stamp cell inserts reachable from get_or_create_keyspace', n_ts, 1)
        ctx.floor('C18.A4', 'returns of the function that inserts into the keyspace table', n_ret, 1)

    # ---- A5: the unconditional loader has finished before anything that can create a keyspace is served (= C07.R3) --------------
    # load_states inserts without looking: an instance created by a request that was served during the load is replaced, and the write
    # it accepted is missing from the set peers repair against (round 6, C18f: service registration moved above the load)
    import c07
    c07.check_R3(ctx, facts, rule='C18.A5')
    # ---- A3 -------------------------------------------------------------------------
    allowed = {KG + '::load_states_from_storage'}
    callers = cg.callers_of(lambda n, t: n == KG + '::load_states')
    bad = [b for b, blk, t in callers if not any(b.name.startswith(a) for a in allowed)]
    ctx.ob('C18.A3', 'load_states|callers', not bad and bool(callers), '',
           'load_states (unconditional insert) is called only from load_states_from_storage' if not bad and callers else
           'load_states is called from %s' % sorted({b.name for b in bad}) if bad else 'load_states has no caller (anchor lost)')
    callers2 = cg.callers_of(lambda n, t: n == KG + '::load_states_from_storage')
    bad2 = [b for b, blk, t in callers2 if 'EventuallyConsistentStore' not in b.name or '::create' not in b.name]
    ctx.ob('C18.A3', 'load_states_from_storage|callers', not bad2 and bool(callers2), '',
           'load_states_from_storage is called only from store creation' if not bad2 and callers2 else
           'load_states_from_storage is reachable from %s' % sorted({b.name for b in bad2}))
