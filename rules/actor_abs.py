"""Sequential abstract interpretation of actor loops and async handlers (P-ORDER interpreter + a small model of channels,
one-shot replies and timers).  Awaited futures resolve at once: the interpretation follows ONE task through its code
and records the externally visible effects (replies sent, clock advanced, storage called) as a trace.  It decides
"what does this handler do with one message", not interleavings."""
import absint
from absint import Interp, Order, Cell, Unmodelled, mk_option, UNIT, mk_bool
from facts import strip_generics, last_seg, ty_head


def ok(v):
    return ('adt', 'core::result::Result', 0, [Cell(v)])


def err(v=('opaque', 'error')):
    return ('adt', 'core::result::Result', 1, [Cell(v)])


class Chan:
    def __init__(self, script=None):
        self.script = list(script or [])
        self.sent = []


class World:
    """external effects of one interpretation"""

    def __init__(self, hooks=None):
        self.trace = []
        self.hooks = hooks or []
        self.n_oneshot = 0

    # ---- calls -----------------------------------------------------------------------------------------------------
    def call(self, interp, name, args, t, body):
        for h in self.hooks:
            r = h(self, interp, name, args, t, body)
            if r is not None:
                return r
        seg = last_seg(name)
        if name.startswith('flume::'):
            a0 = interp.deref_all(args[0]) if args else None
            if seg in ('recv_async', 'into_recv_async'):
                return ('future', 'recv', a0[1])
            if seg in ('recv', 'try_recv', 'recv_timeout', 'recv_deadline'):
                ch = a0[1]
                return ok(ch.script.pop(0)) if ch.script else err(('opaque', 'disconnected'))
            if seg in ('send_async', 'into_send_async'):
                return ('future', 'send', a0[1], args[1])
            if seg in ('send', 'try_send', 'send_timeout'):
                a0[1].sent.append(args[1])
                self.trace.append(('chan-send', seg, args[1]))
                return ok(UNIT)
            if seg in ('bounded', 'unbounded'):
                ch = Chan()
                return ('tuple', [Cell(('chan', ch)), Cell(('chan', ch))])
            if seg in ('len', 'capacity'):
                return ('int', None)
            if seg in ('is_empty', 'is_full', 'is_disconnected'):
                return ('bool', None)
        if name.startswith('tokio::sync::oneshot::'):
            if seg == 'channel':
                self.n_oneshot += 1
                return ('tuple', [Cell(('otx', self.n_oneshot)), Cell(('orx', self.n_oneshot))])
            if seg == 'send':
                tx = interp.deref_all(args[0])
                self.trace.append(('reply', tx[1] if tx and tx[0] == 'otx' else tx, args[1]))
                return ok(UNIT)
        if 'FuturesUnordered' in name or 'FuturesOrdered' in name:
            if seg in ('new', 'default'):
                return ('futs', [])
            a0 = interp.deref_all(args[0]) if args else None
            if a0 is not None and a0[0] == 'futs':
                if seg in ('push', 'push_back'):
                    a0[1].append(args[1])
                    return UNIT
                if seg == 'len':
                    return ('int', len(a0[1]))
                if seg == 'is_empty':
                    return mk_bool(not a0[1])
        if name.endswith('StreamExt::next') and args:
            a0 = interp.deref_all(args[0])
            if a0 is not None and a0[0] == 'futs':
                return ('future', 'stream-next', a0)
        # future / stream combinators (futures-util): kept symbolic, resolved when polled
        if name.endswith('::unfold') and name.startswith('futures') and len(args) == 2:
            return ('futs-unfold', Cell(args[0]), args[1])
        if name.endswith('StreamExt::fold') and len(args) == 3:
            a0u = interp.deref_all(args[0])
            if a0u is not None and a0u[0] == 'futs-unfold':
                return ('future', 'unfold-fold', a0u, args[1], args[2])
        if name.endswith('FutureExt::map') and len(args) == 2:
            return ('future', 'mapped', args[0], args[1])
        if name.endswith('FutureExt::then') and len(args) == 2:
            return ('future', 'then', args[0], args[1])
        if (name.endswith('StreamExt::fold') or name.endswith('TryStreamExt::try_fold')) and len(args) == 3:
            a0 = interp.deref_all(args[0])
            if a0 is not None and a0[0] == 'futs':
                return ('future', 'stream-fold', a0, args[1], args[2])
        if name.endswith('StreamExt::for_each') and len(args) == 2:
            a0 = interp.deref_all(args[0])
            if a0 is not None and a0[0] == 'futs':
                return ('future', 'stream-fold', a0, UNIT, ('for_each', args[1]))
        if name.endswith('StreamExt::collect') and len(args) == 1:
            a0 = interp.deref_all(args[0])
            if a0 is not None and a0[0] == 'futs':
                return ('future', 'stream-collect', a0)
        if name in ('tokio::task::spawn::spawn', 'tokio::task::spawn', 'tokio::spawn', 'tokio::task::spawn::spawn_local', 'tokio::runtime::handle::Handle::spawn'):
            # a detached task: whatever it does happens after (and independently of) the handler's own return
            self.trace.append(('spawned-detached',))
            return ('opaque', 'join-handle')
        if name in ('tokio::time::sleep::sleep', 'tokio::time::sleep', 'tokio::time::sleep::sleep_until', 'tokio::task::yield_now::yield_now'):
            return ('future', 'sleep')
        if name.startswith('core::time::Duration::') and seg.startswith('from_'):
            return ('opaque', 'duration')
        if name.startswith('tracing::instrument::') and seg in ('instrument', 'in_current_span', 'or_current', 'with_subscriber', 'with_current_subscriber') and args:
            return args[0]           # (#[instrument] on an async fn: the instrumented future IS the future)
        if name.startswith('tracing') or name.startswith('log::') or '::__macro_support' in name or name.startswith('tracing_core'):
            ty_ = body.local_ty(t['dest']['l'])
            return ('bool', False) if ty_ == 'bool' else (('ref', Cell(('opaque', 'tracing'))) if ty_.startswith('&') else ('opaque', 'tracing'))
        if name == 'core::mem::drop' or name.startswith('core::ptr::drop_in_place'):
            return UNIT
        if name in ('core::future::ready::ready', 'core::future::ready', 'futures_util::future::ready::ready', 'futures_util::future::ready') and args:
            return ('future', 'ready', args[0])
        # views / owned copies of a symbolic string are the same text
        if args and seg in ('as_str', 'as_ref', 'borrow', 'deref', 'to_string', 'to_owned', 'clone', 'into', 'from', 'into_owned', 'as_mut_str', 'into_boxed_str', 'into_string') \
                and (name.startswith(('alloc::string::String::', 'core::str::', 'alloc::str::', 'alloc::borrow::Cow::')) or
                     name in ('core::convert::AsRef::as_ref', 'core::borrow::Borrow::borrow', 'core::ops::deref::Deref::deref', 'alloc::string::ToString::to_string',
                              'alloc::borrow::ToOwned::to_owned', 'core::clone::Clone::clone', 'core::convert::Into::into', 'core::convert::From::from')):
            a0 = interp.deref_all(args[0])
            if a0 is not None and a0[0] == 'key' and not t['dest']['p']:
                ty = body.local_ty(t['dest']['l'])
                return ('ref', Cell(a0)) if ty.startswith('&') else a0
        return None

    # ---- futures ---------------------------------------------------------------------------------------------------
    def poll(self, interp, pin, f):
        if f is None or f[0] != 'future':
            if f is not None and f[0] == 'orx':
                for ev in self.trace:
                    if ev[0] == 'reply' and ev[1] == f[1]:
                        return ok(ev[2])
                return err(('opaque', 'reply-channel-closed'))
            return None
        kind = f[1]
        if kind == 'recv':
            ch = f[2]
            return ok(ch.script.pop(0)) if ch.script else err(('opaque', 'disconnected'))
        if kind == 'send':
            f[2].sent.append(f[3])
            self.trace.append(('chan-send', 'send_async', f[3]))
            return ok(UNIT)
        if kind == 'sleep':
            self.trace.append(('sleep',))
            return UNIT
        if kind == 'ready':
            return f[2]
        if kind in ('mapped', 'then'):
            out = self.resolve(interp, f[2])
            r = interp.call_closure(f[3], [out], 0)
            return self.resolve(interp, r) if kind == 'then' else r
        if kind == 'unfold-fold':
            st_cell, gen = f[2][1], f[2][2]
            acc = f[3]
            for _ in range(64):
                nxt = interp.deref_all(self.resolve(interp, interp.call_closure(gen, [st_cell.v], 0)))
                if nxt is None or nxt[0] != 'adt' or nxt[1] != 'core::option::Option':
                    raise Unmodelled('unfold step does not yield an Option')
                if nxt[2] == 0:
                    return acc
                pair = interp.deref_all(nxt[3][0].v)
                item, st_cell.v = pair[1][0].v, pair[1][1].v
                acc = self.resolve(interp, interp.call_closure(f[4], [acc, item], 0))
            raise Unmodelled('unfold does not terminate on the scripted queue')
        if kind in ('stream-fold', 'stream-collect'):
            futs = f[2][1]
            acc = f[3] if kind == 'stream-fold' else None
            outs = []
            while futs:
                out = self.resolve(interp, futs.pop(0))
                if kind == 'stream-collect':
                    outs.append(out)
                    continue
                step = f[4]
                if isinstance(step, tuple) and step and step[0] == 'for_each':
                    self.resolve(interp, interp.call_closure(step[1], [out], 0))
                else:
                    acc = self.resolve(interp, interp.call_closure(step, [acc, out], 0))
            return ('vec', outs) if kind == 'stream-collect' else acc
        if kind == 'stream-next':
            futs = f[2][1]
            if not futs:
                return mk_option(None)
            nxt = futs.pop(0)
            nv = interp.deref_all(nxt)
            if nv is not None and nv[0] == 'future':
                return mk_option(self.poll(interp, None, nv))
            if nv is not None and nv[0] == 'closure':
                r = interp.poll_coroutine(('ref', Cell(nv)), 0)
                return mk_option(r[3][0].v)
            raise Unmodelled('a stream of %r' % (nv[0] if nv else None,))
        return None


def _resolve(self, interp, v):
    """the output of a future value (awaited futures resolve at once in this model); a non-future is its own output"""
    nv = interp.deref_all(v)
    if nv is not None and nv[0] == 'future':
        return self.poll(interp, None, nv)
    if nv is not None and nv[0] == 'closure':
        r = interp.poll_coroutine(('ref', Cell(nv)), 0)
        return r[3][0].v
    return v


World.resolve = _resolve


def build_value(facts, ty, leaf, depth=0):
    """an abstract value of Rust type `ty`: leaf(ty) decides the leaves; workspace structs are built field by field"""
    v = leaf(ty)
    if v is not None:
        return v
    head = ty_head(ty)
    a = facts.adts.get(head)
    if a is not None and a['kind'] == 'struct' and depth < 4:
        return ('adt', head, 0, [Cell(build_value(facts, f['ty'], leaf, depth + 1)) for f in a['variants'][0]['fields']])
    return ('opaque', 'value:' + ty)


def upvar_types(body):
    """field index of the closure / coroutine state -> type (from the places that read it)"""
    out = {}
    def visit(pl):
        if pl['l'] == 1:
            for e in pl['p']:
                if isinstance(e, dict) and 'f' in e:
                    if 'ty' in e:
                        out.setdefault(e['f'], e['ty'])
                    break
                if e != '*':
                    break
    for blk in body.blocks:
        for s in blk['s']:
            if s['k'] != 'assign':
                continue
            visit(s['lhs'])
            rv = s['rv']
            for key in ('pl',):
                if key in rv and isinstance(rv[key], dict):
                    visit(rv[key])
            for o in ([rv.get('op')] if rv.get('op') else []) + list(rv.get('ops') or []) + [rv.get('a'), rv.get('b')]:
                if isinstance(o, dict) and o.get('k') in ('copy', 'move'):
                    visit(o['pl'])
        t = blk['t']
        for o in (t.get('args') or []):
            if isinstance(o, dict) and o.get('k') in ('copy', 'move'):
                visit(o['pl'])
    return out


def run_coroutine(facts, body, upvars, world, order=None, choices=(), symbolic_len=False, callable_hook=None, unknown_call=None):
    it = Interp(facts, order or Order({}), opaque_call=world.call)
    it.poll_hook = world.poll
    it.symbolic_len = symbolic_len
    it.callable_hook = callable_hook
    it.unknown_call = unknown_call
    it.choices = list(choices)
    n = max(upvars) + 1 if upvars else 0
    state = ('closure', body.defp, [Cell(upvars.get(i, ('opaque', 'upvar%d' % i))) for i in range(n)])
    r = it.run_body(body, [state, ('opaque', 'cx')])
    return it, r


# ---------------------------------------------------------------------------------------------------------------------
# C11: the clock actor
# ---------------------------------------------------------------------------------------------------------------------
HT = 'datacake_crdt::timestamp::HLCTimestamp'


def find_clock_actor(facts):
    """the coroutine of datacake_node that receives from a channel and (itself or through what it calls) advances an
    HLCTimestamp with send / recv — found by what it does, not by its name"""
    from analysis import cname, CallGraph
    cg = CallGraph(facts)
    out = []
    for b in facts.bodies.values():
        if b.crate != 'datacake_node' or b.kind != 'coroutine' or b.d['promoted']:
            continue
        names = [cname(t) for g in facts.group(b) for _b, t in g.calls() if cname(t)]      # (the loop may live in a closure: unfold / fold)
        if not any(n.startswith('flume::') and last_seg(n) in ('recv_async', 'recv', 'try_recv') for n in names):
            continue
        reach = cg.reach([b], bound=4)
        adv = set()
        for rb in reach:
            for _b, t in rb.calls():
                if cname(t) in (HT + '::send', HT + '::recv'):
                    adv.add(last_seg(cname(t)))
        if adv == {'send', 'recv'}:
            out.append((b, reach))
    return out


def clock_hook(state):
    def hook(world, interp, name, args, t, body):
        if name.startswith(HT + '::'):
            seg = last_seg(name)
            a0 = interp.deref_all(args[0]) if args else None
            if a0 is not None and a0[0] == 'clock':
                if seg == 'send':
                    state['n'] += 1
                    world.trace.append(('issue', state['n']))
                    return ok(('ts', 'issued%d' % state['n']))
                if seg == 'recv':
                    m = interp.deref_all(args[1])
                    # the clock may refuse a foreign stamp (too far ahead of the wall clock, counter exhausted): it is then unchanged
                    if state.get('recv_may_fail') and interp.choose('recv-refuses'):
                        world.trace.append(('refused', m[1] if m and m[0] == 'ts' else m))
                        return err(('opaque', 'clock-error'))
                    world.trace.append(('merge', m[1] if m and m[0] == 'ts' else m))
                    return ok(('ts', 'merged'))
                if seg in ('counter', 'node', 'seconds', 'fractional', 'as_u64'):
                    return ('int', None)
                raise Unmodelled('clock state used through HLCTimestamp::%s' % seg)
            if seg in ('now', 'new', 'from_u64', 'from_datacake_timestamp') and (a0 is None or a0[0] not in ('clock', 'ts')):
                return ('ts', 'a stamp built by HLCTimestamp::%s' % seg)       # some stamp — not the clock the actor was started with
            if a0 is not None and a0[0] == 'ts':
                if seg in ('counter', 'node', 'seconds', 'fractional', 'as_u64'):
                    return ('int', None)
                if seg in ('send', 'recv'):
                    # the actor's clock variable no longer holds the clock it was started with but a stamp some call returned (recv
                    # returns the merged time under the REMOTE node's id; send returns the issued stamp): stamps issued from it carry
                    # another node's identity / later registrations of that node are refused as duplicates
                    if not str(a0[1]).startswith('issued'):      # (what send returns IS the clock's new value: assigning it back changes nothing)
                        world.trace.append(('clock-replaced-by', a0[1]))
                    if seg == 'send':
                        state['n'] += 1
                        world.trace.append(('issue', state['n']))
                        return ok(('ts', 'issued%d' % state['n']))
                    m = interp.deref_all(args[1])
                    world.trace.append(('merge', m[1] if m and m[0] == 'ts' else m))
                    return ok(('ts', 'merged'))
        return None
    return hook


def check_clock_actor(ctx, facts, rule):
    """drive the actor loop with the queue [Get, Register(r1), Get, Register(r2)] and compare what it does with the clock
    and the reply channels, in order"""
    from orswot_abs import _fallback
    try:
        found = find_clock_actor(facts)
        if len(found) != 1:
            raise Unmodelled('clock actor loop not identified (%d candidates)' % len(found))
        R, reach = found[0]
        ups = upvar_types(R)
        # event type = item type of the receiver the loop owns
        import re as _re
        evs = set()
        def scan(ty):
            for m in _re.finditer(r'flume::Receiver<([A-Za-z0-9_:]+)', ty):
                evs.add(m.group(1))
            a = facts.adts.get(ty_head(ty))
            if a is not None and a['kind'] == 'struct':
                for f in a['variants'][0]['fields']:
                    scan(f['ty'])
        for ty in ups.values():
            scan(ty)
        if len(evs) != 1:
            raise Unmodelled('event type of the clock actor not identified (%s)' % sorted(evs))
        ev_name = evs.pop()
        ev = facts.adts.get(ev_name)
        if ev is None or ev['kind'] != 'enum':
            raise Unmodelled('event type %s is not an enum of the workspace' % ev_name)
        def wraps(ty, what, depth=0):
            """a value builder for a field of type `ty` that is `what` (a reply sender / a stamp) or a private wrapper around exactly one"""
            if what == 'otx' and ty_head(ty) == 'tokio::sync::oneshot::Sender':
                return lambda x: ('otx', x)
            if what == 'ts' and ty.endswith('HLCTimestamp'):
                return lambda x: ('ts', x)
            a_ = facts.adts.get(ty_head(ty))
            if a_ is not None and a_['kind'] == 'struct' and depth < 2 and a_['def'].startswith('datacake_node'):
                fs_ = a_['variants'][0]['fields']
                inner = [(j, wraps(f_['ty'], what, depth + 1)) for j, f_ in enumerate(fs_)]
                hit = [(j, w_) for j, w_ in inner if w_ is not None]
                if len(hit) == 1:
                    j0, w0 = hit[0]
                    return lambda x, a_=a_, fs_=fs_, j0=j0, w0=w0: ('adt', strip_generics_(a_['def']), 0,
                                                                    [Cell(w0(x) if j == j0 else ('opaque', 'field')) for j in range(len(fs_))])
            return None
        from facts import strip_generics as strip_generics_
        get_v = [(i, wraps(v['fields'][0]['ty'], 'otx')) for i, v in enumerate(ev['variants']) if len(v['fields']) == 1]
        get_v = [(i, w_) for i, w_ in get_v if w_ is not None]
        reg_v = [(i, wraps(v['fields'][0]['ty'], 'ts')) for i, v in enumerate(ev['variants']) if len(v['fields']) == 1]
        reg_v = [(i, w_) for i, w_ in reg_v if w_ is not None]
        if len(get_v) != 1 or len(reg_v) != 1:
            raise Unmodelled('request / register variants of %s not identified' % ev_name)

        def event(kind, x):
            if kind == 'get':
                return ('adt', ev_name, get_v[0][0], [Cell(get_v[0][1](x))])
            return ('adt', ev_name, reg_v[0][0], [Cell(reg_v[0][1](x))])
        results = []

        def run(choices):
            ch = Chan([event('get', 'tx1'), event('reg', 'r1'), event('get', 'tx2'), event('reg', 'r2')])
            state = {'n': 0, 'recv_may_fail': True}
            world = World(hooks=[clock_hook(state)])

            def leaf(ty):
                if ty.endswith('HLCTimestamp'):
                    return ('clock',)
                if ty_head(ty) in ('flume::Receiver', 'flume::Sender'):
                    return ('chan', ch)
                return None
            upv = {i: build_value(facts, ty, leaf) for i, ty in ups.items()}
            it, r = run_coroutine(facts, R, upv, world, choices=choices)
            return it.oracle_log, (world.trace, list(ch.script))
        results = absint.explore(run)
    except (Unmodelled, absint.NeedChoice, IndexError, TypeError, KeyError, AttributeError) as e:
        return _fallback(ctx, rule, e)
    want0 = [('issue', 1), ('reply', 'tx1', ('ts', 'issued1')), ('merge', 'r1'), ('issue', 2), ('reply', 'tx2', ('ts', 'issued2')), ('merge', 'r2')]
    want = want0
    bad = []
    for log, res in results:
        if res and res[0] == 'panic':
            continue
        trace, left = res
        got = [e for e in trace if e[0] in ('issue', 'reply', 'merge', 'refused', 'clock-replaced-by')]
        # a stamp the clock refused is not merged — and nothing else changes: the clock keeps issuing from its own state
        refusals = [val for lab, val in log if lab == 'recv-refuses']
        wantp, ri = [], 0
        for e in want0:
            if e[0] == 'merge':
                wantp.append(('refused', e[1]) if ri < len(refusals) and refusals[ri] else e)
                ri += 1
            else:
                wantp.append(e)
        if got != wantp or left:
            want = wantp
            bad.append((log, got, left))
    site_ = '%s:%s' % (R.file, R.line)
    ctx.ob(rule, 'actor-trace', bool(results) and not bad, site_,
           'for the queue [Get, Register r1, Get, Register r2] the clock actor issues a stamp per Get and answers exactly that stamp, merges every registered stamp, in queue order, '
           'and consumes every event (%d resolution(s) of its internal branches)' % len(results) if results and not bad else
           'for the queue [Get(tx1), Register(r1), Get(tx2), Register(r2)] the clock actor does %s%s — expected: %s' % (
               bad[0][1] if bad else 'nothing', (' and leaves %d event(s) unconsumed' % len(bad[0][2])) if bad and bad[0][2] else '',
               ', '.join('%s %s' % (e[0], e[1]) for e in want) + (' (a stamp the clock refuses leaves the clock as it was)' if any(e[0] == 'refused' for e in want) else '')),
           witness={'expected': [str(x) for x in want], 'got': [str(x) for x in (bad[0][1] if bad else [])]})
    return (R, reach)


def lenient_unknown(interp, name, args, t):
    """P-TRACE only: a call into another crate that is not part of the effect vocabulary (channels, replies, storage, clock)
    cannot add to the trace; its result is an unknown value of its type (branches on it are explored both ways)"""
    body, term = getattr(interp, 'cur', (None, None))
    if body is None or term is None or term['dest']['p']:
        return None
    if name.startswith('datacake') or name.startswith('flume::') or name.startswith('tokio::sync::') or '::storage::Storage::' in name:
        return None
    ty = body.local_ty(term['dest']['l'])
    if ty == 'bool':
        return ('bool', None)
    if ty in absint.INT_WIDTH:
        return ('int', None)
    if ty == '()':
        return UNIT
    if ty.startswith('&'):
        return ('ref', Cell(('opaque', 'result-of:' + name)))
    return ('opaque', 'result-of:' + name)


def check_clock_handle(ctx, facts, rule, ev_info=None):
    """the client side of the clock: register_ts hands every foreign stamp to the actor (on every path), get_time asks the
    actor and returns exactly its reply"""
    from orswot_abs import _fallback
    try:
        clock = [a for n, a in facts.adts.items() if n.startswith('datacake_node::') and n.endswith('::Clock')]
        if len(clock) != 1:
            raise Unmodelled('Clock not found')
        cname_ = clock[0]['def']
        reg = [b for b in facts.bodies.values() if b.kind == 'coroutine' and not b.d['promoted'] and b.name == cname_ + '::register_ts::{closure#0}']
        gt = [b for b in facts.bodies.values() if b.kind == 'coroutine' and not b.d['promoted'] and b.name == cname_ + '::get_time::{closure#0}']
        if len(reg) != 1 or len(gt) != 1:
            raise Unmodelled('Clock::register_ts / get_time not found')
        reg, gt = reg[0], gt[0]
        results = {}
        for same in (False, True):
            def run(choices, same=same):
                ch = Chan()
                world = World(hooks=[handle_hook])

                def leaf(ty):
                    if ty_head(ty) in ('flume::Sender', 'flume::Receiver'):
                        return ('chan', ch)
                    if ty in ('u8',):
                        return ('node', 'self')
                    if ty.endswith('HLCTimestamp'):
                        return ('tsn', 'remote', 'self' if same else 'other')
                    return None
                ups = upvar_types(reg)
                upv = {}
                for i, ty in ups.items():
                    if 'Clock' in ty:
                        upv[i] = ('ref', Cell(build_value(facts, ty.lstrip('&').replace('mut ', '', 1).strip(), leaf)))
                    else:
                        upv[i] = build_value(facts, ty, leaf)
                it = Interp(facts, Order({}), opaque_call=world.call)
                it.poll_hook = world.poll
                it.unknown_call = lenient_unknown
                it.choices = list(choices)
                n = max(upv) + 1
                state = ('closure', reg.defp, [Cell(upv.get(i, ('opaque', 'u'))) for i in range(n)])
                it.run_body(reg, [state, ('opaque', 'cx')])
                return it.oracle_log, list(world.trace)
            results[same] = absint.explore(run)

        def run_gt(choices):
            ch = Chan()
            world = World(hooks=[handle_hook])

            def leaf(ty):
                if ty_head(ty) in ('flume::Sender', 'flume::Receiver'):
                    return ('chan', ch)
                if ty in ('u8',):
                    return ('node', 'self')
                return None
            ups = upvar_types(gt)
            upv = {}
            for i, ty in ups.items():
                upv[i] = ('ref', Cell(build_value(facts, ty.lstrip('&').replace('mut ', '', 1).strip(), leaf))) if 'Clock' in ty else build_value(facts, ty, leaf)
            it = Interp(facts, Order({}), opaque_call=world.call)
            it.poll_hook = lambda i_, pin, f: (ok(('ts', 'reply%s' % f[1])) if f is not None and f[0] == 'orx' else world.poll(i_, pin, f))
            it.unknown_call = lenient_unknown
            it.choices = list(choices)
            n = max(upv) + 1
            state = ('closure', gt.defp, [Cell(upv.get(i, ('opaque', 'u'))) for i in range(n)])
            r = it.run_body(gt, [state, ('opaque', 'cx')])
            return it.oracle_log, (list(world.trace), r)
        res_gt = absint.explore(run_gt)
    except (Unmodelled, absint.NeedChoice, IndexError, TypeError, KeyError, AttributeError) as e:
        return _fallback(ctx, rule, e)
    site_ = '%s:%s' % (reg.file, reg.line)
    for same in (False, True):
        bad = []
        for log, tr in results[same]:
            if tr and tr[0] == 'panic':
                continue
            sends = [e for e in tr if e[0] == 'chan-send']
            carried = []
            for e in sends:
                found = []

                def walk(v, depth=0):
                    if v is None or depth > 5:
                        return
                    if v[0] == 'tsn':
                        found.append(v)
                    elif v[0] == 'adt':
                        for c in v[3]:
                            walk(c.v, depth + 1)
                walk(e[2])
                carried += found
            lossy = [e[1] for e in sends if e[1].startswith('try_')]
            if same:
                if sends:
                    bad.append('a stamp of this very node is sent to the actor')
            else:
                if len(sends) != 1 or len(carried) != 1 or carried[0][1] != 'remote':
                    bad.append('on some path (answers %s) %s event(s) are handed to the actor: a remote stamp that is "registered" without reaching the actor is never merged, and a later '
                               'get_time can return a stamp that is not greater than it' % ([v for _l, v in log], len(sends)))
                if lossy:
                    bad.append('the event is handed over with %s: it is dropped when the queue is full' % lossy)
        ok_ = bool(results[same]) and not bad
        ctx.ob(rule, 'register_ts|%s' % ('own stamp' if same else 'foreign stamp'), ok_, site_,
               ('register_ts hands every foreign stamp to the actor, on every path, with a waiting send' if not same else 'register_ts ignores stamps of its own node') if ok_ else bad[0])
    bad = []
    for log, res in res_gt:
        if res and res[0] == 'panic':
            continue
        tr, r = res
        sends = [e for e in tr if e[0] == 'chan-send']
        otx = []
        for e in sends:
            def walk(v, depth=0):
                if v is None or depth > 5:
                    return
                if v[0] == 'otx':
                    otx.append(v[1])
                elif v[0] == 'adt':
                    for c in v[3]:
                        walk(c.v, depth + 1)
            walk(e[2])
        if len(sends) != 1 or len(otx) != 1:
            bad.append('get_time hands %d request(s) to the actor on some path' % len(sends))
        elif r != ('ts', 'reply%s' % otx[0]):
            bad.append('get_time returns %s instead of the actor\'s reply to its own request' % (r,))
    ok_ = bool(res_gt) and not bad
    ctx.ob(rule, 'get_time|returns-the-reply', ok_, '%s:%s' % (gt.file, gt.line),
           'get_time asks the actor once and returns exactly its reply' if ok_ else bad[0])
    return True


def handle_hook(world, interp, name, args, t, body):
    seg = last_seg(name)
    if name.startswith(HT + '::') and args:
        a0 = interp.deref_all(args[0])
        if a0 is not None and a0[0] == 'tsn':
            if seg == 'node':
                return ('node', a0[2])
            if seg in ('as_u64', 'counter', 'seconds', 'fractional'):
                return ('int', None)
            if seg in ('datacake_timestamp', 'unix_timestamp'):
                return ('opaque', 'time-of-stamp')
    # the handle may look at the wall clock or at shared counters before it decides (a pre-check, a "newest seen so far" mark): unknown
    # values — every decision taken on them is explored both ways
    if name.startswith('datacake_crdt::') and seg in ('get_datacake_timestamp', 'get_unix_timestamp_ms', 'get_unix_timestamp'):
        return ('opaque', 'wall-clock')
    if name.startswith('std::time::SystemTime::') or name.startswith('std::time::Instant::'):
        return ('opaque', 'wall-clock')
    if ('atomic::Atomic' in name or name.startswith('core::sync::atomic::')) and not t['dest']['p']:
        ty = body.local_ty(t['dest']['l'])
        return ('bool', None) if ty == 'bool' else UNIT if ty == '()' else ('int', None) if ty in absint.INT_WIDTH else ('opaque', 'atomic-result')
    if name.startswith('core::time::Duration::') and not t['dest']['p']:
        ty = body.local_ty(t['dest']['l'])
        return ('bool', None) if ty == 'bool' else ('opaque', 'duration')
    if seg in ('gt', 'ge', 'lt', 'le', 'eq', 'ne') and len(args) == 2:
        a, b = interp.deref_all(args[0]), interp.deref_all(args[1])
        if any(x is not None and x[0] == 'opaque' and str(x[1]) in ('duration', 'wall-clock', 'time-of-stamp', 'atomic-result') for x in (a, b)):
            return ('bool', None)
    return None
