"""C10.E1 / E5: the packed word of HLCTimestamp, by bit-vector interpretation (absint 'bv' values) from the PUBLIC ends:
`HLCTimestamp::new(duration, counter, node)` is interpreted with symbolic field bits — whatever private helpers, tuples or
structs the codec is written with — and the resulting 64 word bits are the layout; each public accessor is interpreted on a
symbolic word and must hand back exactly the bits of its field; the time read back must be seconds + fraction x the same
unit the fraction was divided by."""
import absint
from absint import Interp, Order, Cell, Unmodelled, BitOverlap, bv_field, bv_const
from facts import strip_generics, last_seg, ty_head

FIELDS = {'seconds': 32, 'fractional': 8, 'counter': 16, 'node': 8}
UNITS = {'subsec_millis': ('millis', 10), 'subsec_micros': ('micros', 20), 'subsec_nanos': ('nanos', 30)}


def hook(interp, name, args, t, body):
    seg = last_seg(name)
    if name.startswith('core::time::Duration::'):
        a0 = interp.deref_all(args[0]) if args else None
        if seg == 'as_secs' and a0 and a0[0] == 'dur':
            return bv_field('seconds', 32)
        if seg in UNITS and a0 and a0[0] == 'dur':
            unit, w = UNITS[seg]
            interp.trace.append(('sub-unit', unit))
            return bv_field('sub:' + unit, w)
        if seg == 'from_secs' and a0 and a0[0] == 'bv':
            return ('durparts', {'secs': a0[1]})
        if seg in ('from_millis', 'from_micros', 'from_nanos') and a0 is not None:
            if a0[0] == 'sym' and a0[1][0] == 'mul':
                return ('durparts', {seg[5:]: (a0[1][1], a0[1][2])})
            if a0[0] == 'bv':
                return ('durparts', {seg[5:]: (a0[1], 1)})
        if seg == 'new' and len(args) == 2:
            # Duration::new(whole seconds, nanoseconds): the two parts of a time put together (the nanoseconds a fraction times its unit)
            a1 = interp.deref_all(args[1])
            if a0 is not None and a0[0] == 'bv' and a1 is not None:
                if a1[0] == 'sym' and a1[1][0] == 'mul':
                    return ('durparts', {'secs': a0[1], 'nanos': (a1[1][1], a1[1][2])})
                if a1[0] == 'bv':
                    return ('durparts', {'secs': a0[1], 'nanos': (a1[1], 1)})
            raise Unmodelled('Duration::new with computed parts')
    if name in ('core::ops::arith::Add::add', 'core::time::Duration::saturating_add', 'core::time::Duration::checked_add') and len(args) == 2 \
            and args[0][0] == 'durparts' and args[1][0] == 'durparts':
        d = dict(args[0][1])
        for k, v in args[1][1].items():
            if k in d:
                raise Unmodelled('two %s parts added' % k)
            d[k] = v
        return ('durparts', d)
    if name.startswith('rend::') and seg == 'value' and args:
        return interp.deref_all(args[0])
    # the word taken apart / put together as bytes: to_be_bytes / to_le_bytes of an n-byte integer, from_be_bytes / from_le_bytes of an array
    import re as _re
    m = _re.match(r'core::num::<impl (u8|u16|u32|u64|u128|usize)>::(to|from)_(be|le|ne)_bytes$', name)
    if m and args:
        nbytes = {'u8': 1, 'u16': 2, 'u32': 4, 'u64': 8, 'usize': 8, 'u128': 16}[m.group(1)]
        a0 = interp.deref_all(args[0])
        if m.group(3) == 'ne' or nbytes > 8:
            raise Unmodelled('%s is not modelled' % name)
        if m.group(2) == 'to' and a0 is not None and a0[0] == 'bv':
            parts = [('bv', tuple(a0[1][8 * i:8 * i + 8]) + (0,) * 56) for i in range(nbytes)]      # little-endian order: byte 0 = least significant
            if m.group(3) == 'be':
                parts.reverse()
            return ('arr', [Cell(p_) for p_ in parts])
        if m.group(2) == 'from' and a0 is not None and a0[0] == 'arr' and len(a0[1]) == nbytes:
            bs = []
            for c in a0[1]:
                x = interp.deref_all(c.v)
                if x is not None and x[0] == 'int' and x[1] is not None:
                    x = absint.bv_const(x[1])
                if x is None or x[0] != 'bv' or any(b_ != 0 for b_ in x[1][8:]):
                    raise Unmodelled('from_bytes of something that is not a byte')
                bs.append(x[1][:8])
            if m.group(3) == 'be':
                bs.reverse()
            bits = tuple(b_ for byte in bs for b_ in byte)
            return ('bv', bits + (0,) * (64 - len(bits)))
    return None


def arith(interp, op, a, b):
    if op == 'Div' and a[0] == 'bv' and b[0] == 'bv':
        names = {x[0] for x in a[1] if x not in (0, 1)}
        k = sum(bit << i for i, bit in enumerate(b[1]) if bit in (0, 1)) if all(x in (0, 1) for x in b[1]) else None
        if len(names) == 1 and next(iter(names)).startswith('sub:') and k:
            interp.trace.append(('frac-div', next(iter(names))[4:], k))
            return bv_field('fractional', 8)
    if op in ('Mul', 'MulWithOverflow') and a[0] == 'sym' and a[1][0] == 'mul' and b[0] == 'bv' and all(x in (0, 1) for x in b[1]):
        # (fraction x 4) x 1 000 000: one multiplication by the product
        k2 = sum(bit << i for i, bit in enumerate(b[1]))
        v = ('sym', ('mul', a[1][1], a[1][2] * k2))
        return ('tuple', [Cell(v), Cell(('bool', False))]) if op.endswith('WithOverflow') else v
    if op in ('Mul', 'MulWithOverflow') and a[0] == 'bv' and b[0] == 'bv':
        k = sum(bit << i for i, bit in enumerate(b[1]) if bit in (0, 1)) if all(x in (0, 1) for x in b[1]) else None
        if k:
            v = ('sym', ('mul', a[1], k))
            return ('tuple', [Cell(v), Cell(('bool', False))]) if op.endswith('WithOverflow') else v
    return None


def run(facts, body, args):
    res = []

    def one(choices):
        it = Interp(facts, Order({}), opaque_call=hook)
        it.bv_arith = arith
        it.choices = list(choices)
        r = it.run_body(body, args)
        return it.oracle_log, (r, list(it.trace))
    for log, r in absint.explore(one):
        if r and r[0] == 'panic':
            continue
        res.append(r)
    return res


def layout_of(facts):
    """{field: lowest bit} of the packed word as HLCTimestamp::new builds it (None when the packer is not a clean tiling): the
    reference for any other code that does arithmetic on the word"""
    cache = facts.__dict__.setdefault('_hlc_layout', {})
    if 'v' in cache:
        return cache['v']
    cache['v'] = None
    try:
        adts = [n for n in facts.adts if n.startswith('datacake_crdt::') and n.endswith('::HLCTimestamp')]
        if len(adts) != 1:
            return None
        bs = [b for b in facts.bodies.values() if b.crate == 'datacake_crdt' and not b.d['promoted'] and b.name == adts[0] + '::new']
        if len(bs) != 1:
            return None
        outs = run(facts, bs[0], [('dur', 'd'), bv_field('counter', 16), bv_field('node', 8)])
        words = {r[3][0].v[1] for r, _tr in outs if r[0] == 'adt' and r[3] and r[3][0].v[0] == 'bv'}
        if len(words) != 1 or len(outs) == 0:
            return None
        pos = {}
        for j, bt in enumerate(words.pop()):
            if isinstance(bt, tuple):
                pos.setdefault(bt[0], {})[bt[1]] = j
        lay = {}
        for f, w in FIELDS.items():
            got = pos.get(f, {})
            if sorted(got) != list(range(w)) or [got[i] for i in range(w)] != list(range(got[0], got[0] + w)):
                return None
            lay[f] = got[0]
        cache['v'] = lay
    except (Unmodelled, BitOverlap, absint.NeedChoice, IndexError, TypeError, KeyError, AttributeError):
        return None
    return cache['v']


def check_layout(ctx, facts, rule):
    from orswot_abs import _fallback
    T = None
    try:
        adts = [n for n in facts.adts if n.startswith('datacake_crdt::') and n.endswith('::HLCTimestamp')]
        if len(adts) != 1:
            raise Unmodelled('HLCTimestamp not found')
        T = adts[0]

        def meth(n):
            bs = [b for b in facts.bodies.values() if b.crate == 'datacake_crdt' and not b.d['promoted'] and b.name == T + '::' + n]
            return bs[0] if len(bs) == 1 else None
        new = meth('new')
        if new is None:
            raise Unmodelled('HLCTimestamp::new not found')
        outs = run(facts, new, [('dur', 'd'), bv_field('counter', 16), bv_field('node', 8)])
        if not outs:
            raise Unmodelled('HLCTimestamp::new has no non-panicking path')
        words = set()
        traces = []
        for r, tr in outs:
            r = r if r[0] == 'adt' else None
            if r is None or not r[3] or r[3][0].v[0] != 'bv':
                raise Unmodelled('HLCTimestamp::new does not produce a packed word')
            words.add(r[3][0].v[1])
            traces.append(tr)
        if len(words) != 1:
            raise Unmodelled('HLCTimestamp::new packs differently on different paths')
        word = words.pop()
        accs = {}
        for f in list(FIELDS) + ['as_u64']:
            b = meth(f)
            if b is None:
                raise Unmodelled('accessor %s() not found' % f)
            selfv = ('adt', T, 0, [Cell(bv_field('word', 64))])
            rs = run(facts, b, [('ref', Cell(selfv))])
            vals = {r[0][1] for r in rs if r[0][0] == 'bv'}
            if len(vals) != 1:
                raise Unmodelled('accessor %s() does not return one bit vector' % f)
            accs[f] = vals.pop()
        fu = meth('from_u64')
        fu_ok = None
        if fu is not None:
            rs = run(facts, fu, [bv_field('word', 64)])
            fu_ok = all(r[0][0] == 'adt' and r[0][3][0].v == bv_field('word', 64) for r in rs) and bool(rs)
        cast = [b for b in facts.bodies.values() if b.crate == 'datacake_crdt' and not b.d['promoted'] and b.name.endswith('::ArchivedHLCTimestamp::cast')]
        cast_ok = None
        if cast:
            arch = ('adt', 'archived', 0, [Cell(bv_field('word', 64))])
            rs = run(facts, cast[0], [('ref', Cell(arch))])
            cast_ok = all(r[0][0] == 'adt' and r[0][3][0].v == bv_field('word', 64) for r in rs) and bool(rs)
        # time read back from the packed word
        dt = meth('datacake_timestamp')
        back = None
        if dt is not None:
            selfv = ('adt', T, 0, [Cell(('bv', word))])
            rs = run(facts, dt, [('ref', Cell(selfv))])
            vals = [r[0] for r in rs]
            if vals and all(v[0] == 'durparts' for v in vals) and len({str(v) for v in vals}) == 1:
                back = vals[0][1]
    except BitOverlap as e:
        ctx.ob(rule, 'layout|no-overlap', False, '', 'HLCTimestamp::new: %s — two fields share a bit of the packed word, so one of them cannot be read back' % e)
        return True
    except (Unmodelled, absint.NeedChoice, IndexError, TypeError, KeyError, AttributeError) as e:
        return _fallback(ctx, rule, e)
    site_ = '%s:%s' % (new.file, new.line)
    pos = {}
    problems = []
    for j, bt in enumerate(word):
        if isinstance(bt, tuple):
            pos.setdefault(bt[0], {})[bt[1]] = j
        elif bt != 0:
            problems.append('bit %d is the constant %s' % (j, bt))
    for f, w in FIELDS.items():
        got = pos.get(f, {})
        if sorted(got) != list(range(w)):
            problems.append('field %s: bits %s of it are stored, expected exactly 0..%d (a bit that is not stored cannot be read back)' % (f, sorted(got), w - 1))
        elif [got[i] for i in range(w)] != list(range(got[0], got[0] + w)):
            problems.append('field %s is not stored contiguously in order' % f)
    extra = set(pos) - set(FIELDS)
    if extra:
        problems.append('unknown inputs packed: %s' % sorted(extra))
    layout = None
    if not problems:
        layout = {f: pos[f][0] for f in FIELDS}
        order = sorted(FIELDS, key=lambda f: -layout[f])
        if order != ['seconds', 'fractional', 'counter', 'node']:
            problems.append('significance order is %s, must be seconds > fractional > counter > node (comparing the words must agree with comparing (time, counter, node))' % order)
    ctx.ob(rule, 'layout|new', not problems, site_,
           'HLCTimestamp::new tiles the 64-bit word: %s' % {f: (layout[f], layout[f] + FIELDS[f] - 1) for f in FIELDS} if not problems else '; '.join(problems[:4]))
    if layout is None:
        return True
    for f, w in FIELDS.items():
        want = tuple(('word', layout[f] + j) for j in range(w)) + (0,) * (64 - w)
        good = accs[f] == want
        ctx.ob(rule, 'accessor|' + f, good, site_,
               '%s() returns word bits %d..%d, the bits the constructor stores %s in' % (f, layout[f], layout[f] + w - 1, f) if good else
               '%s() does not return exactly word bits %d..%d, where the constructor stores %s: a packed timestamp does not read back the field that was written' % (f, layout[f], layout[f] + w - 1, f))
    ctx.ob(rule, 'identity|as_u64', accs['as_u64'] == bv_field('word', 64)[1], site_, 'as_u64 is the identity on the packed word')
    if fu_ok is not None:
        ctx.ob(rule, 'identity|from_u64', bool(fu_ok), site_, 'from_u64 is the identity on the packed word' if fu_ok else 'from_u64 alters the packed word')
    if cast_ok is not None:
        ctx.ob(rule, 'identity|ArchivedHLCTimestamp::cast', bool(cast_ok), site_, 'archived cast is the identity on the word' if cast_ok else 'archived cast alters the word')
    # resolution of the fraction
    divs = {x for tr in traces for x in tr if isinstance(x, tuple) and x[0] == 'frac-div'}
    good = False
    detail = 'fraction computed as %s' % sorted(divs)
    if len(divs) == 1 and back is not None:
        _tag, unit, k = next(iter(divs))
        secs_ok = back.get('secs') == bv_field('seconds', 32)[1]
        part = back.get(unit)
        NS = {'millis': 1000000, 'micros': 1000, 'nanos': 1}
        if part is None and len(back) == 2:
            # the two directions may count the fraction in different units (millis / 4 one way, x 4 000 000 nanos the other): the same step
            for u2, p2 in back.items():
                if u2 in NS and p2[1] * NS[u2] == k * NS[unit]:
                    part = (p2[0], k)
        frac_ok = part is not None and part[1] == k and tuple(part[0]) == bv_field('fractional', 8)[1]
        good = secs_ok and frac_ok and len(back) == 2
        detail = 'packing divides the sub-second %s by %d; reading back gives %s' % (unit, k, {kk: ('seconds' if kk == 'secs' else 'fraction x %s' % v[1]) for kk, v in back.items()})
        ctx.ob(rule, 'fraction-resolution', good, site_, detail if good else detail + ' — the time component does not round-trip at the stated resolution')
        maxv = {'millis': 999, 'micros': 999999, 'nanos': 999999999}[unit]
        ctx.c10_max_fraction = maxv // k
        ctx.ob(rule, 'fraction-fits-u8', maxv // k <= 255, site_, 'largest fraction %d/%d = %d %s 8 bits' % (maxv, k, maxv // k, 'fits' if maxv // k <= 255 else 'does NOT fit'))
    else:
        ctx.ob(rule, 'fraction-resolution', False, site_, 'the fraction of a second is not computed by one division of a sub-second reading / the time cannot be read back (%s)' % detail)
    return True


# ---------------------------------------------------------------------------------------------------------------------
# the text form: which piece of the input, parsed how, lands in which field of the word
# ---------------------------------------------------------------------------------------------------------------------
def reader_by_interpretation(facts, fs, layout):
    """[(field, radix, type)] by piece index, or raises Unmodelled"""
    from absint import IterObj, mk_option, INT_WIDTH

    def h(interp, name, args, t, body):
        seg = last_seg(name)
        r = hook(interp, name, args, t, body)
        if r is not None:
            return r
        if name.startswith('core::str::<impl str>::'):
            a0 = interp.deref_all(args[0]) if args else None
            if seg in ('splitn', 'split', 'rsplitn', 'split_terminator'):
                n = args[1][1] if seg == 'splitn' and args[1][0] == 'int' else 4
                sep = args[2] if seg == 'splitn' else args[1]
                interp.trace.append(('split', n, sep[1] if sep[0] == 'int' else None))
                return ('iter', IterObj([('ref', Cell(('piece', i))) for i in range(n or 0)]))
            if seg in ('trim', 'trim_start', 'trim_end', 'as_ref') and a0 is not None:
                return args[0]
            if seg in ('split_once', 'rsplit_once') and a0 is not None and a0[0] in ('str', 'piece') and seg == 'split_once':
                # text.split_once(sep): (the piece before the first separator, the rest) — the rest is split again or is the last piece
                k = 0 if a0[0] == 'str' else a0[1]
                sep = args[1]
                interp.trace.append(('split-once', k, sep[1] if sep[0] == 'int' else None))
                return mk_option(('tuple', [Cell(('ref', Cell(('piece', k)))), Cell(('ref', Cell(('piece', k + 1))))]))
            if seg == 'parse' and a0 is not None and a0[0] == 'piece':
                ty = [g for g in (t.get('gargs') or []) if g in INT_WIDTH]
                if not ty:
                    raise Unmodelled('parse into a non-integer type')
                interp.trace.append(('parse', a0[1], 10, ty[-1]))
                return ('adt', 'core::result::Result', 0, [Cell(bv_field('piece%d' % a0[1], INT_WIDTH[ty[-1]]))])
        if name.endswith('::from_str_radix') and args:
            a0 = interp.deref_all(args[0])
            import re as _re
            m = _re.search(r'<impl (u\d+|usize)>', name)
            if a0 is not None and a0[0] == 'piece' and m and args[1][0] == 'int':
                interp.trace.append(('parse', a0[1], args[1][1], m.group(1)))
                return ('adt', 'core::result::Result', 0, [Cell(bv_field('piece%d' % a0[1], INT_WIDTH[m.group(1)]))])
        return None
    results = []

    def one(choices):
        it = Interp(facts, Order({}), opaque_call=h)
        it.bv_arith = arith
        it.fallible_narrowing = True
        it.choices = list(choices)
        r = it.run_body(fs, [('ref', Cell(('str', 'input')))])
        return it.oracle_log, (r, list(it.trace))
    oks = []
    bounds = {}
    FL = {'Gt': 'Lt', 'Lt': 'Gt', 'Ge': 'Le', 'Le': 'Ge'}
    for log, r in absint.explore(one):
        if r and r[0] == 'panic':
            raise Unmodelled('from_str has a panicking path')
        v, tr = r
        for x in tr:
            if isinstance(x, tuple) and x[0] == 'bv-narrow' and len(x[1]) == 1 and v[0] == 'adt' and v[1] == 'core::result::Result' and v[2] == 0:
                # a piece parsed wide and narrowed with a checked conversion: bounded by the narrow type
                bounds.setdefault(x[1][0], set()).add((1 << x[2]) - 1)
            if isinstance(x, tuple) and x[0] == 'bv-cmp' and x[1] in FL:
                op_, l_, r_ = x[1], x[2], x[3]
                if l_[0] == 'const' and r_[0] == 'field':
                    op_, l_, r_ = FL[op_], r_, l_
                if l_[0] == 'field' and r_[0] == 'const':
                    # the largest value of the field that is NOT on the `field > c` / `field >= c` side
                    bounds.setdefault(l_[1], set()).add(r_[1] if op_ in ('Gt', 'Le') else r_[1] - 1)
        if v[0] == 'adt' and v[1] == 'core::result::Result' and v[2] == 0:
            oks.append((v[3][0].v, tr))
    if not oks:
        raise Unmodelled('from_str has no successful path')
    readers = set()
    splits = set()
    for hv, tr in oks:
        w = hv[3][0].v if hv[0] == 'adt' else None
        if w is None or w[0] != 'bv':
            raise Unmodelled('from_str does not build a packed word')
        parsed = {x[1]: (x[2], x[3]) for x in tr if isinstance(x, tuple) and x[0] == 'parse'}
        splits |= {x[1:] for x in tr if isinstance(x, tuple) and x[0] == 'split'}
        by_piece = {}
        for f, width in FIELDS.items():
            lo = layout[f]
            src = {b[0] for b in w[1][lo:lo + width] if isinstance(b, tuple)}
            idxs = [b[1] for b in w[1][lo:lo + width] if isinstance(b, tuple)]
            if len(src) != 1 or idxs != list(range(width)) or not next(iter(src)).startswith('piece'):
                raise Unmodelled('field %s of the parsed word is not one parsed piece' % f)
            i = int(next(iter(src))[5:])
            by_piece[i] = (f,) + parsed.get(i, (None, None))
        readers.add(tuple(sorted(by_piece.items())))
    if len(readers) != 1:
        raise Unmodelled('from_str routes its pieces differently on different paths')
    reader_by_interpretation.bounds = bounds
    return dict(readers.pop()), splits


def from_str_assert_audit(facts, fs):
    """every path of from_str — 0..4 pieces available, each available piece parsing or failing to parse, every internal branch — with
    the parsed numbers symbolic: what each rustc-emitted check (shift amount, index bound, overflow flag) saw.  A check that was
    reached and saw operands that are compile-time constants satisfying it on EVERY path cannot fail for any input text."""
    from absint import IterObj, INT_WIDTH
    import re as _re
    log = {}

    def mk(avail, fail):
        def h(interp, name, args, t, body):
            seg = last_seg(name)
            r = hook(interp, name, args, t, body)
            if r is not None:
                return r
            if name.startswith('core::str::<impl str>::'):
                a0 = interp.deref_all(args[0]) if args else None
                if seg in ('splitn', 'split', 'rsplitn', 'split_terminator'):
                    return ('iter', IterObj([('ref', Cell(('piece', i))) for i in range(avail)]))
                if seg in ('trim', 'trim_start', 'trim_end', 'as_ref') and a0 is not None:
                    return args[0]
                if seg == 'parse' and a0 is not None and a0[0] == 'piece':
                    ty = [g for g in (t.get('gargs') or []) if g in INT_WIDTH]
                    if not ty:
                        raise Unmodelled('parse into a non-integer type')
                    if a0[1] == fail:
                        return ('adt', 'core::result::Result', 1, [Cell(('opaque', 'ParseIntError'))])
                    return ('adt', 'core::result::Result', 0, [Cell(bv_field('piece%d' % a0[1], INT_WIDTH[ty[-1]]))])
            if name.endswith('::from_str_radix') and args:
                a0 = interp.deref_all(args[0])
                m = _re.search(r'<impl (u\d+|usize)>', name)
                if a0 is not None and a0[0] == 'piece' and m:
                    if a0[1] == fail:
                        return ('adt', 'core::result::Result', 1, [Cell(('opaque', 'ParseIntError'))])
                    return ('adt', 'core::result::Result', 0, [Cell(bv_field('piece%d' % a0[1], INT_WIDTH[m.group(1)]))])
            return None
        return h
    n = 0
    for avail in range(0, 5):
        for fail in [None] + list(range(avail)):
            def one(choices, avail=avail, fail=fail):
                it = Interp(facts, Order({}), opaque_call=mk(avail, fail))
                it.bv_arith = arith
                it.assert_log = {}
                it.choices = list(choices)
                try:
                    r = it.run_body(fs, [('ref', Cell(('str', 'input')))])
                finally:
                    for k, v in it.assert_log.items():
                        log.setdefault(k, set()).update(v)
                return it.oracle_log, r
            for _log, r in absint.explore(one):
                n += 1
                if r and r[0] == 'panic':
                    raise Unmodelled('from_str has a panicking path')
    return log, n


def writer_by_interpretation(facts, fmt, layout, T):
    """Display::fmt interpreted on a symbolic word: the values handed to the formatting machinery, in the order they are handed over.
    [(field, radix, integer type)] — whatever accessors, structs or helpers the printed values travel through."""
    from absint import INT_WIDTH
    KIND = {'new_display': 10, 'new_upper_hex': 16, 'new_lower_hex': 16, 'new_octal': 8, 'new_binary': 2, 'new_debug': 10}

    def h(interp, name, args, t, body):
        seg = last_seg(name)
        r = hook(interp, name, args, t, body)
        if r is not None:
            return r
        if name.startswith('core::fmt::rt::Argument::new_') and args:
            v = interp.deref_all(args[0])
            ty = [g for g in (t.get('gargs') or []) if g in INT_WIDTH]
            if seg not in KIND or v is None or v[0] != 'bv' or not ty:
                raise Unmodelled('a printed value that is not an integer field (%s)' % seg)
            interp.trace.append(('print', tuple(v[1]), KIND[seg], ty[-1]))
            return ('opaque', 'fmt-arg')
        if name.startswith('core::fmt::Arguments::') or name.startswith('core::fmt::rt::'):
            return ('opaque', 'fmt-args')
        if name in ('core::fmt::Formatter::write_fmt', 'core::fmt::Write::write_fmt', 'core::fmt::write'):
            return ('adt', 'core::result::Result', 0, [Cell(absint.UNIT)])
        if name in ('core::fmt::Formatter::write_str', 'core::fmt::Write::write_str', 'core::fmt::Formatter::write_char', 'core::fmt::Write::write_char'):
            raise Unmodelled('text written outside one format string')
        return None
    outs = set()

    def one(choices):
        it = Interp(facts, Order({}), opaque_call=h)
        it.bv_arith = arith
        it.choices = list(choices)
        selfv = ('adt', T, 0, [Cell(bv_field('word', 64))])
        r = it.run_body(fmt, [('ref', Cell(selfv)), ('ref', Cell(('opaque', 'formatter')))])
        return it.oracle_log, (r, list(it.trace))
    for log, r in absint.explore(one):
        if r and r[0] == 'panic':
            raise Unmodelled('Display::fmt has a panicking path')
        v, tr = r
        outs.add(tuple(x for x in tr if isinstance(x, tuple) and x[0] == 'print'))
    if len(outs) != 1:
        raise Unmodelled('Display::fmt prints differently on different paths')
    writer = []
    for _p, bits_, radix, ty in outs.pop():
        fld = None
        for f, w in FIELDS.items():
            want = tuple(('word', layout[f] + j) for j in range(w))
            if tuple(bits_[:w]) == want and all(b == 0 for b in bits_[w:]):
                fld = f
        writer.append({'field': fld, 'radix': radix, 'ty': ty})
    return writer


# ---------------------------------------------------------------------------------------------------------------------
# a hand-written order: cmp(a, b) interpreted under every field-wise relation of a and b
# ---------------------------------------------------------------------------------------------------------------------
def check_order(ctx, facts, rule, T):
    """`<HLCTimestamp as Ord>::cmp` (and partial_cmp) interpreted with each accessor of a / b an order symbol, under all 3^4
    field-wise relations: the result must be the relation of the most significant differing field (significance from the layout
    the constructor gives: seconds > fractional > counter > node), i.e. the numeric order of the packed words."""
    import itertools
    from orswot_abs import _fallback
    from absint import Order
    order_fields = ['seconds', 'fractional', 'counter', 'node']
    try:
        cmpb = [b for b in facts.bodies.values() if b.crate == 'datacake_crdt' and not b.d['promoted'] and b.impl and b.name.endswith('::cmp')
                and 'core::cmp::Ord' in b.impl and ty_head(b.impl.split(' as ')[0].lstrip('<')) == T]
        pcmp = [b for b in facts.bodies.values() if b.crate == 'datacake_crdt' and not b.d['promoted'] and b.impl and b.name.endswith('::partial_cmp')
                and 'core::cmp::PartialOrd' in b.impl and ty_head(b.impl.split(' as ')[0].lstrip('<')) == T]
        if len(cmpb) != 1 or len(pcmp) != 1:
            raise Unmodelled('Ord::cmp / PartialOrd::partial_cmp of HLCTimestamp not found (%d/%d)' % (len(cmpb), len(pcmp)))
        accessor = {T + '::' + f: f for f in order_fields}
        LAYOUT = {'seconds': 32, 'fractional': 24, 'counter': 8, 'node': 0}        # (the layout C10.SEM decides for the constructor)

        def make_bv_cmp(order):
            def bv_cmp(xa, xb):
                # two bit vectors made of the same word bits of the two operands, in the same positions: their numeric order is the
                # lexicographic order of the fields they consist of, most significant first
                ks = []
                swapped = None
                for i in range(63, -1, -1):
                    x, y = xa[i], xb[i]
                    if x == 0 and y == 0:
                        continue
                    if not (isinstance(x, tuple) and isinstance(y, tuple)) or x[1] != y[1] or {x[0], y[0]} != {'a', 'b'}:
                        raise Unmodelled('comparison of bit vectors that are not the same bits of the two operands')
                    sw = x[0] == 'b'
                    if swapped is not None and sw != swapped:
                        raise Unmodelled('comparison mixes the two operands')
                    swapped = sw
                    ks.append(x[1])
                if ks != sorted(ks, reverse=True):
                    raise Unmodelled('compared bits are not in word order')
                K = set(ks)
                rel = '='
                for f in order_fields:
                    bits_ = set(range(LAYOUT[f], LAYOUT[f] + FIELDS[f]))
                    if bits_ <= K:
                        r = order.cmp('a.' + f, 'b.' + f)
                        if r != '=':
                            rel = r
                            break
                    elif bits_ & K:
                        raise Unmodelled('comparison of a part of field %s' % f)
                if swapped and rel != '=':
                    rel = '<' if rel == '>' else '>'
                return rel
            return bv_cmp

        def hook_(interp, name, args, t, body):
            f = accessor.get(strip_generics(name))
            if f is not None and args:
                who = interp.deref_all(args[0])
                w = who[3][0].v if who and who[0] == 'adt' else None
                if w is None or w[0] != 'sym':
                    raise Unmodelled('accessor on something that is not one of the two operands')
                return ('ts', '%s.%s' % (w[1], f))
            return None
        bad = []
        n = 0
        for rels in itertools.product('<=>', repeat=4):
            want = '='
            for f, r in zip(order_fields, rels):
                if r != '=':
                    want = r
                    break
            order = Order({('a.' + f, 'b.' + f): r for f, r in zip(order_fields, rels)})
            for body, wrap in ((cmpb[0], False), (pcmp[0], True)):
                try:
                    it = Interp(facts, order, opaque_call=hook_)
                    a = ('adt', T, 0, [Cell(('sym', 'a'))])
                    b = ('adt', T, 0, [Cell(('sym', 'b'))])
                    r = it.deref_all(it.run_body(body, [('ref', Cell(a)), ('ref', Cell(b))]))
                except Unmodelled:
                    # the order is written on the word's bits rather than through the accessors: both words as bit vectors, the real
                    # accessors / shifts / masks interpreted, comparisons of extracted bits decided field-wise
                    it = Interp(facts, order, opaque_call=hook)
                    it.bv_cmp = make_bv_cmp(order)
                    a = ('adt', T, 0, [Cell(bv_field('a', 64))])
                    b = ('adt', T, 0, [Cell(bv_field('b', 64))])
                    r = it.deref_all(it.run_body(body, [('ref', Cell(a)), ('ref', Cell(b))]))
                if wrap:
                    if r is None or r[0] != 'adt' or r[1] != 'core::option::Option' or r[2] != 1:
                        bad.append('partial_cmp returns None for fields %s' % dict(zip(order_fields, rels)))
                        continue
                    r = it.deref_all(r[3][0].v)
                got = {0: '<', 1: '=', 2: '>'}.get(r[2]) if r and r[0] == 'adt' and r[1] == 'core::cmp::Ordering' else None
                n += 1
                if got != want:
                    bad.append('%s gives %s for field relations %s, the packed words compare %s' % ('partial_cmp' if wrap else 'cmp', got, dict(zip(order_fields, rels)), want))
    except (Unmodelled, absint.NeedChoice, absint.PanicPath, IndexError, TypeError, KeyError, AttributeError) as e:
        return _fallback(ctx, rule, e)
    ctx.ob(rule, 'order|hand-written-cmp-is-word-order', not bad, '%s:%s' % (cmpb[0].file, cmpb[0].line),
           'the hand-written cmp / partial_cmp agree with the numeric order of the packed word on all %d field-wise relations' % n if not bad else bad[0])
    return True
