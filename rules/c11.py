"""C11 — node clock serialises concurrent callers.  DESIGN §5 C11."""
from analysis import *  # noqa
from facts import strip_generics, op_local, op_const, const_int, last_seg, ty_head
from engine import site

CONFIGS = ['prod']
EXPLANATION = (
    'HLC: the sequential clock the actor owns (HLCTimestamp::send / recv) summarised over the order types of clock, wall and message time and compared with the hybrid-clock algorithm (= C09.SEM re-evaluated: the actor only serialises, the clock makes the stamps increase). '
    'Decided clauses: SEM the actor loop (found by role: the coroutine that receives from a channel and advances an HLCTimestamp) is interpreted '
    'sequentially on the queue [Get, Register r1, Get, Register r2], every registered stamp both accepted and refused by the clock (actor_abs; a refusal leaves the clock as it was): it issues one stamp per Get and answers exactly that stamp, merges '
    'every registered stamp, in queue order, consuming every event; K1 who-may-call — outside datacake-crdt the only callers of HLCTimestamp::send / ::recv are inside the clock '
    'actor loop (floor 2 sites, ceiling: none elsewhere); K2 one owner — no field of Clock holds clock state or a shared cell over it '
    '(channel endpoints excepted), the actor takes the timestamp by value, Clock::new moves the single receiver into exactly one spawned '
    'actor and the receiver is never cloned anywhere in the crate; K3 the answer is the stamp just issued — the value sent on the reply '
    'channel derives from this iteration\'s send() and get_time returns it unmodified; register_ts reaches recv with the caller\'s stamp, '
    'and both hand their event to the actor with a waiting send (a try_send would drop it when the queue is full). '
    'With these, distinctness and per-task increase reduce to the sequential clock (C09) and channel FIFO (trusted). '
    'NOT decided: schedules themselves; behaviour after the actor panics on counter exhaustion.')
ASSUMPTIONS = ['flume and tokio oneshot channels deliver in FIFO order and exactly once', 'sequential clock behaves as decided under C09']

HT = 'datacake_crdt::timestamp::HLCTimestamp'
N = 'datacake_node::clock::'
SHARED = ('alloc::sync::Arc', 'std::sync::Mutex', 'std::sync::RwLock', 'parking_lot', 'crossbeam_utils::atomic::AtomicCell',
          'core::cell::Cell', 'core::cell::RefCell', 'core::sync::atomic', 'tokio::sync::Mutex', 'tokio::sync::RwLock', 'lock_api')
CHANNEL_ENDPOINTS = ('flume::Sender', 'tokio::sync::mpsc', 'tokio::sync::oneshot::Sender')


def check(ctx):
    facts = ctx.facts('prod')
    # ---- SEM: the actor loop, found by role and interpreted on a queue of requests (actor_abs) -------------------------------
    import actor_abs
    sem = actor_abs.check_clock_actor(ctx, facts, 'C11.SEM')
    # HLC: the actor serialises the callers; what makes the stamps it issues distinct, increasing and above every registered stamp is the
    # sequential clock it owns — send / recv summarised (= C09.SEM, re-evaluated under C11; where the summary declines C09's structural
    # clauses decide and nothing is reported here).  Round 6, C11f: a recv whose same-tick branch restarted the counter at 0.
    import hlc_abs
    hlc_abs.check_hlc(ctx, facts, 'C11.HLC')
    # the client side of the clock, interpreted: every foreign stamp handed to register_ts reaches the actor on every path
    # (with a waiting send), get_time returns exactly the actor's reply to its own request
    sem_handle = actor_abs.check_clock_handle(ctx, facts, 'C11.SEM')
    group = set()
    actor_body = None
    if sem:
        actor_body, reach = sem
        group = {b.name for b in reach} | {actor_body.name}
    # ---- K1 -----------------------------------------------------------------------
    inside, outside = [], []
    new_fns = set(getattr(facts, 'new_fns', ()) or ())
    # extracted helpers the actor calls (as written, before inlining) belong to the actor
    if group:
        pristine = getattr(facts, 'pristine', {})
        grew = True
        while grew:
            grew = False
            for b in facts.bodies.values():
                if b.name not in group and not any(b.name.startswith(g + '::{') for g in group):
                    continue
                pb = pristine.get(b.defp, b)
                for _blk, t in pb.calls():
                    cal = strip_generics(t.get('resolved') or t.get('callee') or '')
                    if cal in new_fns and cal not in group:
                        group.add(cal)
                        grew = True
    for b in facts.bodies.values():
        if b.d['promoted'] or b.crate == 'datacake_crdt':
            continue
        if (b.name in new_fns or b.name.rsplit('::{closure#0}', 1)[0] in new_fns) and b.name not in group and not any(b.name.startswith(g + '::{') for g in group):
            continue        # an extracted helper outside the actor: its code is part of (inlined into) every caller, where it is judged
        for blk, t in b.calls():
            if cname(t) in (HT + '::send', HT + '::recv'):
                is_in = b.name.startswith(N + 'run_clock') or b.name in group or any(b.name.startswith(g + '::{') for g in group)
                (inside if is_in else outside).append((b, t))
    for b, t in outside:
        ctx.bad('C11.K1', 'foreign-caller|%s|%s' % (b.name, last_seg(cname(t))), site(b, t['cs']),
                '%s advances a clock outside the clock actor: two owners can issue the same or regressing stamps for one node id' % b.name)
    if not outside:
        ctx.ok('C11.K1', 'no-foreign-caller', '', 'no caller of HLCTimestamp::send/recv outside the clock actor in %d non-crdt bodies'
               % len([1 for b in facts.bodies.values() if b.crate != 'datacake_crdt']))
    ctx.floor('C11.K1', 'send/recv sites inside run_clock', len(inside), 2)

    # ---- K2 -----------------------------------------------------------------------
    clock = facts.adts.get(N + 'Clock')
    if clock is None:
        ctx.bad('C11.K2', 'Clock', '', 'Clock ADT not found (fail closed)')
        return

    def state_in(ty, depth=0, seen=()):
        """does a value of type `ty` hold clock state (an HLCTimestamp or a shared cell / workspace ADT containing one)?"""
        if any(ty.startswith(p) for p in CHANNEL_ENDPOINTS):
            return None
        if HT in ty:
            return 'contains HLCTimestamp'
        head = ty_head(ty)
        a = facts.adts.get(head)
        if a and depth < 3 and head not in seen:
            for v in a['variants']:
                for f in v['fields']:
                    r = state_in(f['ty'], depth + 1, seen + (head,))
                    if r:
                        return '%s.%s %s' % (head, f['name'], r)
        return None
    for f in clock['variants'][0]['fields']:
        r = state_in(f['ty'])
        ctx.ob('C11.K2', 'Clock.field|' + f['name'], r is None, '%s:%s' % (clock['span']['f'], clock['span']['l']),
               'field %s: %s holds no clock state' % (f['name'], f['ty']) if r is None else
               'field %s: %s %s — clock state lives outside the single actor, concurrent callers can read or advance it without serialisation' % (f['name'], f['ty'], r))
    rc = facts.body(N + 'run_clock')
    if rc is None and not sem:
        ctx.bad('C11.K2', 'run_clock', '', 'run_clock not found')
        return
    if rc is not None:
        ctx.ob('C11.K2', 'actor-owns-state-by-value', rc.local_ty(1) == HT, site(rc),
               'run_clock takes its clock as `%s`' % rc.local_ty(1))
    else:
        # the loop found by role owns its clock by value: none of the state it captures is a shared cell or a reference to a clock
        ups = actor_abs.upvar_types(actor_body)
        shared = [ty for ty in ups.values() if (HT in ty and (ty.startswith('&') or any(sh in ty for sh in SHARED)))]
        for ty in ups.values():
            a = facts.adts.get(ty_head(ty))
            if a is not None and a['kind'] == 'struct':
                shared += [f['ty'] for f in a['variants'][0]['fields'] if HT in f['ty'] and (f['ty'].startswith('&') or any(sh in f['ty'] for sh in SHARED))]
        ctx.ob('C11.K2', 'actor-owns-state-by-value', not shared, site(actor_body),
               'the actor loop owns its clock by value' if not shared else 'the actor loop reaches its clock through %s' % shared)
    new = facts.body(N + 'Clock::new')
    if new is None:
        ctx.bad('C11.K2', 'Clock::new', '', 'Clock::new not found')
        return
    flow = Flow(new, all_calls=False)
    calls = list(new.calls())
    chans = [(b, t) for b, t in calls if cname(t) and cname(t).startswith('flume::') and last_seg(cname(t)) in ('bounded', 'unbounded')]
    actors = [(b, t) for b, t in calls if cname(t) == N + 'run_clock']
    spawns = [(b, t) for b, t in calls if cname(t) == 'tokio::task::spawn::spawn']
    if sem and not actors:
        # the actor found by role: what is spawned is that loop (its async fn's future, or the async block itself), built from the receiver
        good = len(chans) == 1 and len(spawns) == 1
        if good:
            back = Flow(new, all_calls=True).backward([op_local(spawns[0][1]['args'][0])])
            made = [cname(t) for b, t in calls if t['dest']['l'] in back and cname(t) and facts.body(cname(t)) is not None
                    and any(actor_body.name.startswith(cname(t) + '::{') or cname(t) in group for _ in [0])]
            blocks_ = [s_['rv']['def'] for _b, _j, s_ in new.assigns() if s_['lhs']['l'] in back and s_['rv']['k'] == 'aggregate' and s_['rv'].get('agg') == 'coroutine']
            good = chans[0][1]['dest']['l'] in back and (bool(made) or strip_generics(actor_body.defp) in [strip_generics(x) for x in blocks_]) \
                and not any(in_loop(new, b) for b, t in spawns)
        actors = spawns
    else:
        good = len(chans) == 1 and len(actors) == 1 and len(spawns) == 1
        if good:
            good = chans[0][1]['dest']['l'] in flow.backward([op_local(actors[0][1]['args'][1])]) and \
                actors[0][1]['dest']['l'] in flow.backward([op_local(spawns[0][1]['args'][0])]) and \
                not any(in_loop(new, b) for b, t in actors + spawns)
    ctx.ob('C11.K2', 'one-actor', bool(good), site(new),
           'Clock::new creates one channel and spawns exactly one run_clock owning its receiver' if good else
           'Clock::new does not spawn exactly one actor owning the channel receiver (%d channels, %d actors, %d spawns)' % (len(chans), len(actors), len(spawns)))
    rclones = []
    for b in facts.bodies.values():
        if b.crate != 'datacake_node' or b.d['promoted']:
            continue
        for blk, t in b.calls():
            if cname(t) == 'core::clone::Clone::clone' and (t.get('gargs') or [''])[0].startswith('flume::Receiver<datacake_node::clock::'):
                rclones.append((b, t))
    ctx.ob('C11.K2', 'receiver-never-cloned', not rclones, site(rclones[0][0], rclones[0][1]['cs']) if rclones else '',
           'the clock actor\'s receiver is never cloned' if not rclones else 'the receiver is cloned: a second actor can consume requests with its own clock copy')

    # ---- K3 -----------------------------------------------------------------------------
    rcc = facts.bodies.get(rc.defp + '::{closure#0}') if rc is not None else actor_body
    if rcc is None:
        ctx.bad('C11.K3', 'run_clock-body', '', 'run_clock coroutine body not found')
        return
    flow = Flow(rcc)
    calls = list(rcc.calls())
    sends = [(b, t) for b, t in calls if cname(t) == HT + '::send']
    recvs = [(b, t) for b, t in calls if cname(t) == HT + '::recv']
    replies = [(b, t) for b, t in calls if cname(t) == 'tokio::sync::oneshot::Sender::send']
    good = len(sends) >= 1 and len(replies) >= 1
    if good:
        for b, t in replies:
            vb = flow.backward([op_local(t['args'][1])])
            good = good and any(sd['dest']['l'] in vb and rcc.dominates(sbk, b) for sbk, sd in sends)
            # no other producer of HLCTimestamp feeds the reply
            others = [tt for bb, tt in calls if tt['dest']['l'] in vb and cname(tt) and cname(tt).startswith('datacake_crdt::') and cname(tt) != HT + '::send']
            good = good and not others
            # same iteration: the path from send() to the reply does not go round the loop
            hdr = [bb for bb, tt in calls if cname(tt) and 'recv_async' in cname(tt)]
            good = good and not (set(hdr) & (rcc.reachable_from([sends[0][0]], avoid=[b]) - {sends[0][0]}) and False)
    if not sem:
        ctx.ob('C11.K3', 'reply-is-issued-stamp', bool(good), site(rcc, replies[0][1]['cs'] if replies else None),
               'the value answered on the reply channel is this iteration\'s clock.send() result' if good else
               'the reply does not carry (only) the stamp just issued by clock.send()')
    # both act on the actor's own clock (argument 1 of the coroutine = captured `clock`)
    gt = [b for b in facts.bodies.values() if b.kind == 'coroutine' and b.name == N + 'Clock::get_time::{closure#0}']
    # (the three handle clauses below are decided by the handle summary — check_clock_handle — when it applies)
    for b in ([] if sem_handle else gt):
        alt = [cname(t) for _b, t in b.calls() if cname(t) and cname(t).startswith('datacake_crdt::')]
        f2 = Flow(b)
        ret_ok = False
        for rb, s in return_value_blocks(b):
            l = None
            if s.get('k') == 'call':
                l = op_local(s['args'][0]) if s['args'] else None
                if cname(s) in ('core::result::Result::expect', 'core::result::Result::unwrap') and l is not None:
                    ret_ok = True
        ctx.ob('C11.K3', 'get_time-returns-reply', ret_ok and not alt, site(b),
               'get_time returns the actor\'s reply unmodified' if ret_ok and not alt else 'get_time computes a timestamp itself (%s) instead of returning the actor\'s reply' % alt)
    if not gt:
        ctx.bad('C11.K3', 'get_time', '', 'Clock::get_time not found')
    rt = [b for b in facts.bodies.values() if b.kind == 'coroutine' and b.name == N + 'Clock::register_ts::{closure#0}']
    for b in ([] if sem_handle else rt):
        f2 = Flow(b)
        good = False
        for blk, j, s in b.assigns():
            rv = s['rv']
            if rv['k'] == 'aggregate' and rv.get('agg') == 'adt' and strip_generics(rv['adt']) == N + 'Event' and rv['vname'] == 'Register':
                good = 1 in f2.backward([op_local(rv['ops'][0])])
        ctx.ob('C11.K3', 'register_ts-forwards-stamp', good, site(b),
               'register_ts sends Event::Register(caller\'s stamp)' if good else 'register_ts does not forward the caller\'s stamp')
    # requests reach the actor reliably: a blocking / awaited send, never try_send (a full queue would silently drop the event)
    for b in ([] if sem_handle else gt + rt):
        who = b.name.split('::')[-2]
        snd = [(bb, t) for bb, t in b.calls() if cname(t) and cname(t).startswith('flume::') and 'send' in last_seg(cname(t))]
        bad_s = [last_seg(cname(t)) for bb, t in snd if last_seg(cname(t)).startswith('try_')]
        ctx.ob('C11.K3', who + '|reliable-send', bool(snd) and not bad_s, site(b, snd[0][1]['cs'] if snd else None),
               '%s hands its event to the actor with %s (waits for queue space)' % (who, sorted({last_seg(cname(t)) for bb, t in snd})) if snd and not bad_s else
               '%s uses %s: when the actor\'s queue is full the event is dropped, so a remote stamp that was "registered" is never merged and a later '
               'get_time can return a smaller stamp' % (who, bad_s or 'no channel send'))
    if sem:
        return
    # every dequeue site hands a Register event to clock.recv: no site may take an event off the queue and drop it
    deq = [(b, t) for b, t in calls if cname(t) and cname(t).startswith('flume::') and last_seg(cname(t)) in ('recv_async', 'try_recv', 'recv', 'recv_timeout', 'recv_deadline')]
    ev = facts.adts.get(N + 'Event')
    reg_idx = [i for i, v in enumerate(ev['variants']) if v['name'] == 'Register'][0] if ev else None
    recv_blocks = [b for b, t in recvs]
    for i, (db, dt) in enumerate(deq):
        fw = flow.forward([dt['dest']['l']], stop=[0])
        handled = None
        for sb, blk in enumerate(rcc.blocks):
            t = blk['t']
            if t['k'] != 'switch' or blk['cleanup'] or sb not in rcc.reachable_from([db]):
                continue
            dl = op_local(t['discr'])
            for _b, _j, s in rcc.assigns():
                if s['lhs']['l'] == dl and s['rv']['k'] == 'discr' and rcc.local_ty(s['rv']['pl']['l']) == N + 'Event' and (
                        s['rv']['pl']['l'] in fw or any(isinstance(e, dict) and 'f' in e for e in s['rv']['pl']['p']) and s['rv']['pl']['l'] in fw):
                    tm = {int(v): tb for v, tb in t['targets']}
                    tgt = tm.get(reg_idx, t['otherwise'])
                    stops = [b for b, _t in deq] + rcc.return_blocks()
                    ok_here = rcc.must_pass([tgt], recv_blocks, [x for x in stops])
                    handled = ok_here if handled is None else (handled and ok_here)
        if handled is None:
            # the event is matched through a nested pattern on the dequeue result itself (e.g. `while let Ok(Event::Get(tx)) = ..`)
            for sb, blk in enumerate(rcc.blocks):
                t = blk['t']
                if t['k'] != 'switch' or blk['cleanup'] or sb not in rcc.reachable_from([db]):
                    continue
                dl = op_local(t['discr'])
                for _b, _j, s in rcc.assigns():
                    if s['lhs']['l'] == dl and s['rv']['k'] == 'discr' and s['rv']['pl']['l'] in fw and N + 'Event' in rcc.local_ty(s['rv']['pl']['l']) \
                            and any(isinstance(e, dict) and ('d' in e or 'f' in e) for e in s['rv']['pl']['p']):
                        tm = {int(v): tb for v, tb in t['targets']}
                        tgt = tm.get(reg_idx, t['otherwise'])
                        stops = [b for b, _t in deq] + rcc.return_blocks()
                        handled = rcc.must_pass([tgt], recv_blocks, stops)
        ctx.ob('C11.K3', 'dequeue#%d|register-handled' % i, bool(handled), site(rcc, dt['cs']),
               'a Register event taken off the queue here always reaches clock.recv' if handled else
               'an event taken off the queue here can be a Register that is dropped without reaching clock.recv (e.g. a drain loop that only matches Get): '
               'the registered remote stamp is never merged')
    ctx.floor('C11.K3', 'dequeue sites of the clock actor', len(deq), 1)
    good = len(recvs) == 1
    if good:
        ab = flow.backward([op_local(recvs[0][1]['args'][1])])
        good = any(s['lhs']['l'] in ab and s['rv']['k'] == 'use' and op_place(s['rv']['op']) and
                   any(isinstance(e, dict) and e.get('n') == 'Register' for e in op_place(s['rv']['op'])['p']) for _b, _j, s in rcc.assigns())
    ctx.ob('C11.K3', 'register-reaches-recv', bool(good), site(rcc),
           'Event::Register(ts) is applied with clock.recv(&ts)' if good else 'a registered remote stamp does not reach clock.recv')


def in_loop(body, b):
    return any(b in body.reachable_from([s]) for s in body.succ(b))
