"""Semantic per-key summaries of the OrSWotSet operations, computed by P-ORDER (absint.py) and compared with the
last-write-wins register they must implement.  Used by C02 (gate), C03 (merge), C04 (mutators), C05 (diff), C08 (purge).

Abstract input for one key k and an incoming stamp `in`: the set holds k in the live map with a stamp e, or in the tombstone
map with a stamp d, or not at all; e / d is below, equal to or above `in`.  (A key in both maps is excluded: exclusivity is
itself one of the checked post-conditions, and it holds initially.)"""
import absint
from absint import Interp, Order, Cell, MapObj, Unmodelled, explore, mk_option, mk_bool, NeedChoice, PanicPath, UNIT
from facts import strip_generics, last_seg, ty_head, ty_args

CR = 'datacake_crdt'
TS_TY = 'HLCTimestamp'


class Roles:
    """which field of OrSWotSet is the live map, the tombstone map and the version vectors (found by type and by what the
    public `get` reads, not by name)"""

    def __init__(self, facts):
        adts = [a for n, a in facts.adts.items() if n.startswith(CR + '::') and n.endswith('::OrSWotSet')]
        if len(adts) != 1:
            raise Unmodelled('OrSWotSet not found')
        self.adt = adts[0]
        self.name = self.adt['def']
        fields = self.adt['variants'][0]['fields']
        maps = [i for i, f in enumerate(fields) if ty_head(f['ty']) in ('alloc::collections::btree::map::BTreeMap', 'std::collections::hash::map::HashMap')
                and f['ty'].rstrip('>').endswith(TS_TY)]
        if len(maps) != 2:
            raise Unmodelled('expected two key -> timestamp maps in OrSWotSet, found %d' % len(maps))
        others = [i for i in range(len(fields)) if i not in maps]
        if len(others) != 1:
            raise Unmodelled('expected one version-vector field')
        self.versions = others[0]
        self.fields = fields
        # the live map is the one the public `get` reads
        g = self.method(facts, 'get')
        live = None
        if g is not None:
            for _b, _j, s in g.assigns():
                if s['rv']['k'] == 'ref':
                    fs = [e['f'] for e in s['rv']['pl']['p'] if isinstance(e, dict) and 'f' in e]
                    if fs and fs[0] in maps:
                        live = fs[0]
        if live is None:
            raise Unmodelled('cannot tell the live map from the tombstone map (OrSWotSet::get not found)')
        self.live = live
        self.dead = [m for m in maps if m != live][0]

    def method(self, facts, name):
        bs = [b for b in facts.bodies.values() if b.crate == CR and not b.d['promoted'] and b.kind in ('method', 'fn')
              and b.name.endswith('::OrSWotSet::' + name)]
        return bs[0] if len(bs) == 1 else None

    def kind(self, i):
        return 'btree' if 'btree' in self.fields[i]['ty'] else 'hash'

    def make_set(self, live=None, dead=None, versions_tag='versions'):
        cells = []
        for i in range(len(self.fields)):
            if i == self.live:
                cells.append(Cell(('map', MapObj(self.kind(i), {k: Cell(('ts', v)) for k, v in (live or {}).items()}))))
            elif i == self.dead:
                cells.append(Cell(('map', MapObj(self.kind(i), {k: Cell(('ts', v)) for k, v in (dead or {}).items()}))))
            else:
                cells.append(Cell(('opaque', versions_tag)))
        return ('adt', strip_generics(self.name), 0, cells)

    def read_set(self, setv):
        live = {k: c.v[1] for k, c in setv[3][self.live].v[1].items.items()}
        dead = {k: c.v[1] for k, c in setv[3][self.dead].v[1].items.items()}
        return live, dead


def versions_oracle(interp, name, args, t, body):
    """calls whose receiver is the opaque version-vector component: boolean results are oracles, everything else a no-op"""
    for a in args[:1]:
        v = interp.deref_all(a)
        if v is not None and v[0] == 'opaque' and v[1].startswith('versions'):
            # a helper of the SET that is merely handed the version vectors together with the set's own maps is not a question to the
            # version vectors: its body is interpreted (the questions it asks are intercepted there)
            if any((interp.deref_all(x) or ('',))[0] == 'map' for x in args[1:]):
                return None
            ty = body.local_ty(t['dest']['l'])
            if ty == 'bool':
                # (which stamp the question is about is part of the question: recorded for the callers that check it)
                interp.trace.append(('versions-asked', last_seg(name), [interp.deref_all(x) for x in args[1:]]))
                return absint.mk_bool(interp.choose('%s.%s' % (v[1], last_seg(name))))
            if ty == '()':
                if any((interp.deref_all(x) or ('',))[0] == 'opaque' and str(interp.deref_all(x)[1]).startswith('versions-remote') for x in args[1:]):
                    interp.trace.append('versions-merged')
                return absint.UNIT
            return ('opaque', 'versions-result')
    return None


def shifted_stamps(interp, name, args, t, body):
    """a stamp taken apart, its time moved by a duration, and put together again is ANOTHER stamp: `x+<what>` / `x-<what>`.  Only what
    is needed to see which stamp a question to the version vectors is about; anything else falls through to the interpreter."""
    seg = last_seg(name)
    a = [interp.deref_all(x) for x in args]
    if ('::' + TS_TY + '::') in name and a and a[0] is not None and a[0][0] == 'ts':
        if seg == 'datacake_timestamp':
            return ('dur', a[0][1])
        if seg == 'counter':
            return ('ctr', a[0][1])
        if seg == 'node':
            return ('nodeof', a[0][1])
    if name.endswith('::' + TS_TY + '::new') and len(a) == 3 and all(x is not None for x in a) and a[0][0] == 'dur' and a[1][0] == 'ctr' and a[2][0] == 'nodeof':
        base = a[1][1]
        if a[2][1] == base and (a[0][1] == base or a[0][1].startswith(base + '+') or a[0][1].startswith(base + '-')):
            return ('ts', a[0][1])
        raise Unmodelled('a stamp assembled from the parts of different stamps')
    if len(a) == 2 and a[0] is not None and a[0][0] == 'dur' and a[1] is not None:
        what = a[1][1] if a[1][0] == 'const' else ('%ss' % a[1][1] if a[1][0] == 'durc' else None)
        sign = None
        if name in ('<core::time::Duration as core::ops::Add>::add', 'core::ops::arith::Add::add', 'core::ops::Add::add', 'core::time::Duration::saturating_add', 'core::time::Duration::checked_add'):
            sign = '+'
        if name in ('<core::time::Duration as core::ops::Sub>::sub', 'core::ops::arith::Sub::sub', 'core::ops::Sub::sub', 'core::time::Duration::saturating_sub', 'core::time::Duration::checked_sub'):
            sign = '-'
        if sign and what is not None:
            v = ('dur', '%s%s%s' % (a[0][1], sign, last_seg(str(what))))
            return mk_option(v) if seg.startswith('checked_') else v
    if name == 'core::time::Duration::from_secs' and a and a[0] is not None and a[0][0] == 'int' and a[0][1]:
        return ('durc', a[0][1])
    return None


def oracle_and_shifts(interp, name, args, t, body):
    r = versions_oracle(interp, name, args, t, body)
    return r if r is not None else shifted_stamps(interp, name, args, t, body)


PRE = [('none', None, None)] + [('live', r, None) for r in '<=>'] + [('dead', None, r) for r in '<=>']


def pre_label(p):
    if p[0] == 'none':
        return 'key absent'
    return '%s stamp %s incoming' % ('live' if p[0] == 'live' else 'tombstone', {'<': 'older than', '=': 'equal to', '>': 'newer than'}[p[1] or p[2]])


def arg_values(body, roles, selfv, by_ref_self=True):
    """parameter values by type: &/&mut Self, usize (source id), u64 (key), HLCTimestamp (incoming stamp)"""
    out = []
    for i in range(1, body.argc + 1):
        ty = body.local_ty(i)
        if 'OrSWotSet' in ty:
            out.append(('ref', Cell(selfv)) if ty.startswith('&') else selfv)
        elif ty == 'usize':
            out.append(('int', 0))
        elif ty in ('u64',):
            out.append(('key', 'k'))
        elif ty.endswith(TS_TY):
            out.append(('ts', 'in'))
        else:
            raise Unmodelled('parameter of type %s' % ty)
    return out


def summarize_mutator(facts, roles, body):
    """{(pre, oracle_log): (post_live, post_dead, flag)} for the 7 abstract inputs"""
    table = {}
    for pre in PRE:
        rel = {}
        if pre[0] == 'live':
            rel[('e', 'in')] = pre[1]
        if pre[0] == 'dead':
            rel[('d', 'in')] = pre[2]

        def run(choices, pre=pre, rel=rel):
            it = Interp(facts, Order(rel), opaque_call=versions_oracle)
            it.choices = list(choices)
            selfv = roles.make_set(live={'k': 'e'} if pre[0] == 'live' else None, dead={'k': 'd'} if pre[0] == 'dead' else None)
            args = arg_values(body, roles, selfv)
            r = it.run_body(body, args)
            live, dead = roles.read_set(selfv)
            return it.oracle_log, (live.get('k'), dead.get('k'), r)
        for log, res in explore(run):
            table[(pre, tuple(log) if log and isinstance(log[0], tuple) else tuple(log))] = res
    return table


def norm(sym, pre):
    """a stamp equal to the incoming one IS the incoming one"""
    if sym == 'e' and pre[1] == '=':
        return 'in'
    if sym == 'd' and pre[2] == '=':
        return 'in'
    return sym


def lww_expected(op, pre):
    """post-state (live, dead) and change flag of a last-write-wins register with insert-wins ties"""
    kind, re_, rd = pre
    if op == 'insert':
        if kind == 'none':
            return ('in', None, True)
        if kind == 'live':
            return ('in', None, True) if re_ == '<' else ('in' if re_ == '=' else 'e', None, False)
        return ('in', None, True) if rd in '<=' else (None, 'd', False)
    if kind == 'none':
        return (None, 'in', True)
    if kind == 'live':
        return (None, 'in', True) if re_ == '<' else ('in' if re_ == '=' else 'e', None, False)
    return (None, 'in', True) if rd == '<' else (None, 'in' if rd == '=' else 'd', False)


def unchanged(pre):
    kind, re_, rd = pre
    if kind == 'none':
        return (None, None, False)
    if kind == 'live':
        return ('in' if re_ == '=' else 'e', None, False)
    return (None, 'in' if rd == '=' else 'd', False)


# ---------------------------------------------------------------------------------------------------------------------
# rule layer
# ---------------------------------------------------------------------------------------------------------------------
def _site(body):
    return '%s:%s' % (body.file, body.line)


def _show(res):
    live, dead, flag = res
    st = 'live@%s' % live if live else ('tombstone@%s' % dead if dead else 'absent')
    if live and dead:
        st = 'live@%s AND tombstone@%s' % (live, dead)
    return '%s, returns %s' % (st, flag[1] if isinstance(flag, tuple) else flag)


def check_mutators(ctx, facts, rule):
    """True when both mutators were summarised (their obligations are then recorded); False = construct not modelled,
    the caller falls back to its structural rules."""
    try:
        roles = Roles(facts)
        bodies = {'insert': roles.method(facts, 'insert_with_source'), 'delete': roles.method(facts, 'delete_with_source')}
        if any(b is None for b in bodies.values()):
            raise Unmodelled('insert_with_source / delete_with_source not found')
        tables = {op: summarize_mutator(facts, roles, b) for op, b in bodies.items()}
    except Unmodelled as e:
        ctx.note = getattr(ctx, 'note', [])
        _fallback(ctx, rule, e)
        return False
    for op, table in tables.items():
        body = bodies[op]
        applied_somewhere = refused_somewhere = False
        for pre in PRE:
            rows = [(log, res) for (p, log), res in table.items() if p == pre and res[0] != 'panic']
            want = lww_expected(op, pre)
            same = unchanged(pre)
            bad = []
            for log, res in rows:
                got = (norm(res[0], pre), norm(res[1], pre), res[2][1] if isinstance(res[2], tuple) and res[2][0] == 'bool' else res[2])
                gates = [g for g in log if isinstance(g, tuple) and g[0].startswith('versions')]
                if got == want and (want != same or not gates):
                    applied_somewhere = applied_somewhere or want != same
                    continue
                if got == same and gates:
                    refused_somewhere = True
                    continue
                if got == same and want == same:
                    continue
                bad.append((log, got))
            ok = bool(rows) and not bad
            ctx.ob(rule, '%s|%s' % (op, pre_label(pre)), ok, _site(body),
                   '%s with %s: %s (or left unchanged when the version gate refuses) on every path' % (op, pre_label(pre), _show(want)) if ok else
                   '%s with %s must give %s (last write wins, an insert wins a tie) or leave the key unchanged and return false when the version '
                   'gate refuses, but the code gives %s%s' % (op, pre_label(pre), _show(want), _show(bad[0][1]) if bad else 'no result',
                                                              (' [oracle answers %s]' % (list(bad[0][0]),)) if bad else ''),
                   witness={'op': op, 'abstract_input': pre_label(pre), 'expected': _show(want), 'got': [_show(g) for _l, g in bad][:4]})
        ctx.ob(rule, '%s|gate-consulted' % op, applied_somewhere and refused_somewhere, _site(body),
               'the version gate can refuse the %s (state unchanged, false) and can let it through' % op if applied_somewhere and refused_somewhere else
               'the %s is %s' % (op, 'never applied' if not applied_somewhere else 'never refused by the version gate: stale operations of an origin are applied'))
    return True


# ---------------------------------------------------------------------------------------------------------------------
# merge
# ---------------------------------------------------------------------------------------------------------------------
def merge_inputs():
    """abstract inputs of merge for one key: (self_state, other_state, relation of self's stamp to other's)"""
    out = []
    for s in ('none', 'live', 'dead'):
        for o in ('none', 'live', 'dead'):
            if s != 'none' and o != 'none':
                for r in '<=>':
                    out.append((s, o, r))
            else:
                out.append((s, o, None))
    # defensive: a peer state that lists the key live AND tombstoned (replayed in stamp order)
    out.append(('none', 'both', '<'))     # peer's live stamp older than its tombstone
    out.append(('none', 'both', '>'))
    return out


def merge_label(inp):
    s, o, r = inp
    nm = {'none': 'absent', 'live': 'live', 'dead': 'tombstoned'}
    if o == 'both':
        return 'key absent here, the peer state lists it live and tombstoned, the live stamp %s' % ('older' if r == '<' else 'newer')
    t = 'key %s here, %s in the peer state' % (nm[s], nm[o])
    if r:
        t += ', our stamp %s the peer\'s' % {'<': 'older than', '=': 'equal to', '>': 'newer than'}[r]
    return t


def summarize_merge(facts, roles, body):
    table = {}
    unmerged = []
    for inp in merge_inputs():
        s, o, r = inp
        rel = {('s', 'o'): r} if r else {}
        if o == 'both':
            rel = {('o', 'o2'): r}

        def run(choices, inp=inp, rel=rel):
            s, o, r = inp
            it = Interp(facts, Order(rel), opaque_call=versions_oracle)
            it.choices = list(choices)
            selfv = roles.make_set(live={'k': 's'} if s == 'live' else None, dead={'k': 's'} if s == 'dead' else None)
            other = roles.make_set(live={'k': 'o'} if o in ('live', 'both') else None, dead={'k': 'o2' if o == 'both' else 'o'} if o in ('dead', 'both') else None,
                                   versions_tag='versions-remote')
            args = []
            first = True
            for i in range(1, body.argc + 1):
                ty = body.local_ty(i)
                if 'OrSWotSet' not in ty:
                    raise Unmodelled('merge parameter of type %s' % ty)
                v = selfv if first else other
                first = False
                args.append(('ref', Cell(v)) if ty.startswith('&') else v)
            it.run_body(body, args)
            live, dead = roles.read_set(selfv)
            if 'versions-merged' not in it.trace:
                unmerged.append(inp)
            return it.oracle_log, (live.get('k'), dead.get('k'))
        for log, res in explore(run):
            table[(inp, tuple(log))] = res
    table['unmerged'] = unmerged
    return table


def join(a, b, rel_ab):
    """last-write-wins join of two per-key states ('live'|'dead'|'none', sym); an insert wins a tie"""
    if a[0] == 'none':
        return b
    if b[0] == 'none':
        return a
    if rel_ab == '<':
        return b
    if rel_ab == '>':
        return a
    # equal stamps
    if a[0] == 'live':
        return a
    if b[0] == 'live':
        return b
    return a


def merge_expected(inp, g_self, g_remote):
    """observed-remove semantics: a peer tombstone older than what we have observed from its origin is ignored (g_self);
    a live key the peer does not list and whose stamp the peer has observed beyond is dropped (g_remote)"""
    s, o, r = inp
    if o == 'both':
        if g_self:
            return ('live', 'o')
        return ('dead', 'o2') if r == '<' else ('live', 'o')
    S = (s, 's')
    O = (o, 'o')
    if o == 'dead' and g_self:
        O = ('none', None)
    if s == 'live' and o != 'live' and g_remote:
        S = ('none', None)
    return join(S, O, r)


def check_merge(ctx, facts, rule):
    try:
        roles = Roles(facts)
        body = roles.method(facts, 'merge')
        if body is None:
            raise Unmodelled('OrSWotSet::merge not found')
        table = summarize_merge(facts, roles, body)
    except Unmodelled as e:
        ctx.note = getattr(ctx, 'note', [])
        _fallback(ctx, rule, e)
        return False
    unmerged = table.pop('unmerged')
    ctx.ob(rule.replace('.SEM', '.M'), 'merge|versions-merged-on-every-path', not unmerged, _site(body),
           'every path through merge merges the peer\'s version stamps' if not unmerged else
           'merge can return without merging the peer\'s version stamps (e.g. when %s): purge cut-offs and refusals then differ between '
           'replicas that merged each other, and re-merging is not idempotent' % merge_label(unmerged[0]))
    for inp in merge_inputs():
        rows = [(log, res) for (i, log), res in table.items() if i == inp]
        bad = []
        for g_self in (False, True):
            for g_remote in (False, True):
                want = merge_expected(inp, g_self, g_remote)
                want_state = (want[1] if want[0] == 'live' else None, want[1] if want[0] == 'dead' else None)
                # the resolution the code takes under these oracle answers
                cons = []
                for log, res in rows:
                    ok = True
                    for lab, val in log:
                        if lab.startswith('versions-remote'):
                            ok = ok and val == g_remote
                        elif lab.startswith('versions'):
                            ok = ok and val == g_self
                        else:
                            ok = False
                    if ok:
                        cons.append(res)
                for res in cons:
                    got = res
                    if inp[2] == '=':       # equal stamps are one stamp
                        got = tuple('s' if x == 'o' else x for x in got)
                        w = tuple('s' if x == 'o' else x for x in want_state)
                    else:
                        w = want_state
                    if res and res[0] == 'panic':
                        continue
                    if got != w:
                        bad.append((g_self, g_remote, got, w))
                if not cons:
                    bad.append((g_self, g_remote, 'no path', want_state))
        ok = not bad

        def show(st):
            if isinstance(st, str):
                return st
            live, dead = st
            if live and dead:
                return 'live@%s AND tombstone@%s' % (live, dead)
            return 'live@%s' % live if live else ('tombstone@%s' % dead if dead else 'absent')
        ctx.ob(rule, 'merge|%s' % merge_label(inp), ok, _site(body),
               'merge gives the last-write-wins join (an insert wins a tie; observed-remove gates honoured) for: %s' % merge_label(inp) if ok else
               'merge with %s: when %s the key must end %s, but the code leaves it %s' % (
                   merge_label(inp), 'we have%s observed beyond the peer\'s tombstone and the peer has%s observed beyond our entry' % (
                       '' if bad[0][0] else ' not', '' if bad[0][1] else ' not'), show(bad[0][3]), show(bad[0][2])),
               witness={'abstract_input': merge_label(inp), 'mismatches': [{'we_observed_beyond': a, 'peer_observed_beyond': b, 'got': show(c), 'expected': show(d)} for a, b, c, d in bad][:6]})
    return True


# ---------------------------------------------------------------------------------------------------------------------
# will_apply, diff, purge
# ---------------------------------------------------------------------------------------------------------------------
def _consistent(log, g_self, g_remote=None):
    for lab, val in log:
        if lab.startswith('versions-remote'):
            if g_remote is None or val != g_remote:
                return False
        elif lab.startswith('versions'):
            if val != g_self:
                return False
        else:
            return False
    return True


def _fallback(ctx, rule, e):
    import os
    if os.environ.get('DC_DEBUG'):
        import traceback
        traceback.print_exc()
        tb = e.__traceback__
        while tb is not None:
            it_ = tb.tb_frame.f_locals.get('self')
            if it_ is not None and hasattr(it_, 'where'):
                print('   at', it_.where)
                break
            tb = tb.tb_next
    ctx.note = getattr(ctx, 'note', [])
    ctx.note.append('%s: semantic summary not available (%s); structural rules used instead' % (rule, e))
    return False


def check_will_apply(ctx, facts, rule):
    try:
        roles = Roles(facts)
        body = roles.method(facts, 'will_apply')
        if body is None:
            raise Unmodelled('OrSWotSet::will_apply not found')
        table = {}
        for pre in PRE:
            rel = {('e', 'in'): pre[1]} if pre[0] == 'live' else ({('d', 'in'): pre[2]} if pre[0] == 'dead' else {})

            def run(choices, pre=pre, rel=rel):
                it = Interp(facts, Order(rel), opaque_call=versions_oracle)
                it.choices = list(choices)
                selfv = roles.make_set(live={'k': 'e'} if pre[0] == 'live' else None, dead={'k': 'd'} if pre[0] == 'dead' else None)
                r = it.run_body(body, arg_values(body, roles, selfv))
                live, dead = roles.read_set(selfv)
                return it.oracle_log, (r[1], live.get('k'), dead.get('k'))
            for log, res in explore(run):
                table[(pre, tuple(log))] = res
    except Unmodelled as e:
        return _fallback(ctx, rule, e)
    for pre in PRE:
        bad = []
        for g in (False, True):
            want = (not g) and (pre[0] == 'none' or (pre[1] or pre[2]) == '<')
            cons = [res for (p, log), res in table.items() if p == pre and _consistent(log, g)]
            for res in cons:
                if res[0] == 'panic':
                    continue
                if res[0] != want:
                    bad.append((g, res[0], want))
            if not cons:
                bad.append((g, 'no path', want))
        ok = not bad
        ctx.ob(rule, 'will_apply|%s' % pre_label(pre), ok, _site(body),
               'will_apply predicts: applied exactly when the stamp is not before the purge cut-off and the key is absent or holds an older stamp (%s)' % pre_label(pre) if ok else
               'will_apply with %s and the stamp %sbefore the purge cut-off answers %s, the operation %s' % (
                   pre_label(pre), '' if bad[0][0] else 'not ', bad[0][1], 'is applied' if bad[0][2] else 'is refused / changes nothing'),
               witness={'abstract_input': pre_label(pre), 'mismatches': [{'before_cutoff': a, 'got': b, 'expected': c} for a, b, c in bad]})
    return True


def check_diff(ctx, facts, rule):
    """diff(self, other) lists a peer entry exactly when this replica lacks it: it holds an older stamp for the key, or holds
    nothing and has not observed beyond the stamp (purge cut-off); live keys go to the first list, tombstones to the second."""
    try:
        roles = Roles(facts)
        body = roles.method(facts, 'diff')
        if body is None:
            raise Unmodelled('OrSWotSet::diff not found')
        inputs = [i for i in merge_inputs() if i[1] in ('live', 'dead')]
        table = {}
        for inp in inputs:
            s, o, r = inp
            rel = {('s', 'o'): r} if r else {}

            def run(choices, inp=inp, rel=rel):
                s, o, r = inp
                it = Interp(facts, Order(rel), opaque_call=oracle_and_shifts)
                it.choices = list(choices)
                selfv = roles.make_set(live={'k': 's'} if s == 'live' else None, dead={'k': 's'} if s == 'dead' else None)
                other = roles.make_set(live={'k': 'o'} if o == 'live' else None, dead={'k': 'o'} if o == 'dead' else None, versions_tag='versions-remote')
                args, first = [], True
                for i in range(1, body.argc + 1):
                    ty = body.local_ty(i)
                    v = selfv if first else other
                    first = False
                    args.append(('ref', Cell(v)) if ty.startswith('&') else v)
                res = it.run_body(body, args)
                res = it.deref_all(res)
                lists = []
                for c in res[1]:
                    lst = it.deref_all(c.v)
                    if lst[0] != 'vec':
                        raise Unmodelled('diff returns %s' % lst[0])
                    lists.append([(it.deref_all(x)[1][0].v, it.deref_all(x)[1][1].v) for x in lst[1]])
                live, dead = roles.read_set(selfv)
                asked = [(q, x) for tr in it.trace if isinstance(tr, tuple) and tr[0] == 'versions-asked' for q in [tr[1]] for x in tr[2]
                         if x is not None and x[0] == 'ts']
                return it.oracle_log, (lists, live.get('k'), dead.get('k'), asked)
            for log, res in explore(run):
                table[(inp, tuple(log))] = res
    except (Unmodelled, IndexError, TypeError) as e:
        return _fallback(ctx, rule, e)
    # which stamp the purge cut-off is asked about: the peer's stamp itself (the stamp that is listed, and the one the apply path —
    # will_apply — asks about), never a stamp moved in time
    moved = sorted({(q, x[1]) for res in table.values() if res[0] != 'panic' and len(res) > 3 for q, x in res[3] if x[1] != 'o' and ('+' in x[1] or '-' in x[1])})
    for q, x in moved:
        ctx.ob(rule, 'diff|cut-off asked about the listed stamp', False, _site(body),
               'diff asks the version vectors %s(..) about the stamp `%s` — the peer\'s stamp `o` moved in time — and then lists `o`: the cut-off already '
               'allows for late operations once, and the apply path (will_apply / the mutators) asks about the stamp itself, so entries in the '
               'window between the two answers are listed by every exchange and refused by every application (or, moved the other way, entries this '
               'replica lacks are never listed)' % (q, x))
    if not moved:
        ctx.ok(rule, 'diff|cut-off asked about the listed stamp', _site(body), 'every question diff puts to the version vectors is about the peer\'s stamp as listed')
    for inp in inputs:
        s, o, r = inp
        bad = []
        for g in (False, True):
            listed = (s == 'none' and not g) or (s != 'none' and r == '<')
            want = [[(('key', 'k'), ('ts', 'o'))] if (listed and o == 'live') else [], [(('key', 'k'), ('ts', 'o'))] if (listed and o == 'dead') else []]
            cons = [res for (i, log), res in table.items() if i == inp and _consistent(log, g)]
            for res in cons:
                if res[0] == 'panic':
                    continue
                if res[0] != want:
                    bad.append((g, res[0], want))
            if not cons:
                bad.append((g, 'no path', want))
        ok = not bad

        def show(l):
            if isinstance(l, str):
                return l
            return 'modified=%s removed=%s' % (['k@' + x[1][1] for x in l[0]], ['k@' + x[1][1] for x in l[1]])
        ctx.ob(rule, 'diff|%s' % merge_label(inp), ok, _site(body),
               'diff lists the peer\'s entry exactly when this replica lacks it (%s)' % merge_label(inp) if ok else
               'diff with %s%s must give %s but gives %s: %s' % (merge_label(inp), ' and the stamp %sbefore our purge cut-off' % ('' if bad[0][0] else 'not ') if s == 'none' else '',
                                                               show(bad[0][2]), show(bad[0][1]),
                                                               'an entry this replica lacks is never fetched' if (isinstance(bad[0][1], list) and len(bad[0][1][0]) + len(bad[0][1][1]) < len(bad[0][2][0]) + len(bad[0][2][1]))
                                                               else 'an entry is listed that this replica already has / listed as the wrong kind (repair keeps re-fetching, or applies a removal as a modification)'),
               witness={'abstract_input': merge_label(inp), 'mismatches': [{'before_cutoff': a, 'got': show(b), 'expected': show(c)} for a, b, c in bad]})
    return True


def check_purge(ctx, facts, rule):
    """purge removes exactly the tombstones whose stamp is before the purge cut-off, returns exactly those, and touches nothing else"""
    try:
        roles = Roles(facts)
        body = roles.method(facts, 'purge_old_deletes')
        if body is None:
            raise Unmodelled('OrSWotSet::purge_old_deletes not found')
        table = {}
        inputs = ['dead', 'live', 'none', 'both']
        for inp in inputs:
            def run(choices, inp=inp):
                it = Interp(facts, Order({}), opaque_call=versions_oracle)
                it.choices = list(choices)
                selfv = roles.make_set(live={'k': 'e'} if inp in ('live', 'both') else None, dead={'k': 'd'} if inp in ('dead', 'both') else None)
                res = it.deref_all(it.run_body(body, arg_values(body, roles, selfv)))
                if res[0] != 'vec':
                    raise Unmodelled('purge returns %s' % res[0])
                out = [(it.deref_all(x)[1][0].v, it.deref_all(x)[1][1].v) for x in res[1]]
                live, dead = roles.read_set(selfv)
                return it.oracle_log, (out, live.get('k'), dead.get('k'))
            for log, res in explore(run):
                table[(inp, tuple(log))] = res
        # several tombstones, standing for a set with any number of them (lengths compared with constants above the shown size are
        # undecided): every tombstone is either returned — exactly when ITS stamp is before the cut-off — or kept; none vanishes
        many = {'k1': 'd1', 'k2': 'd2', 'k3': 'd3'}

        def by_stamp(interp, name, args, t, body):
            v = interp.deref_all(args[0]) if args else None
            if v is not None and v[0] == 'opaque' and str(v[1]).startswith('versions') and body.local_ty(t['dest']['l']) == 'bool':
                st = [interp.deref_all(x) for x in args[1:]]
                st = [x[1] for x in st if x is not None and x[0] == 'ts']
                if len(st) == 1:
                    prev = [val for lab, val in interp.oracle_log if lab == 'versions|' + st[0]]
                    if prev:
                        return absint.mk_bool(prev[0])       # one answer per stamp
                    return absint.mk_bool(interp.choose('versions|' + st[0]))
            return versions_oracle(interp, name, args, t, body)
        many_results = []

        def run_many(choices):
            it = Interp(facts, Order({}), opaque_call=by_stamp)
            it.symbolic_len = 'bounded'
            it.choices = list(choices)
            selfv = roles.make_set(live={'k0': 'e'}, dead=dict(many))
            res = it.deref_all(it.run_body(body, arg_values(body, roles, selfv)))
            if res[0] != 'vec':
                raise Unmodelled('purge returns %s' % res[0])
            out = sorted((it.deref_all(x)[1][0].v[1], it.deref_all(x)[1][1].v[1]) for x in res[1])
            live, dead = roles.read_set(selfv)
            return it.oracle_log, (out, dict(live), dict(dead))
        for log, res in explore(run_many):
            many_results.append((log, res))
    except (Unmodelled, IndexError, TypeError) as e:
        return _fallback(ctx, rule, e)
    bad_many = []
    n_many = 0
    for log, res in many_results:
        if res[0] == 'panic':
            continue
        ans = {lab.split('|', 1)[1]: val for lab, val in log if lab.startswith('versions|')}
        if any(lab.startswith('versions') and '|' not in lab for lab, _v in log):
            continue        # the cut-off is not asked per stamp: covered by the single-tombstone scenarios only
        n_many += 1
        out, live, dead = res
        # (C08 does not require that EVERY purgeable tombstone goes in one call — a purge that works in batches and keeps the rest is fine)
        returned = [o[0] for o in out]
        fresh_lost = [k for k, d in many.items() if ans.get(d) is not True and (k not in dead or k in returned)]
        wrong = [o for o in out if many.get(o[0]) != o[1]]
        if fresh_lost or wrong or live != {'k0': 'e'}:
            bad_many.append('with the stamps before the cut-off: %s the purge returns %s and keeps the tombstones %s%s' % (
                {d: a for d, a in sorted(ans.items())}, out, sorted(dead),
                ' — the tombstone of %s is NOT before the cut-off and is gone after the purge: an older write for that key that is still on its way is accepted again and '
                'the deleted document reappears on this replica only' % fresh_lost if fresh_lost else
                (' — the live entries changed: %s' % live if live != {'k0': 'e'} else ' — something that is not a tombstone of the set is returned')))
    if n_many:
        ctx.ob(rule, 'purge|several tombstones (a set of any size)', not bad_many, _site(body),
               'purge on several tombstones (standing for any number): no tombstone whose stamp is not before the cut-off is removed or returned, live entries are untouched, on all %d paths' % n_many
               if not bad_many else bad_many[0])
    for inp in inputs:
        bad = []
        for g in (False, True):
            if inp == 'dead':
                want = ([(('key', 'k'), ('ts', 'd'))], None, None) if g else ([], None, 'd')
            elif inp == 'live':
                want = ([], 'e', None)
            elif inp == 'both':
                want = ([(('key', 'k'), ('ts', 'd'))], 'e', None) if g else ([], 'e', 'd')
            else:
                want = ([], None, None)
            cons = [res for (i, log), res in table.items() if i == inp and _consistent(log, g)]
            for res in cons:
                if res[0] == 'panic':
                    continue
                if tuple(res) != want:
                    bad.append((g, res, want))
            if not cons:
                bad.append((g, 'no path', want))
        ok = not bad
        lab = {'dead': 'a tombstone', 'live': 'a live key', 'none': 'an empty set', 'both': 'a key that is live and tombstoned (defensive)'}[inp]
        ctx.ob(rule, 'purge|%s' % lab, ok, _site(body),
               'purge on %s: removes and returns the tombstone exactly when its stamp is before the purge cut-off, nothing else changes' % lab if ok else
               'purge on %s with the stamp %sbefore the purge cut-off: expected (returned, live, tombstone) = %s, the code gives %s' % (lab, '' if bad[0][0] else 'not ', bad[0][2], bad[0][1]),
               witness={'abstract_input': lab, 'mismatches': [{'before_cutoff': a, 'got': str(b), 'expected': str(c)} for a, b, c in bad]})
    return True


def check_wrappers(ctx, facts, rule):
    """the source-less `insert` / `delete` (used by the restart replay and by single-source sets) ARE `insert_with_source` /
    `delete_with_source` under one constant source: interpreted with the set opaque and the two sourced mutators recorded effects, a
    wrapper makes exactly one call to its twin with the caller's key and stamp, returns its answer, and touches the set through nothing
    else.  (Round 6, C07f: wrappers that first marked the stamp as observed on every other source made a restarted node claim the repair
    source had seen everything — it then discards older peer entries it lacks.)"""
    try:
        roles = Roles(facts)
        done = 0
        for wname, twin in (('insert', 'insert_with_source'), ('delete', 'delete_with_source')):
            body = roles.method(facts, wname)
            if body is None or body.cfg is None:
                continue
            bad = []
            for answer in (True, False):
                calls = []
                other = []

                def hook(interp, name, args, t, b, calls=calls, other=other, answer=answer):
                    seg = last_seg(name)
                    a0 = interp.deref_all(args[0]) if args else None
                    on_set = a0 is not None and a0[0] == 'opaque' and str(a0[1]).startswith('the-set')
                    if name.startswith(CR + '::') and on_set:
                        if seg in ('insert_with_source', 'delete_with_source'):
                            calls.append((seg, [interp.deref_all(a) for a in args[1:]]))
                            return mk_bool(answer)
                        other.append(name)
                        ty = b.local_ty(t['dest']['l'])
                        return ('bool', None) if ty == 'bool' else UNIT if ty == '()' else ('opaque', 'r')
                    return None
                it = Interp(facts, Order({}), opaque_call=hook, step_limit=20000)
                it.opaque_fields = True
                r = it.deref_all(it.run_body(body, [('ref', Cell(('opaque', 'the-set'))), ('key', 'k'), ('ts', 'in')]))
                label = 'the sourced mutator answers %s' % answer
                if len(calls) != 1 or calls[0][0] != twin:
                    bad.append('%s: `%s` makes %d call(s) to the sourced mutators (%s), expected exactly one to `%s`' % (label, wname, len(calls), ', '.join(c[0] for c in calls), twin))
                    continue
                src, k, ts = (calls[0][1] + [None, None, None])[:3]
                if src is None or src[0] != 'int' or src[1] is None:
                    bad.append('%s: the source `%s` applies the operation under is not a constant' % (label, wname))
                if k != ('key', 'k') or ts != ('ts', 'in'):
                    bad.append('%s: `%s` hands its twin another key / stamp than the caller\'s (%s, %s)' % (label, wname, k, ts))
                if other:
                    bad.append('%s: `%s` also touches the set through %s — the replayed operation must leave the set exactly as the sourced mutator does' % (label, wname, ', '.join(sorted(set(last_seg(o) for o in other)))))
                if r is None or r[0] != 'bool' or r[1] is not answer:
                    bad.append('%s: `%s` does not return its twin\'s answer' % (label, wname))
            done += 1
            ctx.ob(rule, 'wrapper|%s' % wname, not bad, '%s:%s' % (body.file, body.line),
                   'OrSWotSet::%s is %s under one constant source, nothing else' % (wname, twin) if not bad else bad[0])
        return done > 0
    except (Unmodelled, NeedChoice, PanicPath, IndexError, TypeError, KeyError, AttributeError, RecursionError) as e:
        return _fallback(ctx, rule, e)
