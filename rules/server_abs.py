"""C13.G4 / C12.F4 (server side): one request through the RPC server, interpreted (P-TRACE).

The connection handler (found by signature: the coroutine taking a hyper request, the server state and the peer address) is
interpreted on a request for path `p` against a registry that does / does not hold a handler for hash(p), and against both
answers a handler can give.  The real registry code (ServerState::get_handler) runs underneath; the handler call and the
serialiser are effects recorded in the trace.  Decided: a handler runs only when the registry holds it, exactly once; its
reply is sent unchanged with status OK; its error status — and the `unknown service` status when the registry has no handler —
is sent as the serialisation of THAT status with a non-OK code."""
import absint
from absint import Interp, Order, Cell, MapObj, Unmodelled, UNIT, mk_option
from facts import strip_generics, last_seg, ty_head
import actor_abs
from actor_abs import World, ok, err, build_value, upvar_types
import registry_abs


def find_entry(facts):
    out = []
    for b in facts.bodies.values():
        if b.crate != 'datacake_rpc' or b.kind != 'coroutine' or b.d['promoted'] or b.cfg is None:
            continue
        ups = upvar_types(b)
        tys = list(ups.values())
        if len(tys) == 3 and any(t.startswith('http::request::Request<') for t in tys) and any(t.endswith('::ServerState') for t in tys) \
                and any('SocketAddr' in t for t in tys) and 'Infallible' in b.local_ty(0):
            out.append((b, ups))
    if not out:
        # the same entry as a plain function that takes (request, state, peer address) and RETURNS the future (an async block built
        # after the request was taken apart): interpreted by calling the function and polling what it returns
        for b in facts.bodies.values():
            if b.crate != 'datacake_rpc' or b.kind != 'fn' or b.d['promoted'] or b.argc != 3:
                continue
            tys = [b.local_ty(i) for i in (1, 2, 3)]
            if any(t.startswith('http::request::Request<') for t in tys) and any(t.endswith('::ServerState') for t in tys) and any('SocketAddr' in t for t in tys) \
                    and 'Infallible' in b.local_ty(0):
                out.append((b, {i - 1: t for i, t in zip((1, 2, 3), tys)}))
    if not out:
        # the same entry as an implementation of the HTTP service trait: `<T as Service<Request<..>>>::call(&mut self, req)` on a type
        # that holds the server state and the peer address, returning the (boxed) future of the request
        for b in facts.bodies.values():
            if b.crate != 'datacake_rpc' or b.kind != 'method' or b.d['promoted'] or b.argc != 2 or not b.impl or not b.name.endswith('::call'):
                continue
            if 'Service<http::request::Request<' not in b.impl or not b.local_ty(2).startswith('http::request::Request<') or 'Infallible' not in b.local_ty(0):
                continue
            self_ty = ty_head(b.local_ty(1).lstrip('&').replace('mut ', '').strip())
            a = facts.adts.get(self_ty)
            if a is None or a['kind'] != 'struct':
                continue
            ftys = [f['ty'] for f in a['variants'][0]['fields']]
            if any(t.endswith('::ServerState') for t in ftys) and any('SocketAddr' in t for t in ftys):
                out.append((b, {'service': self_ty, 'fields': ftys}))
    return out


def hook_factory(plan):
    """plan['handler'] : 'ok' | 'err'"""
    def hook(world, interp, name, args, t, body):
        seg = last_seg(name)
        if plan.get('state_hook') is not None:
            r = plan['state_hook'](interp, name, args, t, body)
        else:
            r = registry_abs.hook(interp, name, args, t, body)
        if r is not None:
            return r
        if name in ('alloc::boxed::Box::pin', 'alloc::boxed::Box::new', 'core::pin::Pin::new', 'core::pin::Pin::new_unchecked', 'alloc::boxed::Box::into_pin') and args:
            return args[0]
        if name == 'http::request::Request::into_parts':
            parts = ('adt', 'http::request::Parts', 0, [Cell(('opaque', 'method')), Cell(('uri', 'p')), Cell(('opaque', 'version')), Cell(('headers',)),
                                                        Cell(('opaque', 'extensions')), Cell(UNIT)])
            return ('tuple', [Cell(parts), Cell(('hbody', 'request'))])
        if name == 'http::uri::Uri::path':
            return ('ref', Cell(('key', plan.get('path', 'p'))))
        if name.endswith('::OpaqueMessageHandler::try_handle'):
            h = interp.deref_all(args[0])
            inst_ = registry_abs.find_instance(interp, args[0]) if not (h and h[0] == 'handler') else None
            world.trace.append(('handle', h[1] if h and h[0] == 'handler' else (inst_ if inst_ is not None else h)))
            body_ty = None
            if plan['handler'] == 'ok':
                return ('future', 'ready', ok(world.make_body(('hbody', 'reply'))))
            return ('future', 'ready', err(('status', 'handler-status')))
        if name.endswith('::rkyv_tooling::to_view_bytes'):
            st = interp.deref_all(args[0])
            world.trace.append(('serialise', st))
            return ok(('frame', world.status_id(st)))
        if name in ('alloc::fmt::format', 'alloc::fmt::format::format_inner') or name.startswith('core::fmt::'):
            return ('opaque', 'string')
        if name == 'http::response::Response::new':
            return ('adt', 'http::response::Response', 0, [Cell(('code', 'http::status::StatusCode::OK')), Cell(args[0])])
        if name == 'http::response::Response::status_mut':
            r_ = interp.deref_all(args[0])
            return ('ref', r_[3][0])
        if name == 'http::response::Response::body_mut':
            r_ = interp.deref_all(args[0])
            return ('ref', r_[3][1])
        if name in ('core::convert::Into::into', 'core::convert::From::from') and args:
            res_ = strip_generics(t.get('resolved') or '')
            if not (res_ and world.facts.body(res_) is not None):       # (a workspace conversion is interpreted, not skipped)
                return args[0]
        a0 = interp.deref_all(args[0]) if args else None
        if a0 is not None and a0[0] == 'key' and name.startswith(('core::str::', 'alloc::str::', 'alloc::string::String::', '<str as ', '<alloc::string::String as ')):
            # a string operation on the request path: the same text (owned / borrowed copies) or some OTHER text
            same = seg in ('to_owned', 'to_string', 'clone', 'as_str', 'as_ref', 'borrow', 'deref', 'into', 'from', 'into_boxed_str', 'into_string')
            v = a0 if same else ('key', a0[1] + '~' + seg)
            return ('ref', Cell(v)) if body.local_ty(t['dest']['l']).startswith('&') else v
        if a0 is not None and a0[0] in ('frame', 'hbody') and (name.startswith('rkyv::') or name.startswith('alloc::') or name.startswith('core::') or name.startswith('bytes::')
                                                               or name.startswith('hyper::')):
            if seg in ('to_vec', 'into_vec', 'as_slice', 'clone', 'into', 'from', 'as_ref', 'deref', 'to_owned', 'copy_from_slice', 'into_boxed_slice', 'borrow'):
                return ('ref', Cell(a0)) if body.local_ty(t['dest']['l']).startswith('&') else a0
        if name.startswith('tracing') or '::__macro_support' in name or name.startswith('tracing_core') or name.startswith('log::'):
            return ('bool', False) if body.local_ty(t['dest']['l']) == 'bool' else ('opaque', 'tracing')
        return None
    return hook


class ServerWorld(World):
    def __init__(self, facts, plan):
        World.__init__(self, hooks=[hook_factory(plan)])
        self.facts = facts
        body_adts = [n for n in facts.adts if n.startswith('datacake_rpc::') and n.endswith('::body::Body')]
        self.body_adt = body_adts[0] if body_adts else None

    def make_body(self, inner):
        if self.body_adt is None:
            return inner
        return ('adt', self.body_adt, 0, [Cell(inner)])

    def status_id(self, st):
        """what a Status value is: the handler's, or one built by the workspace constructors (its error code variant)"""
        if st is None:
            return None
        if st[0] == 'status':
            return st[1]
        if st[0] == 'adt' and st[1].endswith('::Status'):
            code = st[3][0].v
            if code is not None and code[0] == 'adt':
                a = self.facts.adts.get(code[1])
                return 'built:' + (a['variants'][code[2]]['name'] if a else str(code[2]))
        return 'other'


def check_dispatch(ctx, facts, rule, cfg_label=''):
    from orswot_abs import _fallback
    try:
        ents = find_entry(facts)
        if len(ents) != 1:
            raise Unmodelled('connection handler not identified by signature (%d candidates)' % len(ents))
        entry, ups = ents[0]
        try:
            registry_abs.build_state(facts, True)
            roles = None        # the registry is built through the server's own constructor and add_service (any representation)
        except (Unmodelled, absint.PanicPath, IndexError, TypeError, KeyError, AttributeError):
            roles = registry_abs.Roles(facts)
        out = {}
        for registered in (False, True):
            for answer in ('ok', 'err'):
                def run(choices, registered=registered, answer=answer):
                    plan = {'handler': answer}
                    if roles is None:
                        state, shook, upath = registry_abs.build_state(facts, registered)
                        plan['state_hook'] = shook
                        plan['path'] = upath
                    world = ServerWorld(facts, plan)
                    if roles is not None:
                        state = roles.make({'S': {'h:p'}} if registered else {'T': {'h:other'}}, {'h:p': 'H'} if registered else {'h:other': 'X'})
                    if 'service' in ups:
                        # the service object: its fields by type
                        selfv = ('adt', ups['service'], 0, [Cell(state if ty.endswith('::ServerState') else ('opaque', 'remote-addr' if 'SocketAddr' in ty else 'field'))
                                                             for ty in ups['fields']])
                        it = Interp(facts, Order({}), opaque_call=world.call)
                        it.poll_hook = world.poll
                        it.unknown_call = actor_abs.lenient_unknown
                        it.choices = list(choices)
                        fut = it.deref_all(it.run_body(entry, [('ref', Cell(selfv)), ('request',)]))
                        while fut is not None and fut[0] == 'adt' and fut[3] and (fut[1].endswith('::Pin') or fut[1].endswith('::Box')):
                            fut = it.deref_all(fut[3][0].v)
                        if fut is None or fut[0] != 'closure':
                            raise Unmodelled('the service call does not return its future')
                        pr = it.deref_all(it.poll_coroutine(('ref', Cell(fut)), 0))
                        r = pr[3][0].v if pr and pr[0] == 'adt' and pr[3] else None
                        return it.oracle_log, (list(world.trace), r)
                    upv = {}
                    for i, ty in ups.items():
                        if ty.startswith('http::request::Request<'):
                            upv[i] = ('request',)
                        elif ty.endswith('::ServerState'):
                            upv[i] = state
                        else:
                            upv[i] = ('opaque', 'remote-addr')
                    it = Interp(facts, Order({}), opaque_call=world.call)
                    it.poll_hook = world.poll
                    it.unknown_call = actor_abs.lenient_unknown
                    it.choices = list(choices)
                    n = max(upv) + 1
                    if entry.kind == 'fn':
                        fut = it.deref_all(it.run_body(entry, [upv.get(i, ('opaque', 'u')) for i in range(n)]))
                        if fut is None or fut[0] != 'closure':
                            raise Unmodelled('the connection entry does not return its future')
                        pr = it.deref_all(it.poll_coroutine(('ref', Cell(fut)), 0))
                        r = pr[3][0].v if pr and pr[0] == 'adt' and pr[3] else None
                    else:
                        st = ('closure', entry.defp, [Cell(upv.get(i, ('opaque', 'u'))) for i in range(n)])
                        r = it.run_body(entry, [st, ('opaque', 'cx')])
                    return it.oracle_log, (list(world.trace), r)
                out[(registered, answer)] = absint.explore(run)
    except (Unmodelled, absint.NeedChoice, IndexError, TypeError, KeyError, AttributeError) as e:
        return _fallback(ctx, rule, e)
    site_ = '%s:%s' % (entry.file, entry.line)

    def response_of(r):
        if r is None or r[0] != 'adt' or r[1] != 'core::result::Result' or r[2] != 0:
            return None
        resp = r[3][0].v
        if resp is None or resp[0] != 'adt' or not resp[1].endswith('Response'):
            return None
        code = resp[3][0].v
        body = resp[3][1].v
        # unwrap the workspace Body newtype
        while body is not None and body[0] == 'adt' and body[3]:
            body = body[3][0].v
        cname_ = code[1] if code and code[0] in ('code', 'const') else str(code)
        return cname_.rsplit('::', 1)[-1], body

    for (registered, answer), results in out.items():
        if not registered and answer == 'err':
            continue
        bad = []
        seen = 0
        for log, res in results:
            if res and res[0] == 'panic':
                bad.append('a path panics')
                continue
            seen += 1
            trace, r = res
            handles = [e for e in trace if e[0] == 'handle']
            resp = response_of(r)
            if resp is None:
                bad.append('no response is produced')
                continue
            code, body = resp
            if not registered:
                if handles:
                    bad.append('a handler (%s) runs although the registry holds none for the path' % (handles[0][1],))
                if code == 'OK' or body != ('frame', 'built:ServiceUnavailable'):
                    bad.append('an unknown service is answered with code %s and body %s (expected a non-OK code and the serialised `service unavailable` status)' % (code, body))
            elif answer == 'ok':
                if [h[1] for h in handles] != ['H']:
                    bad.append('the registered handler runs %d times (%s)' % (len(handles), [h[1] for h in handles]))
                if code != 'OK' or body != ('hbody', 'reply'):
                    bad.append('the handler\'s reply is answered with code %s and body %s (expected OK and the reply unchanged)' % (code, body))
            else:
                if [h[1] for h in handles] != ['H']:
                    bad.append('the registered handler runs %d times' % len(handles))
                if code == 'OK' or body != ('frame', 'handler-status'):
                    bad.append('a handler error is answered with code %s and body %s (expected a non-OK code and the serialisation of the status the handler returned — '
                               'a frame built from anything else gives the client another code / message)' % (code, body))
        ok_ = seen > 0 and not bad
        lab = ('no handler registered for the path' if not registered else 'handler registered, %s' % ('replies' if answer == 'ok' else 'returns an error status'))
        ctx.ob(rule, '%sdispatch|%s' % (cfg_label, lab), ok_, site_,
               'request with %s: dispatched through the registry and answered as specified' % lab if ok_ else 'request with %s: %s' % (lab, bad[0] if bad else 'no path'))
    return True
