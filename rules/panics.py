"""P-PANIC: may-panic sites reachable from a set of root bodies (workspace callees followed)."""
import re
from facts import op_local, op_const, const_int, strip_generics
from analysis import cname, const_fold_reachable, CallGraph, closure_aggregates
import tables

TIME_TYPES = ('core::time::Duration', 'std::time::Instant', 'std::time::SystemTime')
INT_MAX = {'u8': 2**8 - 1, 'u16': 2**16 - 1, 'u32': 2**32 - 1, 'u64': 2**64 - 1, 'usize': 2**64 - 1}


def _def_of(body, local):
    defs = [s for _b, _j, s in body.assigns() if s['lhs']['l'] == local and not s['lhs']['p']]
    return defs[0] if len(defs) == 1 else None


def _max_of(body, op, depth=0):
    """upper bound of an unsigned operand, or None"""
    c = const_int(op)
    if c is not None:
        return c
    l = op_local(op)
    if l is None or depth > 6:
        return None
    d = _def_of(body, l)
    ty_max = INT_MAX.get(body.local_ty(l))
    if d is None:
        return ty_max
    rv = d['rv']
    if rv['k'] == 'use':
        return _max_of(body, rv['op'], depth + 1) or ty_max
    if rv['k'] == 'cast' and rv['ck'] == 'IntToInt':
        m = _max_of(body, rv['op'], depth + 1)
        if m is not None and ty_max is not None:
            return min(m, ty_max)
        return ty_max
    return ty_max


def _const_of(body, op, depth=0):
    c = const_int(op)
    if c is not None:
        return c
    l = op_local(op)
    if l is None or depth > 4 or (op.get('pl') or {}).get('p'):
        return None
    d = _def_of(body, l)
    if d is None:
        return None
    rv = d['rv']
    if rv['k'] == 'use' or (rv['k'] == 'cast' and rv['ck'] == 'IntToInt'):
        return _const_of(body, rv['op'], depth + 1)
    return None


def assert_may_fail(body, t):
    cond = t['cond']
    c = const_int(cond)
    if c is not None:
        return bool(c) != t['expected']
    pl = cond.get('pl') if cond.get('k') in ('copy', 'move') else None
    if pl is None:
        return True
    d = _def_of(body, pl['l'])
    if d is None:
        return True
    rv = d['rv']
    if not pl['p'] and rv['k'] == 'bin':
        a, b = _const_of(body, rv['a']), _const_of(body, rv['b'])
        if a is not None and b is not None:
            val = {'Lt': a < b, 'Le': a <= b, 'Gt': a > b, 'Ge': a >= b, 'Eq': a == b, 'Ne': a != b}.get(rv['op'])
            if val is not None:
                return val != t['expected']
    # overflow flag of a checked arithmetic op: `_x = MulWithOverflow(a, b); assert(!_x.1)`
    if pl['p'] and isinstance(pl['p'][0], dict) and pl['p'][0].get('f') == 1 and rv['k'] == 'bin' and rv['op'].endswith('WithOverflow'):
        ma, mb = _max_of(body, rv['a']), _max_of(body, rv['b'])
        m = re.match(r'\((u8|u16|u32|u64|usize), bool\)', body.local_ty(pl['l']))
        if ma is not None and mb is not None and m and t['expected'] is False:
            lim = INT_MAX[m.group(1)]
            if rv['op'].startswith('Mul') and ma * mb <= lim:
                return False
            if rv['op'].startswith('Add') and ma + mb <= lim:
                return False
    return True


def sites_in(body):
    out = []
    reach = const_fold_reachable(body)
    for i in sorted(reach):
        blk = body.blocks[i]
        if blk['cleanup']:
            continue
        t = blk['t']
        if t['k'] == 'assert':
            if t['msg'] in ('misaligned', 'nullptr'):
                continue
            if assert_may_fail(body, t):
                out.append((t['cs'], 'assert:%s' % t['msg'], 'arithmetic / bounds check emitted by rustc can fail'))
        elif t['k'] == 'call':
            n = cname(t)
            if n in tables.MAY_PANIC:
                if n.startswith('core::ops::arith::'):
                    self_ty = (t.get('gargs') or [''])[0]
                    if not self_ty.startswith(TIME_TYPES):
                        continue
                out.append((t['cs'], n, tables.MAY_PANIC[n]))
            elif n == 'core::num::<impl u16>::from_str_radix' or (n and n.endswith('::from_str_radix')):
                r = _const_of(body, t['args'][1]) if len(t['args']) > 1 else None      # (a constant, also when it arrives through a copy: an inlined helper's parameter)
                if r is None or not (2 <= r <= 36):
                    out.append((t['cs'], n, 'radix not a constant in 2..=36'))
    return out


def reachable_panics(facts, cg, roots, bound=8):
    """[(body, line, what, why, path)] for may-panic sites reachable from roots"""
    seen = {}
    work = [(r, (r.name,)) for r in roots]
    out = []
    while work:
        b, path = work.pop()
        if b.defp in seen:
            continue
        seen[b.defp] = path
        for line, what, why in sites_in(b):
            out.append((b, line, what, why, path))
        if len(path) >= bound:
            continue
        reach = const_fold_reachable(b)
        for blk, t in b.calls():
            if blk not in reach:
                continue
            for cb in cg.targets(t):
                if cb.defp not in seen:
                    work.append((cb, path + (cb.name,)))
        for blk, s, cdef, ops in closure_aggregates(b):
            cb = facts.bodies.get(cdef)
            if cb is not None and cb.defp not in seen and blk in reach:
                work.append((cb, path + (cb.name,)))
    return out, seen
