"""C01 — cluster converges to the last-writer-wins documents.  DESIGN §5 C01.
Convergence over histories / schedules is NOT decided; necessary structural conditions of repair-based convergence are."""
from analysis import *  # noqa
from facts import strip_generics, op_local, op_const, const_int, last_seg, ty_head
from engine import site
import c02
import c05

CONFIGS = ['prod']
EXPLANATION = (
    'The whole property (convergence for all histories, delivery schedules and repair orders) is a runtime statement and is NOT decided. '
    'S3.SEM: the supervision of one repair exchange interpreted against scripted progress histories and both outcomes of the removal task (Ok <=> done seen, never expired, removals joined '
    'and succeeded). S7.SEM: the poller interpreted over three polling rounds against two peers — every keyspace a peer lists whose change stamp is not the one recorded at that peer\'s last successful exchange of it has its difference computed against that peer and is exchanged with it (the tracker and KeyspaceTimestamps::diff are the real code). S9.SEM: the progress tracker and its watcher interpreted (atomics as shared cells, elapsed time an oracle): done is exactly what the task set on its copy of the tracker, expired exactly a timeout without registered progress, per exchange. S8: the mechanisms convergence rests on re-evaluated under C01 (the hybrid clock\'s send / recv, the set\'s insert / delete / merge / diff and its version vectors, the clock actor and its handle — the same summaries that decide C09, C04, C03, C05, C11). Decided necessary conditions of repair-based convergence: S1 source-id discipline — every keyspace message built on the client / '
    'consistency-service path carries the ordered-stream source id and every one built on the repair path carries the repair source id, '
    'the two constants differ and are below the number of sources (mixing the ordered and the unordered stream on one source makes a '
    'replica refuse operations it lacks, permanently); S2 every locally accepted client mutation is handed to the batch distributor on '
    'every path after the local write, also when direct replication fails, with the matching mutation kind; S6 the GetState handler reads the change stamp of the keyspace before it takes the state snapshot; S3 repair bookkeeping — the '
    'peer\'s keyspace stamp is recorded only on the success edge of the exchange, the exchange reports Ok only after the removal task was '
    'joined successfully and the modification task reported done, and "done" is set only after every chunk was fetched and applied; '
    'S4 every actor handler that mutates the set also bumps the keyspace change stamp; S5 the two diff lists reach the right application '
    '(= C05.D1, evaluated here as well). S6 (gate agreement) is reported under C02/C04.')
ASSUMPTIONS = ['membership events deliver the live peers (C16)', 'one keyspace state per name (C18)']

EC = 'datacake_eventual_consistency::'
MSG = EC + 'keyspace::messages::'
MSGS = {MSG + m for m in ('Set', 'MultiSet', 'Del', 'MultiDel')}
SEND = 'puppet::ActorMailbox::send'
API = {'put': 'Put', 'put_many': 'MultiPut', 'del': 'Del', 'del_many': 'MultiDel'}


def const_of_operand(facts, body, op):
    c = op_const(op)
    if c is not None:
        return c.get('uneval'), (int(c['val']) if 'val' in c else None)
    l = op_local(op)
    if l is None:
        return None, None
    for _b, _j, s in body.assigns():
        if s['lhs']['l'] == l and not s['lhs']['p'] and s['rv']['k'] == 'use':
            return const_of_operand(facts, body, s['rv']['op'])
    return None, None


def named_const_value(facts, path):
    b = facts.body(path)
    if b is None:
        return None
    for _b, _j, s in b.assigns():
        if s['lhs']['l'] == 0 and s['rv']['k'] == 'use':
            return const_int(s['rv']['op'])
    return None


def check_S1(ctx, facts, cg, rule='C01.S1'):
    cons_roots = [b for b in facts.bodies.values() if not b.d['promoted'] and (
        re.match(re.escape(EC) + r'ReplicatedStoreHandle::(put|put_many|del|del_many)$', b.name) or
        (b.impl and 'ConsistencyService' in b.impl and 'datacake_rpc::handler::Handler' in b.impl and b.name.endswith('::on_message')))]
    rep_roots = [b for b in facts.bodies.values() if b.name == EC + 'replication::poller::replication_cycle']
    if len(cons_roots) < 9 or not rep_roots:
        ctx.bad(rule, 'roots', '', 'client API / ConsistencyService handlers / replication_cycle not all found (%d, %d) (fail closed)' % (len(cons_roots), len(rep_roots)))
        return
    cons_reach = {b.defp for b in cg.reach(cons_roots, bound=10)}
    rep_reach = {b.defp for b in cg.reach(rep_roots, bound=10)}
    C = named_const_value(facts, EC + 'keyspace::CONSISTENCY_SOURCE_ID')
    R = named_const_value(facts, EC + 'keyspace::READ_REPAIR_SOURCE_ID')
    N = named_const_value(facts, EC + 'keyspace::messages::NUM_SOURCES')
    ctx.ob(rule, 'constants', C is not None and R is not None and N is not None and C != R and C < N and R < N, '',
           'CONSISTENCY_SOURCE_ID=%s READ_REPAIR_SOURCE_ID=%s NUM_SOURCES=%s (must differ, both below NUM_SOURCES)' % (C, R, N))
    n_cons = n_rep = 0
    for body in facts.bodies.values():
        if body.crate != 'datacake_eventual_consistency' or body.d['promoted']:
            continue
        for blk, j, s in body.assigns():
            rv = s['rv']
            if rv['k'] != 'aggregate' or rv.get('agg') != 'adt' or strip_generics(rv['adt']) not in MSGS:
                continue
            fl = dict(zip(rv['fields'], rv['ops']))
            path, val = const_of_operand(facts, body, fl.get('source'))
            on_cons, on_rep = body.defp in cons_reach, body.defp in rep_reach
            role = 'consistency' if on_cons and not on_rep else 'repair' if on_rep and not on_cons else 'both' if on_cons and on_rep else 'unreached'
            want = C if role == 'consistency' else R if role == 'repair' else None
            where = body.name.replace(EC, '').replace('::{closure#0}', '')
            idx = len([o for o in ctx.obs if o.rule == rule and o.key.startswith('%s|%s#' % (where, last_seg(rv['adt'])))])
            key = '%s|%s#%d' % (where, last_seg(rv['adt']), idx)
            if role == 'consistency':
                n_cons += 1
            elif role == 'repair':
                n_rep += 1
            if val is None:
                ctx.bad(rule, key, site(body, s['cs']), 'source id of this %s message is not a compile-time constant' % last_seg(rv['adt']))
            elif want is None:
                ctx.bad(rule, key, site(body, s['cs']), 'message construction site is on %s path(s): cannot assign a stream (fail closed)' % role)
            else:
                ctx.ob(rule, key, val == want, site(body, s['cs']),
                       '%s message on the %s path carries source %s (%s)' % (last_seg(rv['adt']), role, val, last_seg(path or '?')) +
                       ('' if val == want else ' — expected %s: the ordered broadcast stream and the unordered repair stream share one source, so '
                        'a replica that saw a newer operation of an origin on that source refuses the older ones it still lacks' % want))
    ctx.floor(rule, 'message sites on the client/consistency path', n_cons, 10)
    ctx.floor(rule, 'message sites on the repair path', n_rep, 3)


def check_S2(ctx, facts):
    for m, variant in sorted(API.items()):
        body = None
        for cand in facts.bodies.values():
            if cand.kind == 'coroutine' and cand.name == EC + 'ReplicatedStoreHandle::%s::{closure#0}' % m:
                body = cand
        if body is None:
            ctx.bad('C01.S2', m, '', 'ReplicatedStoreHandle::%s not found' % m)
            continue
        flow = Flow(body)
        calls = list(body.calls())
        sends = [(b, t) for b, t in calls if cname(t) == SEND]
        muts = [(b, t) for b, t in calls if cname(t) == EC + 'replication::distributor::TaskDistributor::mutation']
        if len(sends) != 1:
            ctx.bad('C01.S2', m, site(body), 'expected exactly one local keyspace send')
            continue
        re_ = ResultEdges(body, flow, sends[0][0])
        starts = [e[1] for e in re_.ok]
        mb = [b for b, t in muts]
        good = bool(mb) and bool(starts) and body.must_pass(starts, mb, body.return_blocks()) and all(re_.ok_dominates(b) for b in mb)
        ctx.ob('C01.S2', m + '|registered', good, site(body, muts[0][1]['cs'] if muts else None),
               'after a successful local write the mutation is handed to the batch distributor on every path to return' if good else
               'a locally accepted write can return without being handed to the batch distributor: replicas that missed the direct '
               'replication only learn of it through the next repair cycle (or never, if the origin goes away)')
        # the variant matches the operation
        for b, t in muts:
            l = op_local(t['args'][1])
            v = None
            for _b, _j, s in body.assigns():
                if s['lhs']['l'] in flow.backward([l]) and s['rv']['k'] == 'aggregate' and s['rv'].get('agg') == 'adt' and 'distributor::Mutation' in s['rv']['adt']:
                    v = s['rv']['vname']
            ctx.ob('C01.S2', m + '|kind', v == variant, site(body, t['cs']), '%s registers Mutation::%s' % (m, v) + ('' if v == variant else ' (expected %s)' % variant))


def check_S2b(ctx, facts):
    """the hand-over to the batch distributor cannot drop the mutation: an unbounded queue and a plain send"""
    D = EC + 'replication::distributor::'
    m = facts.body(D + 'TaskDistributor::mutation')
    st = [b for b in facts.bodies.values() if b.kind == 'coroutine' and b.name.startswith(D + 'start_task_distributor_service::{closure#0}')]
    if m is None or not st:
        ctx.bad('C01.S2', 'distributor|queue', '', 'TaskDistributor::mutation / start_task_distributor_service not found (fail closed)')
        return
    lossy = lossy_sends(m)
    sends = [cname(t) for _b, t in m.calls() if cname(t) and re.match(r'^(flume|crossbeam_channel|tokio::sync::mpsc)', cname(t)) and 'send' in last_seg(cname(t))]
    bounded = [x for b in st for x in channel_ctor_bounded(facts, b)]
    unb = [cname(t) for b in st for _b, t in b.calls() if cname(t) and last_seg(cname(t)) in ('unbounded', 'unbounded_channel')]
    good = bool(sends) and not lossy and bool(unb) and not bounded
    ctx.ob('C01.S2', 'distributor|queue-cannot-drop', good, site(m),
           'mutations are queued with %s on an unbounded channel' % sorted(set(sends)) if good else
           'the mutation queue can drop entries (lossy send %s / bounded channel %s): a write that missed direct replication is then only repaired by anti-entropy'
           % (lossy, bounded))


def check_S3(ctx, facts):
    P = EC + 'replication::poller::'
    rm = [b for b in facts.bodies.values() if b.kind == 'coroutine' and b.name == P + 'repair_members::{closure#0}']
    for body in rm:
        flow = Flow(body)
        calls = list(body.calls())
        sync = [(b, t) for b, t in calls if cname(t) == P + 'begin_keyspace_sync']
        setk = [(b, t) for b, t in calls if cname(t) == P + 'KeyspaceTracker::set_keyspace']
        if len(sync) == 1 and not setk:
            # the recording written differently (a method of another private type, inlined at load, or the container written in place): by role —
            # every call that RECEIVES the peer's change stamp (the `last_updated` of the listed change) together with something it can write
            # to (a workspace method, or an inserting / pushing container call)
            lu = set()
            kd_ = facts.adts.get(P + 'KeyspaceDiff')
            lu_ix = [i for i, f in enumerate(kd_['variants'][0]['fields']) if f['name'] == 'last_updated'] if kd_ else []

            def is_lu(pl):
                return bool(pl and lu_ix and pl['p'] and isinstance(pl['p'][-1], dict) and pl['p'][-1].get('f') == lu_ix[0]
                            and (strip_generics(pl['p'][-2]['ty']) if len(pl['p']) > 1 and isinstance(pl['p'][-2], dict) and 'ty' in pl['p'][-2]
                                 else strip_generics(body.local_ty(pl['l']).lstrip('&').replace('mut ', '').strip())) == P + 'KeyspaceDiff')
            for _b, _j, s_ in body.assigns():
                for o in rv_operands(s_['rv']):
                    if is_lu(op_place(o)):
                        lu |= flow.forward([s_['lhs']['l']], stop=[0])
            for _b, t_ in calls:
                for o in t_['args']:
                    if is_lu(op_place(o)):
                        lu.add(-1 - id(t_))
            # (taint closure through every call: the stamp may be wrapped — AtomicCell::new, Arc::new, a tuple — before it is stored)
            for _round in range(6):
                grew = False
                for _b, t_ in calls:
                    if not t_['dest']['p'] and t_['dest']['l'] not in lu and any(op_local(a) in lu for a in t_['args']):
                        lu |= flow.forward([t_['dest']['l']], stop=[0])
                        grew = True
                if not grew:
                    break
            WR = re.compile(r'::(insert|push|push_back|extend|entry|or_insert|or_insert_with|replace|set|store|put|insert_unique_unchecked)$')
            for b_, t_ in calls:
                n_ = cname(t_) or ''
                direct = (-1 - id(t_)) in lu
                if not (direct or any(op_local(a) in lu for a in t_['args'])):
                    continue
                if (n_.startswith(EC) and n_ != P + 'begin_keyspace_sync') or WR.search(n_):
                    setk.append((b_, t_))
        good = len(sync) == 1 and len(setk) >= 1
        if good:
            re_ = ResultEdges(body, flow, sync[0][0])
            good = re_.inspected and all(re_.ok_dominates(b) and b not in re_.reachable_from_err() for b, t in setk)
        ctx.ob('C01.S3', 'repair_members|stamp-on-success', bool(good), site(body, setk[0][1]['cs'] if setk else None),
               'the peer\'s keyspace stamp is recorded only on the success edge of the exchange' if good else
               'the peer\'s keyspace stamp is recorded although the exchange failed: the missing operations are never fetched again')
    if not rm:
        ctx.bad('C01.S3', 'repair_members', '', 'repair_members not found')
    bs = [b for b in facts.bodies.values() if b.kind == 'coroutine' and re.match(re.escape(P) + r'begin_keyspace_sync::\{closure#0\}(::\{closure#0\})?$', b.name)
          and any(cname(t) == P + 'handle_removals' for _b, t in b.calls())]
    # SEM: the supervision interpreted against scripted progress histories and both outcomes of the removal task (sync_abs); subsumes the
    # three begin_keyspace_sync clauses below, which are evaluated only when a construct is not modelled
    import sync_abs
    sup_sem = sync_abs.check_supervision(ctx, facts, 'C01.S3.SEM')
    # S7.SEM: which keyspaces of which peer are exchanged, over three polling rounds (poll_abs); no structural fallback — a tree the
    # summary cannot read is recorded as "not decided" in the evidence, never reported
    import poll_abs
    poll_abs.check_polling(ctx, facts, 'C01.S7.SEM')
    # S9.SEM: the tracker / watcher pair the supervision asks (tracker_abs): "done" is what the task set on ITS copy, "expired" is the
    # timeout since the last registered progress
    import tracker_abs
    tracker_abs.check_tracker(ctx, facts, 'C01.S9.SEM')
    for body in ([] if sup_sem else bs):
        flow = Flow(body)
        calls = list(body.calls())
        oks = ok_return_blocks(body)
        rem = [(b, t) for b, t in calls if cname(t) == P + 'handle_removals']
        spawn = [(b, t) for b, t in calls if cname(t) == 'tokio::task::spawn::spawn' and rem and rem[0][1]['dest']['l'] in flow.backward([op_local(t['args'][0])])]
        good = bool(spawn) and bool(oks)
        joined = False
        if good:
            jh = spawn[0][1]['dest']['l']
            # awaits of the join handle: into_future calls on it
            awaits = [(b, t) for b, t in calls if cname(t) == 'core::future::into_future::IntoFuture::into_future' and jh in flow.backward([op_local(t['args'][0])])]
            for ab, at in awaits:
                re_ = ResultEdges(body, flow, ab)
                if re_.inspected and all(re_.ok_dominates(ob) for ob in oks) and not any(ob in re_.reachable_from_err() for ob in oks):
                    joined = True
        ctx.ob('C01.S3', 'begin_keyspace_sync|removal-joined', joined, site(body),
               'Ok is returned only after the removal task was joined and reported success' if joined else
               'the exchange can report Ok without the removal task having completed successfully')
        done = [(b, t) for b, t in calls if cname(t) and cname(t).endswith('ProgressWatcher::is_done')]
        exp = [(b, t) for b, t in calls if cname(t) and cname(t).endswith('ProgressWatcher::has_expired')]
        gd = False
        for b, t in done:
            for sb, st in switch_on(body, t['dest']['l']):
                tm = {int(v): tb for v, tb in st['targets']}
                true_t = st['otherwise'] if 0 in tm else tm.get(1)
                if true_t is not None and all(body.edge_dominates((sb, true_t), ob) for ob in oks):
                    gd = True
                # the same through a flag (`let timed_out = loop { .. break true / break false }; .. if timed_out { Err } else { Ok }`):
                # with the is_done edge taken away no Ok return is reachable on a feasible path
                elif true_t is not None and oks and not (set(oks) & refined_reach(body, [0], blocked_edges=[(sb, true_t)])):
                    gd = True
        ge = False
        for b, t in exp:
            for sb, st in switch_on(body, t['dest']['l']):
                tm = {int(v): tb for v, tb in st['targets']}
                true_t = st['otherwise'] if 0 in tm else tm.get(1)
                if true_t is not None and not (set(oks) & refined_reach(body, [true_t])):
                    ge = True
        ctx.ob('C01.S3', 'begin_keyspace_sync|done-before-ok', gd, site(body),
               'Ok is dominated by the is_done() edge of the progress watcher' if gd else 'Ok can be returned before the modification task reported done')
        ctx.ob('C01.S3', 'begin_keyspace_sync|expiry-is-error', ge, site(body),
               'on expiry the exchange leaves with an error without reaching Ok' if ge else 'an expired exchange can still report Ok')
    if not bs and not sup_sem:
        ctx.bad('C01.S3', 'begin_keyspace_sync', '', 'begin_keyspace_sync body not found')
    hm = [b for b in facts.bodies.values() if b.kind == 'coroutine' and b.name.startswith(P + 'handle_modified::{closure#0}')
          and any(cname(t) and cname(t).endswith('ProgressTracker::set_done') for _b, t in b.calls())]
    for body in hm:
        flow = Flow(body)
        calls = list(body.calls())
        sd = [b for b, t in calls if cname(t) and cname(t).endswith('ProgressTracker::set_done')]
        steps = [(b, t) for b, t in calls if cname(t) in (EC + 'rpc::client::ReplicationClient::fetch_docs', SEND)]
        good = len(steps) == 2 and bool(sd)
        for b, t in steps:
            re_ = ResultEdges(body, flow, b)
            good = good and re_.inspected and not (set(sd) & re_.reachable_from_err())
        # the loop exit dominates set_done: set_done is not inside the chunk loop
        nx = [b for b, t in calls if cname(t) == 'core::iter::traits::iterator::Iterator::next']
        good = good and bool(nx) and all(body.dominates(nx[0], s) for s in sd) and not any(nx[0] in body.reachable_from([s]) for s in sd)
        ctx.ob('C01.S3', 'handle_modified|done-after-all-chunks', bool(good), site(body),
               '"done" is set after the chunk loop; a failed fetch or apply leaves without setting it' if good else
               '"done" can be set although a chunk was not fetched / applied (or inside the loop, after the first chunk)')
    if not hm:
        ctx.bad('C01.S3', 'handle_modified', '', 'handle_modified body not found')


def hdr_between(body, a, b):
    return False


def check_S4(ctx, facts):
    # by interpretation of the handlers (handlers_abs): whenever a handler changes the set it also bumps the keyspace change stamp
    import handlers_abs
    n0 = len(ctx.obs)
    if handlers_abs.check_handlers(ctx, facts, 'C01.S4'):
        ctx.obs[n0:] = [o for o in ctx.obs[n0:] if not o.key.startswith('purge|')]
        return
    A = c02.anchors(facts)
    n = 0
    for body in A:
        calls = list(body.calls())
        Ms = [(b, t) for b, t in calls if cname(t) in c02.SET_M]
        if not Ms:
            continue
        n += 1
        inc = [b for b, t in calls if cname(t) and cname(t).endswith('KeyspaceActor::inc_change_timestamp')]
        name = c02.short(body)
        good = bool(inc)
        rets = body.return_blocks()
        for mb, mt in Ms:
            if not (any(body.dominates(i, mb) for i in inc) or body.must_pass([mb], inc, rets)):
                good = False
        ctx.ob('C01.S4', name, good, site(body),
               'every path that folds the set also bumps the keyspace change stamp' if good else
               'the set can change without the keyspace change stamp being bumped: peers compare only that stamp and never re-sync this keyspace')
    ctx.floor('C01.S4', 'set-mutating handlers', n, 4)


def check_S6(ctx, facts, rule='C01.S6'):
    """the change stamp a peer is handed together with a state snapshot is read BEFORE the snapshot is taken: the poller
    records that stamp as 'synced up to here', so a write that lands between the two reads must be in the snapshot"""
    hs = [b for b in facts.bodies.values() if b.crate == 'datacake_eventual_consistency' and b.kind == 'coroutine' and not b.d['promoted']
          and 'Handler' in (b.impl or '') and 'GetState' in (b.impl or '') and b.name.endswith('on_message::{closure#0}')]
    if len(hs) != 1:
        ctx.bad(rule, 'GetState|anchor', '', 'GetState handler not found (fail closed)')
        return
    b = hs[0]
    sends = [(bb, t) for bb, t in b.calls() if cname(t) and cname(t).endswith('ActorMailbox::send')]
    stamp = [bb for bb, t in sends if any('LastUpdated' in g for g in (t.get('gargs') or []))]
    snap = [bb for bb, t in sends if any(g.endswith('::Serialize') or g == 'Serialize' for g in (t.get('gargs') or []))]
    good = bool(stamp) and bool(snap) and all(any(b.dominates(s_, x) for s_ in stamp) for x in snap)
    ctx.ob(rule, 'GetState|stamp-before-snapshot', good, site(b),
           'the keyspace\'s change stamp is read before the state snapshot is taken (the stamp a peer records as synced never exceeds the snapshot)' if good else
           'the state snapshot is taken before (or without) reading the change stamp: a write that reaches the keyspace between the two reads is covered by the '
           'stamp the peer records as synced but missing from the snapshot, so no later repair exchange fetches it')


def check(ctx):
    facts = ctx.facts('prod')
    import versions_abs as _va
    _va.check_forgiveness_value(ctx, facts, 'C01.S8.F')      # (round 8, C01i) the forgiveness period of the non-test build is the stated hour
    cg = CallGraph(facts)
    check_S6(ctx, facts)
    check_S1(ctx, facts, cg)
    # SEM: the four public write paths interpreted end to end (api_abs): after a successful local write the same operation is handed
    # to the batch distributor exactly once, as the matching mutation; subsumes the per-path clauses of S2
    import api_abs
    if not api_abs.check_api(ctx, facts, 'C01.S2.SEM'):
        check_S2(ctx, facts)
    check_S2b(ctx, facts)
    check_S3(ctx, facts)
    check_S4(ctx, facts)
    c05.check_D1(ctx, facts, rule='C01.S5')
    check_S8(ctx, facts)


def check_S8(ctx, facts):
    """S8: the mechanisms convergence rests on, re-evaluated under C01's own rule ids — the summaries that decide them for their own
    properties (C09, C04, C03, C05, C11) are run again here, because a defect in any of them is a defect of convergence (round 6:
    a clock whose `recv` can step backwards makes the origin issue a put older than one it already issued; the replicas' version
    gate keeps it out of every set, and no repair exchange ever lists it).  Only the semantic summaries are re-run: where one
    declines (a construct outside its vocabulary) the owning property's structural clauses decide, and nothing is reported here."""
    import hlc_abs
    import orswot_abs
    import versions_abs
    import actor_abs
    hlc_abs.check_hlc(ctx, facts, 'C01.S8.HLC')
    orswot_abs.check_mutators(ctx, facts, 'C01.S8.SET')
    orswot_abs.check_merge(ctx, facts, 'C01.S8.SET')
    orswot_abs.check_wrappers(ctx, facts, 'C01.S8.SET')
    orswot_abs.check_diff(ctx, facts, 'C01.S8.SET')
    versions_abs.check_versions(ctx, facts, 'C01.S8.VERSIONS')
    actor_abs.check_clock_actor(ctx, facts, 'C01.S8.CLOCK')
    actor_abs.check_clock_handle(ctx, facts, 'C01.S8.CLOCK')
