"""C13.G5.SEM: what `to_uri_path` does to a service name and a message path before they become the URI (P-ORDER over symbolic text).

Registration files a handler under hash(to_uri_path(service_name, path)); the client addresses it by the same function.  C13's
"served exactly when registered" therefore needs two registered (service, message) pairs to stay two URIs.  The default names are
`type_name`s (`Kv<Mem>`, `Kv<(Mem,)>`, `Kv<&Mem>` …), which differ in punctuation only — so whatever `to_uri_path` applies to a
name before formatting it must not lose characters.  Every function `to_uri_path` passes a parameter through is interpreted on a
text of three symbolic characters (each test the code makes on a character — equality with a constant, a class predicate, a pattern —
is an oracle explored both ways, consistently per character).  Decided on every path:

  the result has one character per input character, in order, and each is the input character itself or a constant chosen by the
  tests made on THAT character

— a per-character substitution.  Anything that drops, merges or reorders characters (collapsing runs of punctuation into one
separator, trimming, filtering — round 6, C13f) gives two distinct names one URI: adding one service makes the other one served,
removing one makes the other refuse.  Which characters are substituted is not judged (the pinned tree maps `<` and `>` to `-`)."""
import absint
from absint import Interp, Order, Cell, Unmodelled, NeedChoice, PanicPath, UNIT, mk_bool, IterObj
from facts import last_seg, op_local
from analysis import Flow, cname

RPC = 'datacake_rpc'
PRED = ('is_ascii_alphanumeric', 'is_alphanumeric', 'is_ascii_alphabetic', 'is_alphabetic', 'is_ascii_digit', 'is_numeric', 'is_ascii_punctuation', 'is_ascii',
        'is_whitespace', 'is_ascii_whitespace', 'is_ascii_uppercase', 'is_ascii_lowercase', 'is_uppercase', 'is_lowercase', 'is_ascii_graphic', 'is_control', 'is_ascii_control',
        'is_ascii_hexdigit')


def py_pred(p, code):
    ch = chr(code)
    asc = code < 128
    return {'is_ascii_alphanumeric': asc and ch.isalnum(), 'is_alphanumeric': ch.isalnum(), 'is_ascii_alphabetic': asc and ch.isalpha(), 'is_alphabetic': ch.isalpha(),
            'is_ascii_digit': asc and ch.isdigit(), 'is_numeric': ch.isnumeric(), 'is_ascii_punctuation': asc and not ch.isalnum() and not ch.isspace() and 32 < code < 127,
            'is_ascii': asc, 'is_whitespace': ch.isspace(), 'is_ascii_whitespace': asc and ch.isspace(), 'is_ascii_uppercase': asc and ch.isupper(),
            'is_ascii_lowercase': asc and ch.islower(), 'is_uppercase': ch.isupper(), 'is_lowercase': ch.islower(), 'is_ascii_graphic': 32 < code < 127,
            'is_control': code < 32 or code == 127, 'is_ascii_control': code < 32 or code == 127, 'is_ascii_hexdigit': asc and ch in '0123456789abcdefABCDEF'}[p]


class Chars:
    """what is known about each symbolic character on the current path: equal to a constant, different from some constants, class answers"""

    def __init__(self, interp):
        self.interp = interp
        self.eq = {}
        self.ne = {}
        self.cls = {}

    def equals(self, i, code):
        if i in self.eq:
            return self.eq[i] == code
        if code in self.ne.get(i, ()):
            return False
        for p, ans in self.cls.get(i, {}).items():
            if py_pred(p, code) != ans:
                self.ne.setdefault(i, set()).add(code)
                return False
        if self.interp.choose('char%d==%d' % (i, code)):
            self.eq[i] = code
            return True
        self.ne.setdefault(i, set()).add(code)
        return False

    def pred(self, i, p):
        if i in self.eq:
            return py_pred(p, self.eq[i])
        c = self.cls.setdefault(i, {})
        if p not in c:
            c[p] = bool(self.interp.choose('char%d.%s' % (i, p)))
        return c[p]


def make_hook(state):
    def item_of(interp, v):
        v = interp.deref_all(v)
        if v is not None and v[0] == 'char':
            return v[1]
        if v is not None and v[0] == 'int' and v[1] is not None:
            return ('lit', v[1])
        return None

    def text_of(interp, v):
        v = interp.deref_all(v)
        return v[1] if v is not None and v[0] == 'sstr' else None

    def matches(interp, item, pat):
        """does the character match the pattern (a char, an array / slice of chars, a one-character text)?"""
        chars = state['chars']
        pv = interp.deref_all(pat)
        codes = None
        if pv is not None and pv[0] == 'int' and pv[1] is not None:
            codes = [pv[1]]
        elif pv is not None and pv[0] in ('arr', 'vec'):
            codes = []
            for c in pv[1]:
                x = interp.deref_all(c.v if isinstance(c, Cell) else c)
                if x is None or x[0] != 'int' or x[1] is None:
                    raise Unmodelled('a pattern of non-constant characters')
                codes.append(x[1])
        elif pv is not None and pv[0] == 'sstr' and len(pv[1]) == 1 and pv[1][0][0] == 'lit':
            codes = [pv[1][0][1]]
        elif pv is not None and pv[0] == 'closure':
            r = interp.deref_all(interp.call_closure(pv, [('char', item)], 0))
            return bool(r[1])
        if codes is None:
            raise Unmodelled('a text pattern that is not a character, a set of characters or a predicate')
        if item[0] == 'lit':
            return item[1] in codes
        return any(chars.equals(item[1], c) for c in codes)

    def hook(interp, name, args, t, body):
        seg = last_seg(name)
        a0 = interp.deref_all(args[0]) if args else None
        txt = text_of(interp, args[0]) if args else None
        is_str = name.startswith(('alloc::str::', 'core::str::', 'alloc::string::String::', '<alloc::string::String'))
        if txt is not None:
            if seg in ('replace', 'replacen') and len(args) >= 3:
                to = text_of(interp, args[2])
                if to is None:
                    raise Unmodelled('replacement text is not a constant')
                out = []
                for it_ in txt:
                    out.extend(to if matches(interp, it_, args[1]) else [it_])
                return ('sstr', out)
            if seg == 'chars':
                return ('iter', IterObj([('char', x) for x in txt]))
            if seg == 'char_indices':
                return ('iter', IterObj([('tuple', [Cell(('int', None)), Cell(('char', x))]) for x in txt]))
            if seg in ('len', 'capacity'):
                return ('int', None)
            if seg == 'is_empty':
                return mk_bool(not txt)
            if seg in ('as_str', 'as_ref', 'deref', 'borrow', 'to_string', 'to_owned', 'clone', 'into', 'from', 'as_mut_str', 'into_boxed_str', 'into_string', 'to_str'):
                ty = body.local_ty(t['dest']['l']) if not t['dest']['p'] else ''
                if seg in ('to_string', 'to_owned', 'clone', 'into', 'from', 'into_string'):
                    v = ('sstr', list(txt))
                    return ('ref', Cell(v)) if ty.startswith('&') else v
                return ('ref', Cell(a0)) if ty.startswith('&') else a0
            if seg == 'push' and len(args) == 2:
                it_ = item_of(interp, args[1])
                if it_ is None:
                    raise Unmodelled('push of a non-character')
                txt.append(it_)
                return UNIT
            if seg == 'push_str' and len(args) == 2:
                o = text_of(interp, args[1])
                if o is None:
                    raise Unmodelled('push_str of an unknown text')
                txt.extend(o)
                return UNIT
            if seg in ('reserve', 'shrink_to_fit'):
                return UNIT
            if seg in ('trim', 'trim_start', 'trim_end', 'trim_matches', 'trim_start_matches', 'trim_end_matches', 'to_lowercase', 'to_uppercase', 'to_ascii_lowercase',
                       'to_ascii_uppercase', 'split', 'rsplit', 'splitn', 'split_once', 'strip_prefix', 'strip_suffix', 'bytes', 'as_bytes', 'get', 'truncate', 'pop', 'remove',
                       'retain', 'drain', 'insert', 'insert_str'):
                raise Unmodelled('str::%s on a symbolic text' % seg)
        if is_str and seg in ('new', 'with_capacity', 'default') and (not args or a0 is None or a0[0] == 'int'):
            return ('sstr', [])
        if a0 is not None and a0[0] == 'char':
            it_ = a0[1]
            if seg in PRED:
                if it_[0] == 'lit':
                    return mk_bool(py_pred(seg, it_[1]))
                return mk_bool(state['chars'].pred(it_[1], seg))
            if seg in ('eq', 'ne') and len(args) == 2:
                o = item_of(interp, args[1])
                if o is None:
                    raise Unmodelled('a character compared with an unknown value')
                if it_[0] == 'lit' and o[0] == 'lit':
                    r = it_[1] == o[1]
                elif it_[0] == 'ch' and o[0] == 'lit':
                    r = state['chars'].equals(it_[1], o[1])
                elif it_[0] == 'lit' and o[0] == 'ch':
                    r = state['chars'].equals(o[1], it_[1])
                else:
                    r = it_ == o if it_ == o else bool(interp.choose('char%s==char%s' % (it_[1], o[1])))
                return mk_bool(r if seg == 'eq' else not r)
            if seg in ('clone', 'to_owned', 'into', 'from', 'deref', 'borrow'):
                return a0
            if seg in ('to_ascii_lowercase', 'to_ascii_uppercase', 'to_lowercase', 'to_uppercase'):
                raise Unmodelled('case mapping of a symbolic character')
        if seg == 'collect' and not t['dest']['p'] and body.local_ty(t['dest']['l']) == 'alloc::string::String':
            io = interp.as_iter(args[0])
            out = []
            for x in interp.drain(io, 0):
                x = interp.deref_all(x)
                if x is not None and x[0] == 'char':
                    out.append(x[1])
                elif x is not None and x[0] == 'int' and x[1] is not None:
                    out.append(('lit', x[1]))
                elif x is not None and x[0] == 'sstr':
                    out.extend(x[1])
                else:
                    raise Unmodelled('collecting %r into a String' % (x[:1] if x else x,))
            return ('sstr', out)
        if seg == 'contains' and a0 is not None and a0[0] in ('arr', 'vec') and len(args) == 2:
            it_ = item_of(interp, args[1])
            if it_ is not None:
                return mk_bool(matches(interp, it_, args[0]))
        return None
    return hook


def ext_switch(interp, v, targets):
    v = interp.deref_all(v)
    if v is None or v[0] != 'char':
        raise Unmodelled('switch on %r' % (v[:1] if v else v,))
    it_ = v[1]
    for c in targets:
        if it_[0] == 'lit':
            if it_[1] == c:
                return c
        elif interp.names_state['chars'].equals(it_[1], c):
            return c
    return -1


def transformers(facts):
    """the workspace functions to_uri_path passes one of its parameters through (by data flow, not by name)"""
    root = facts.bodies.get(RPC + '::to_uri_path')
    if root is None or root.cfg is None:
        raise Unmodelled('to_uri_path not found')
    flow = Flow(root)
    out = []
    for _b, t in root.calls():
        n = cname(t)
        if n and n.startswith(RPC + '::') and t['args']:
            l = op_local(t['args'][0])
            if l is not None and set(flow.backward([l])) & set(range(1, root.argc + 1)):
                b = facts.bodies.get(n)
                if b is not None and b.cfg is not None and b not in out:
                    out.append(b)
    return root, out


def check_names(ctx, facts, rule):
    from orswot_abs import _fallback
    try:
        root, fns = transformers(facts)
        results = []
        for fn in fns:
            def run(choices, fn=fn):
                state = {}
                it = Interp(facts, Order({}), opaque_call=make_hook(state), step_limit=100000)
                it.literal_strings = True
                it.ext_switch = ext_switch
                it.names_state = state
                it.choices = list(choices)
                state['chars'] = Chars(it)
                r = it.deref_all(it.run_body(fn, [('ref', Cell(('sstr', [('ch', 0), ('ch', 1), ('ch', 2)])))]))
                return it.oracle_log, (r, dict(state['chars'].eq), {k: dict(v) for k, v in state['chars'].cls.items()})
            results.append((fn, absint.explore(run)))
    except (Unmodelled, NeedChoice, PanicPath, IndexError, TypeError, KeyError, AttributeError, RecursionError, ValueError) as e:
        return _fallback(ctx, rule, e)
    for fn, res in results:
        bad = []
        seen = 0
        for log, r in res:
            if r and r[0] == 'panic':
                bad.append('a path panics')
                continue
            v, eqs, cls = r
            if v is None or v[0] != 'sstr':
                bad.append('the result is not a text')
                continue
            seen += 1
            out = v[1]

            def show(k):
                if k in eqs:
                    return repr(chr(eqs[k]))
                c = cls.get(k) or {}
                return 'c%d' % k + ('' if not c else '[%s]' % ', '.join(('' if a else 'not ') + p for p, a in sorted(c.items())))
            shape = ''.join(('<%s>' % show(x[1])) if x[0] == 'ch' else chr(x[1]) for x in out)
            inp = ' '.join(show(k) for k in range(3))
            if len(out) != 3:
                bad.append('the text of three characters (%s) becomes %r (%d characters): characters are %s — two names that differ only there get one URI' % (
                    inp, shape, len(out), 'dropped or merged' if len(out) < 3 else 'added'))
            elif any(x[0] == 'ch' and x[1] != k for k, x in enumerate(out)):
                bad.append('the text (%s) becomes %r: characters change place' % (inp, shape))
        ctx.ob(rule, 'name-transform|%s' % last_seg(fn.name), seen > 0 and not bad, '%s:%s' % (fn.file, fn.line),
               '%s is a per-character substitution on every one of %d paths (no character of a service name / message path is dropped, merged or moved)' % (last_seg(fn.name), seen)
               if seen > 0 and not bad else '%s (applied by to_uri_path to a service name / message path): %s' % (last_seg(fn.name), bad[0] if bad else 'no path'))
    return True
