#!/usr/bin/env python3
"""Self-test of inline.py on the 'prod' facts of the current tree.

usage: test_inline.py [FACTSDIR]      (FACTSDIR defaults to the output of bin/factsdir)
Exits non-zero on the first failed check group; prints a short summary."""
import hashlib
import io
import json
import os
import subprocess
import sys
import time

HERE = os.path.dirname(os.path.abspath(__file__))
sys.path.insert(0, HERE)
from facts import Facts                                          # noqa: E402
from inline import (inline_calls, inlined_callees, inline_all, callee_body,   # noqa: E402
                    INLINE_KINDS)

OR = 'datacake_crdt::orswot::OrSWotSet::'
failures = []


def check(cond, msg):
    if not cond:
        failures.append(msg)
    return cond


def digest(b):
    return hashlib.sha1(json.dumps(b.d, sort_keys=True).encode()).hexdigest()


def bad_indices(b):
    """independent well-formedness walk: [(what, value)] of out-of-range local / block indices"""
    nloc, nblk, bad = len(b.locals), len(b.blocks), []

    def walk(x):
        if isinstance(x, dict):
            if isinstance(x.get('p'), list) and 'l' in x:            # a place
                if not 0 <= x['l'] < nloc:
                    bad.append(('local', x['l']))
                for e in x['p']:
                    if isinstance(e, dict) and 'i' in e and not 0 <= e['i'] < nloc:
                        bad.append(('index local', e['i']))
            if 'local' in x and not 0 <= x['local'] < nloc:          # storage statement
                bad.append(('dead local', x['local']))
            for v in x.values():
                walk(v)
        elif isinstance(x, list):
            for v in x:
                walk(v)

    walk(b.blocks)
    walk(b.dbg)
    for i, blk in enumerate(b.blocks):
        t = blk['t']
        refs = [t[k] for k in ('target', 'otherwise', 'unwind', 'cleanup', 'drop')
                if type(t.get(k)) is int]
        refs += [x[1] for x in t.get('targets', [])]
        if t['k'] in ('goto', 'drop', 'assert', 'yield', 'switch') and not refs:
            bad.append(('no successor', i))
        bad += [('block', r) for r in refs if not (type(r) is int and 0 <= r < nblk)]
    return bad


def call_names(b):
    return [b.callee(t) or '' for _i, t in b.calls()]


def main():
    t0 = time.time()
    if len(sys.argv) > 1:
        fdir = sys.argv[1]
    else:
        root = os.path.dirname(HERE)
        fdir = subprocess.check_output([os.path.join(root, 'bin', 'factsdir')], cwd=root,
                                       text=True).strip().splitlines()[-1]
    facts = Facts(fdir, 'prod')
    bodies = [b for b in facts.bodies.values() if not b.d['promoted']]
    before = {b.defp: digest(b) for b in facts.bodies.values()}

    # (1) every body inlines into a well-formed Body usable by all Body methods
    n_inl = n_changed = max_blocks = 0
    for b in bodies:
        try:
            b2 = inline_calls(facts, b)
            bad = bad_indices(b2)
            check(not bad, '%s: out-of-range indices %s' % (b.name, bad[:5]))
            dom = b2.dominators()
            check(0 in dom, '%s: entry not in dominators' % b.name)
            for i in range(len(b2.blocks)):
                b2.succ(i), b2.pred(i)
            calls = list(b2.calls())
            b2.dump(io.StringIO())
            list(b2.assigns())
            reach = b2.reachable_from([0])
            # the caller's own header and its own blocks are preserved
            check(b2 is not b and b2.d is not b.d, '%s: same object returned' % b.name)
            check(all(b2.d[k] == b.d[k] for k in b.d if k not in ('locals', 'blocks', 'dbg')),
                  '%s: header fields changed' % b.name)
            check(b2.locals[:len(b.locals)] == b.locals and b2.dbg[:len(b.dbg)] == b.dbg,
                  '%s: caller locals/dbg not a prefix' % b.name)
            check(bool(b.return_blocks()) == bool(b2.return_blocks()),
                  '%s: return reachability changed' % b.name)
            # nothing is inlined into itself, only fn/method bodies are inlined
            inl = inlined_callees(b2)
            check(b.name not in inl, '%s: inlined into itself' % b.name)
            for n in inl:
                cb = facts.body(n)
                check(cb is not None and cb.kind in INLINE_KINDS, '%s: inlined %s' % (b.name, n))
            # synthesized assigns carry the same fields as extracted ones
            for blk in b2.blocks:
                for s in blk['s']:
                    check(s['k'] != 'assign' or {'lhs', 'rv', 'cs'} <= set(s),
                          '%s: malformed assign %s' % (b.name, s))
            if not inl:
                check(len(b2.blocks) == len(b.blocks), '%s: grew without marks' % b.name)
            else:
                n_changed += 1
                n_inl += len(inl)
                check(len(reach) > 0 and len(calls) >= 0, '%s: empty' % b.name)
            max_blocks = max(max_blocks, len(b2.blocks))
        except Exception as e:                                   # noqa: BLE001
            import traceback
            traceback.print_exc()
            check(False, '%s: exception %r' % (b.name, e))
    # depth 1 leaves no *direct* eligible call of the original body behind
    for b in bodies:
        b1 = inline_calls(facts, b, max_depth=1)
        for i, t in b1.calls():
            if i < len(b.blocks):
                cb = callee_body(facts, t)
                check(cb is None or cb.name == b.name, '%s: bb%d call not inlined' % (b.name, i))
    # a vetoing predicate yields an identical copy
    b0 = inline_calls(facts, facts.body(OR + 'diff'), should_inline=lambda c, t, d: False)
    check(b0.d == facts.body(OR + 'diff').d, 'veto predicate: body differs')

    # (2) inputs untouched
    after = {b.defp: digest(b) for b in facts.bodies.values()}
    check(before == after, 'input bodies mutated: %s'
          % [k for k in before if before[k] != after[k]][:5])

    # (3) OrSWotSet::diff
    d2 = inline_calls(facts, facts.body(OR + 'diff'))
    cn = call_names(d2)
    check(not any('check_self_then_insert_to' in n for n in cn), 'diff: check_self_then_insert_to call left')
    check(any(n.endswith('BTreeMap::get') for n in cn), 'diff: no BTreeMap::get call')
    check(any(n.endswith('Vec::push') for n in cn), 'diff: no Vec::push call')
    check(OR + 'check_self_then_insert_to' in inlined_callees(d2), 'diff: inlined_callees misses helper')
    check(not any(n.endswith('Vec::push') for n in call_names(facts.body(OR + 'diff'))),
          'diff: Vec::push already called directly (test is vacuous)')

    # (4) OrSWotSet::insert at depth 1 / 2, with the depth argument of the predicate
    seen_depths = {}
    i1 = inline_calls(facts, facts.body(OR + 'insert'), max_depth=1,
                      should_inline=lambda c, t, dep: seen_depths.setdefault(c.name, dep) > 0)
    check(OR + 'insert_with_source' in inlined_callees(i1), 'insert d1: insert_with_source not inlined')
    check(any(n.endswith('NodeVersions::try_update_max_stamp') for n in call_names(i1)),
          'insert d1: no call to try_update_max_stamp')
    check(seen_depths.get(OR + 'insert_with_source') == 1, 'insert d1: predicate depth %s' % seen_depths)
    i2 = inline_calls(facts, facts.body(OR + 'insert'), max_depth=2)
    tums = 'datacake_crdt::orswot::NodeVersions::try_update_max_stamp'
    check(tums in inlined_callees(i2), 'insert d2: try_update_max_stamp not inlined')
    check(not any(n == tums for n in call_names(i2)), 'insert d2: try_update_max_stamp call left')
    check(any(n.endswith('compute_safe_last_stamp') for n in call_names(i2))
          or any('compute_safe_last_stamp' in n for n in inlined_callees(i2)),
          'insert d2: compute_safe_last_stamp neither called nor inlined')
    i3 = inline_calls(facts, facts.body(OR + 'insert'), max_depth=3)
    check(len(inlined_callees(i3)) >= len(inlined_callees(i2)), 'insert d3 < d2')
    # argument passing: the depth-1 copy starts with `param_i = use(arg_i)` for all 4 args
    e = i1.blocks[0]
    args = [s for s in e['s'] if s.get('inl') == OR + 'insert_with_source']
    check(len(args) == 4 and e['t']['k'] == 'goto' and e['t']['target'] == len(facts.body(OR + 'insert').blocks),
          'insert d1: calling block %s' % e)
    check([s['lhs']['l'] for s in args] == [len(facts.body(OR + 'insert').locals) + k for k in (1, 2, 3, 4)],
          'insert d1: parameter locals %s' % [s['lhs'] for s in args])
    check('ts' in i1.local_names().values() and None in [v['arg'] for v in i1.dbg], 'insert d1: dbg not copied')
    # inline_all accepts names and bodies
    allb = inline_all(facts, [OR + 'insert', facts.body(OR + 'diff')], max_depth=1)
    check(sorted(allb) == [OR + 'diff', OR + 'insert'], 'inline_all keys %s' % sorted(allb))

    print('inline self-test: %d bodies, %d changed, %d inlined callees (sum of distinct per body), '
          'largest result %d blocks, %.1fs' % (len(bodies), n_changed, n_inl, max_blocks, time.time() - t0))
    print('  diff   inlines: %s' % sorted(x.rsplit('::', 1)[-1] for x in inlined_callees(d2)))
    print('  insert inlines: d1=%d d2=%d d3=%d callees' % (len(inlined_callees(i1)), len(inlined_callees(i2)),
                                                         len(inlined_callees(i3))))
    if failures:
        print('FAILED (%d):' % len(failures))
        for m in failures[:40]:
            print('  - ' + m)
        sys.exit(1)
    print('OK')


if __name__ == '__main__':
    main()
