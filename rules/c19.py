"""C19 — a peer receives the sender's keyspace state unchanged.  DESIGN §5 C19."""
from analysis import *  # noqa
from facts import strip_generics, op_local, op_const, const_int, last_seg, ty_head
from engine import site
import tables

CONFIGS = ['prod']
EXPLANATION = (
    'V6: the state codec adds nothing of its own — OrSWotSet::from_bytes returns exactly what the validating deserialiser produced (nothing is called on it, no field rewritten; a refusal is an error) and as_bytes hands the set as it is to the serialiser. '
    'Decided clauses: V1 who-may-call — outside the RPC frame layer no workspace body calls an unchecked rkyv accessor (ceiling 0; the '
    'matcher is proven live on every run by the one guarded cast inside datacake-rpc), and the repair client decodes the peer\'s state '
    'bytes, which derive from the RPC reply, through a VALIDATING entry point whose failure becomes an error status; V2 the type (const '
    'source count included) at which the keyspace actor serialises equals the type at which the client decodes; V3 the sender converts '
    'a serialisation failure into an error reply (no unwrap); V5 every Ok reply of the state handler carries bytes serialised by the keyspace '
    'actor during that very request (no cached or stored snapshot); V4 all of the state travels: the derived serialisers visit every field of '
    'OrSWotSet and NodeVersions and the archived types have as many fields as the originals (no skipped field). '
    'NOT decided: observational equality for all state sizes (rkyv round trip); alignment for arbitrary payload offsets.')
ASSUMPTIONS = ['rkyv/bytecheck validation is sound']

EC = 'datacake_eventual_consistency::'
OS = 'datacake_crdt::orswot::OrSWotSet'


def check(ctx):
    facts = ctx.facts('prod')
    import codec_abs
    codec_abs.check_state_codec(ctx, facts, 'C19.V6')
    # ---- V1 -------------------------------------------------------------------
    inside = outside = 0
    for b in facts.bodies.values():
        if b.d['promoted']:
            continue
        for blk, t in b.calls():
            if cname(t) in tables.RKYV_UNCHECKED:
                if b.crate == 'datacake_rpc':
                    inside += 1
                else:
                    outside += 1
                    ctx.bad('C19.V1', 'unchecked|%s|%s' % (b.name.replace(EC, ''), last_seg(cname(t))), site(b, t['cs']),
                            '%s decodes bytes with %s, which trusts its input: a state that cannot be decoded (other source count, truncated, '
                            'garbage) is USED — panic / abort / wild reference — instead of being reported as an error' % (last_seg(b.name.replace('::{closure#0}', '')), cname(t)))
    ctx.ob('C19.V1', 'matcher-live', inside >= 1, '', 'unchecked-accessor matcher sees %d site(s) inside the frame layer (positive control)' % inside)
    if outside == 0:
        ctx.ok('C19.V1', 'no-unchecked-outside-frame-layer', '', 'no unchecked rkyv accessor outside datacake-rpc')
    gs = [b for b in facts.bodies.values() if b.kind == 'coroutine' and b.name == EC + 'rpc::client::ReplicationClient::get_state::{closure#0}']
    if not gs:
        ctx.bad('C19.V1', 'get_state', '', 'ReplicationClient::get_state not found (fail closed)')
        return
    g = gs[0]
    flow = Flow(g)
    calls = list(g.calls())
    sends = [(b, t) for b, t in calls if cname(t) and cname(t).endswith('RpcContext::send') or cname(t) == 'datacake_rpc::client::RpcClient::send']
    dec = [(b, t) for b, t in calls if cname(t) in tables.RKYV_CHECKED or cname(t) == OS + '::from_bytes']
    decode_type = None
    if not dec:
        ctx.bad('C19.V1', 'get_state|validating-decode', site(g), 'the peer state is not decoded through a validating entry point')
    for b, t in dec:
        from_reply = any(st['dest']['l'] in flow.backward([op_local(t['args'][0])]) for _b, st in sends)
        re_ = ResultEdges(g, flow, b)
        errs = set(err_return_blocks(g))
        mapped = re_.inspected and any(errs & g.reachable_from([e[1]]) for e in re_.err)
        unw = [cname(x) for _b, x in calls if cname(x) in tables.MAY_PANIC and x['args'] and op_local(x['args'][0]) in flow.forward([t['dest']['l']], stop=[0])]
        ctx.ob('C19.V1', 'get_state|validating-decode', from_reply and mapped and not unw, site(g, t['cs']),
               'state bytes from the reply are decoded with %s and a failure is returned as an error' % last_seg(cname(t))
               if from_reply and mapped and not unw else
               'validating decode present but %s' % ('its input does not derive from the reply' if not from_reply else 'its failure is unwrapped / not propagated'))
        inst = t.get('callee_inst', '')
        m = re.search(r'OrSWotSet::<([^>]*)>', inst)
        decode_type = 'OrSWotSet<%s>' % m.group(1) if m else ([g for g in (t.get('gargs') or []) if 'OrSWotSet' in g] or ['?'])[0]
    # ---- V2 ---------------------------------------------------------------------
    ser = [b for b in facts.bodies.values() if b.kind == 'coroutine' and b.name == EC + 'keyspace::actor::KeyspaceActor::on_serialize::{closure#0}']
    if not ser:
        ctx.bad('C19.V2', 'on_serialize', '', 'KeyspaceActor::on_serialize not found')
        return
    sb = ser[0]
    tb = [(b, t) for b, t in sb.calls() if cname(t) in ('rkyv::util::to_bytes', 'rkyv::to_bytes') or (cname(t) and cname(t).endswith('OrSWotSet::as_bytes'))]
    enc_type = None
    for b, t in tb:
        enc_type = (t.get('gargs') or ['?'])[0]
        m = re.search(r'OrSWotSet<([^>]*)>', enc_type)
        enc_type = 'OrSWotSet<%s>' % m.group(1) if m else enc_type
    if enc_type is None:
        # the serializer spelled out (serialize_value / archive root of the set): the type it is instantiated at
        for b, t in sb.calls():
            n = cname(t)
            if n and n.startswith('rkyv::') and last_seg(n) in ('serialize_value', 'serialize_unsized_value', 'resolve_aligned', 'serialize'):
                for g in (t.get('gargs') or []):
                    m = re.search(r'OrSWotSet<([^>]*)>', g)
                    if m:
                        enc_type = 'OrSWotSet<%s>' % m.group(1)
                        tb = tb or [(b, t)]
    if decode_type is not None:
        dt = re.sub(r'datacake_crdt::orswot::', '', decode_type)
        et = re.sub(r'datacake_crdt::orswot::', '', enc_type or '?')
        ctx.ob('C19.V2', 'type-agreement', dt == et, site(sb, tb[0][1]['cs'] if tb else None),
               'actor serialises %s, client decodes %s' % (et, dt) + ('' if dt == et else ' — different types: every state is undecodable or misread'))
    # ---- V3 ----------------------------------------------------------------------
    sflow = Flow(sb)
    for b, t in tb:
        fw = sflow.forward([t['dest']['l']], stop=[0])
        unw = [cname(x) for _b, x in sb.calls() if cname(x) in tables.MAY_PANIC and x['args'] and op_local(x['args'][0]) in fw]
        me = [1 for _b, x in sb.calls() if cname(x) == 'core::result::Result::map_err' and op_local(x['args'][0]) in fw]
        if not me:
            # the failure is tested (is_err / match) and answered with an error return
            tests = [x for _b, x in sb.calls() if cname(x) in ('core::result::Result::is_err', 'core::result::Result::is_ok') and op_local(x['args'][0]) in fw]
            re_s = ResultEdges(sb, sflow, b)
            if (tests or re_s.inspected) and err_return_blocks(sb):
                me = [1]
            elif re_s.inspected:
                # ... or an Err value built on the failure edge travels to the return through Result combinators (`.map(finish)`)
                for e in re_s.err:
                    R = sb.reachable_from([e[1]])
                    for blk_, _j, s_ in sb.assigns():
                        rv_ = s_['rv']
                        if blk_ in R and rv_['k'] == 'aggregate' and rv_.get('agg') == 'adt' and strip_generics(rv_['adt']) == 'core::result::Result' and rv_.get('variant') == 1 \
                                and 0 in sflow.forward([s_['lhs']['l']]):
                            me = [1]
        ctx.ob('C19.V3', 'on_serialize|error-converted', not unw and bool(me), site(sb, t['cs']),
               'a serialisation failure becomes CorruptedState' if not unw and me else 'serialisation result is unwrapped (%s): a failure kills the keyspace actor' % unw)
    hs = [b for b in facts.bodies.values() if b.kind == 'coroutine' and 'rpc::services::replication_impl::ReplicationService' in b.name
          and 'GetState' in (b.impl or '') and b.name.endswith('on_message::{closure#0}')]
    for h in hs:
        hflow = Flow(h)
        hc = list(h.calls())
        snd = [(b, t) for b, t in hc if cname(t) == 'puppet::ActorMailbox::send' and 'Serialize' in ' '.join(t.get('gargs') or [])]
        if not snd:
            ctx.bad('C19.V3', 'GetState|serialize-request', site(h), 'GetState handler does not ask the actor for its serialised state')
        for b, t in snd:
            re_ = ResultEdges(h, hflow, b)
            fw = hflow.forward([t['dest']['l']], stop=[0])
            unw = [cname(x) for _b, x in hc if cname(x) in tables.MAY_PANIC and x['args'] and op_local(x['args'][0]) in fw]
            good = re_.inspected and bool(re_.err) and not unw
            ctx.ob('C19.V3', 'GetState|error-reply', good, site(h, t['cs']),
                   'a failed serialisation is answered with an error status' if good else 'the handler unwraps / ignores a failed serialisation')
    # ---- V5: the state handed out is serialised in THIS invocation, on every path to an Ok reply
    for h in hs:
        hflow = Flow(h)
        hc = list(h.calls())
        snd = [(b, t) for b, t in hc if cname(t) == 'puppet::ActorMailbox::send' and 'Serialize' in ' '.join(t.get('gargs') or [])]
        oks = ok_return_blocks(h)
        if not snd or not oks:
            continue
        re_ = ResultEdges(h, hflow, snd[0][0])
        every = all(re_.ok_dominates(ob) for ob in oks)
        # the reply's `set` field comes from that send
        aw = awaited_output_local(h, hflow, snd[0][0])
        fld_ok = False
        for _b, _j, s in h.assigns():
            rv = s['rv']
            if rv['k'] == 'aggregate' and rv.get('agg') == 'adt' and rv['adt'].endswith('KeyspaceOrSwotSet'):
                fl = dict(zip(rv['fields'], rv['ops']))
                src = hflow.backward([op_local(fl['set'])]) if 'set' in fl else set()
                others = [cname(t) for _bb, t in hc if t['dest']['l'] in src and cname(t) and
                          re.search(r'(HashMap|BTreeMap)::(get|remove|get_mut)$|::(lock|read|write)$', cname(t))]
                fld_ok = aw is not None and aw in src and not others
        ctx.ob('C19.V5', 'GetState|fresh-serialisation', every and fld_ok, site(h, snd[0][1]['cs']),
               'every Ok reply carries bytes serialised by the keyspace actor during this request' if every and fld_ok else
               'an Ok reply can carry state bytes that were not serialised during this request (cached / stored bytes): the peer does not receive the '
               'sender\'s state at the moment it answered (e.g. a purge does not move the change stamp a cache would be keyed on)')
    if not hs:
        ctx.bad('C19.V3', 'GetState|handler', '', 'GetState handler not found')
    # ---- V4 ----------------------------------------------------------------------------
    for adt_name in ('datacake_crdt::orswot::OrSWotSet', 'datacake_crdt::orswot::NodeVersions'):
        adt = facts.adts.get(adt_name)
        arch = facts.adts.get(adt_name.rsplit('::', 1)[0] + '::Archived' + adt_name.rsplit('::', 1)[1])
        if not adt or not arch:
            ctx.bad('C19.V4', last_seg(adt_name) + '|adt', '', 'ADT or its archived form not found')
            continue
        nf = len(adt['variants'][0]['fields'])
        na = len(arch['variants'][0]['fields'])
        sers = [b for b in facts.bodies.values() if b.crate == 'datacake_crdt' and b.name.endswith('::serialize') and
                ('impl rkyv::Serialize for ' + adt_name) in b.name]
        visited = set()
        withs = []
        for sbody in sers:
            for _b, t in sbody.calls():
                n = cname(t)
                if n == 'rkyv::Serialize::serialize':
                    cur = op_local(t['args'][0])
                    for _ in range(4):
                        nxt = None
                        for _bb, _j, s in sbody.assigns():
                            if s['lhs']['l'] == cur and s['rv']['k'] == 'ref':
                                pl = s['rv']['pl']
                                fs = [e['f'] for e in pl['p'] if isinstance(e, dict) and 'f' in e]
                                if pl['l'] == 1 and fs:
                                    visited.add(fs[0])
                                elif pl['l'] != 1:
                                    nxt = pl['l']
                        if nxt is None:
                            break
                        cur = nxt
                if n and 'rkyv::with::' in n:
                    withs.append(n)
        good = nf == na and visited == set(range(nf)) and not withs
        ctx.ob('C19.V4', last_seg(adt_name) + '|all-fields-travel', good, '%s:%s' % (adt['span']['f'], adt['span']['l']),
               '%d fields, %d archived fields, serialiser visits fields %s' % (nf, na, sorted(visited)) +
               ('' if good else ' — a field is skipped or wrapped (%s): the receiver rebuilds a different state' % withs))
