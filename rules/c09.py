"""C09 — hybrid clock stamps are unique, increasing, causal.  DESIGN §5 C09."""
from analysis import *  # noqa
from facts import strip_generics, op_local, op_const, const_int
from engine import site

CONFIGS = ['prod']
EXPLANATION = (
    'NODE: the node clock that owns the hybrid clock for concurrent callers — the actor loop and the register_ts / get_time handle interpreted (C11.SEM re-evaluated): every foreign stamp reaches the actor on every path and is merged before a later request is answered. '
    'CODEC: the packed word reads back every field as written — layout, accessors and identities by bit-vector interpretation (C10.SEM / E1 re-evaluated: send / recv unpack and re-pack the clock through them). '
    'SEM (primary): send / recv interpreted over all weak orders of (clock, wall, message) time, node-id equality and drift / exhaustion oracles, compared '
    'with the hybrid-clock rule (time = max, counter +1 on equal time else 0, drift of the message and of the new time refused, exhaustion refused, one sta'
    'te write, wall clock read once). Structural fallback: '
    'Decided clauses on HLCTimestamp::send / ::recv: H1 a failing request leaves the clock unchanged (exactly one state write per body, '
    'no error return reachable after it, every Ok return passes it); H2 the issued stamp carries the clock\'s own node id and send '
    'returns the state taken after the write; H3 logical time is a max-join of old state, wall clock (and message time in recv); '
    'H4 the state write is dominated by the not-drifted edge of `(new_time saturating_sub wall) > MAX_CLOCK_DRIFT`, recv also guards '
    'the message time and refuses an equal node id before reading the clock; H5 the counter is 0 or checked_add(_,1) with the overflow '
    'turned into an error, and the wall clock is read once; H6 whenever the new logical time may equal the old state\'s time (recv: the '
    'message\'s time) the new counter is computed from the old (the message\'s) counter — decided path-sensitively over the equality tests. NOT decided: strict increase for all wall-clock histories (value '
    'arithmetic over (time, counter)); the 2^32-second boundary.')
ASSUMPTIONS = ['pack/accessor layout is as decided under C10.E1']

T = 'datacake_crdt::timestamp::'
HT = T + 'HLCTimestamp::'
WALL = T + 'get_datacake_timestamp'     # default; replaced by role-based discovery in check()


def state_writes(body):
    out = []
    for b, j, s in body.assigns():
        lhs = s['lhs']
        if lhs['l'] == 1 and len(lhs['p']) == 2 and lhs['p'][0] == '*' and isinstance(lhs['p'][1], dict) and lhs['p'][1].get('f') == 0:
            out.append((b, j, s))
        elif lhs['l'] == 1 and lhs['p'] == ['*']:
            out.append((b, j, s))
    return out


def max_leaves(body, flow, local, depth=0):
    """leaf producer calls of a (nested) max-join feeding `local`; returns (leaves, join kinds)"""
    leaves, kinds = [], []
    # find the defining call of local through plain copies
    cur = {local}
    for _ in range(6):
        nxt = set(cur)
        for _b, _j, s in body.assigns():
            if s['lhs']['l'] in cur and not s['lhs']['p'] and s['rv']['k'] == 'use' and op_local(s['rv']['op']) is not None \
                    and not op_place(s['rv']['op'])['p']:
                nxt.add(op_local(s['rv']['op']))
        if nxt == cur:
            break
        cur = nxt
    for b, t in body.calls():
        if t['dest']['l'] in cur and not t['dest']['p']:
            n = cname(t)
            if n in ('core::cmp::max', 'core::cmp::Ord::max', 'core::cmp::min', 'core::cmp::Ord::min'):
                kinds.append((n.rsplit('::', 1)[1], t['cs']))
                if depth < 4:
                    for a in t['args']:
                        l, k = max_leaves(body, flow, op_local(a), depth + 1)
                        leaves += l
                        kinds += k
            else:
                leaves.append((n, t))
    return leaves, kinds


def check_body(ctx, facts, body, which):
    flow = Flow(body, all_calls=False)
    calls = list(body.calls())
    sw = state_writes(body)
    # ---- H1 ---------------------------------------------------------------
    if len(sw) != 1:
        ctx.bad('C09.H1', which + '|single-write', site(body), '%d writes of the clock state in %s (exactly one expected)' % (len(sw), which))
        if not sw:
            return
    else:
        ctx.ok('C09.H1', which + '|single-write', site(body, sw[0][2]['cs']), 'exactly one write of the clock state')
    wb = sw[0][0]
    after = body.reachable_from([wb])
    errs = [b for b in err_return_blocks(body)]
    bad_err = [b for b in errs if b in after and b != wb]
    ctx.ob('C09.H1', which + '|no-error-after-write', not bad_err, site(body, sw[0][2]['cs']),
           'no error return is reachable after the state write' if not bad_err else
           'an error return (block %s) is reachable AFTER the clock state was overwritten: a failing request changes the clock' % bad_err)
    oks = ok_return_blocks(body)
    mp = bool(oks) and body.must_pass([0], [wb], [b for b in oks if b != wb])
    ctx.ob('C09.H1', which + '|ok-passes-write', mp, site(body),
           'every path to an Ok return passes the state write' if mp else 'an Ok return is reachable without updating the clock')
    ctx.floor('C09.H1', which + ' error returns', len(errs), 2 if which == 'send' else 4)

    # ---- the pack call feeding the write ----------------------------------------
    wl = op_local(sw[0][2]['rv'].get('op')) if sw[0][2]['rv']['k'] == 'use' else None
    packs = [(b, t) for b, t in calls if cname(t) and cname(t).startswith(T) and len(t['args']) == 3 and body.local_ty(t['dest']['l']) == 'u64'
             and wl is not None and t['dest']['l'] in flow.backward([wl])]
    if len(packs) != 1:
        ctx.bad('C09.H2', which + '|pack', site(body), 'the value written to the clock is not the result of one `pack` call (unrecognised idiom, fail closed)')
        return
    pb, pt = packs[0]
    a_time, a_ctr, a_node = [op_local(a) for a in pt['args']]

    # ---- H2 -----------------------------------------------------------------------
    nb = flow.backward([a_node]) if a_node is not None else set()
    node_calls = [(b, t) for b, t in calls if cname(t) == HT + 'node' and t['dest']['l'] in nb]
    own = False
    for b, t in node_calls:
        src = flow.backward([op_local(t['args'][0])])
        if 1 in src and (which == 'send' or 2 not in src):
            own = True
    ctx.ob('C09.H2', which + '|own-node-id', own and len(node_calls) == 1, site(body, pt['cs']),
           'node id packed into the new state comes from self.node()' if own and len(node_calls) == 1 else
           'node id packed into the new state does not come (only) from self.node(): issued stamps carry a foreign / constant node id')
    if which == 'send':
        good = False
        for b in oks:
            for s in body.blocks[b]['s']:
                if s['k'] == 'assign' and s['lhs']['l'] == 0 and s['rv']['k'] == 'aggregate':
                    l = op_local(s['rv']['ops'][0])
                    if l is not None:
                        for b2, j2, s2 in body.assigns():
                            if s2['lhs']['l'] == l and s2['rv']['k'] == 'use':
                                pl = op_place(s2['rv']['op'])
                                if pl and pl['l'] == 1 and pl['p'] == ['*'] and (b2 in after):
                                    good = True
        ctx.ob('C09.H2', 'send|returns-new-state', good, site(body),
               'send returns a copy of *self taken after the state write' if good else 'send does not return the freshly written state')

    # ---- H3 ----------------------------------------------------------------------------
    leaves, kinds = max_leaves(body, flow, a_time)
    mins = [k for k in kinds if k[0] == 'min']
    leaf_roles = set()
    for n, t in leaves:
        if n == WALL:
            leaf_roles.add('wall')
        elif n == HT + 'datacake_timestamp':
            src = flow.backward([op_local(t['args'][0])])
            if 2 in src and which == 'recv' and 1 not in src:
                leaf_roles.add('msg')
            elif 1 in src:
                leaf_roles.add('old')
        else:
            leaf_roles.add('other:' + str(n))
    need = {'wall', 'old'} | ({'msg'} if which == 'recv' else set())
    ok3 = bool(kinds) and not mins and need <= leaf_roles
    ctx.ob('C09.H3', which + '|max-join', ok3, site(body, pt['cs']),
           'logical time = max-join over %s' % sorted(leaf_roles) if ok3 else
           'logical time packed into the state is not a max-join of %s (found joins %s over %s): the clock can move backwards when the wall clock does, or ignore a received stamp'
           % (sorted(need), [k[0] for k in kinds], sorted(leaf_roles)))

    # ---- H4 -----------------------------------------------------------------------------
    guards = []
    for c in comparisons(body):
        if c['rel'] not in ('>', '>=', '<', '<='):
            continue
        for side, other in (('lhs', 'rhs'), ('rhs', 'lhs')):
            l = c[side]
            if l is None or c[other] is None:
                continue
            consts = named_consts_of(facts, body, c[other], flow)
            if T + 'MAX_CLOCK_DRIFT' not in consts:
                continue
            # the measured quantity: saturating_sub(x, wall)
            subs = [(b, t) for b, t in calls if cname(t) and cname(t).startswith('core::time::Duration::') and 'sub' in last_seg(cname(t))
                    and len(t['args']) == 2 and t['dest']['l'] in flow.backward([l])]
            subs += [(b, t) for b, t in calls if cname(t) == 'core::ops::arith::Sub::sub' and t['dest']['l'] in flow.backward([l])]
            for sb_, st_ in subs:
                meth = cname(st_).rsplit('::', 1)[1]
                x, w = op_local(st_['args'][0]), op_local(st_['args'][1])
                xl, _k = max_leaves(body, flow, x)
                x_roles = set()
                for n, t in xl:
                    if n == WALL:
                        x_roles.add('wall')
                    elif n == HT + 'datacake_timestamp':
                        src = flow.backward([op_local(t['args'][0])])
                        x_roles.add('msg' if (2 in src and 1 not in src and which == 'recv') else 'old')
                w_is_wall = any(cname(t) == WALL and t['dest']['l'] in flow.backward([w]) for b, t in calls)
                rel = c['rel'] if side == 'lhs' else FLIP[c['rel']]
                # drifted edge: measured > MAX  -> must lead to Err; write dominated by the other edge
                drift_edge = c['true_edge'] if rel in ('>', '>=') else c['false_edge']
                safe_edge = c['false_edge'] if rel in ('>', '>=') else c['true_edge']
                full_res = all('core::time::Duration' in body.local_ty(c[k]) for k in ('lhs', 'rhs'))
                guards.append({'meth': meth, 'x_roles': x_roles, 'w_is_wall': w_is_wall, 'rel': rel, 'full_res': full_res,
                               'dom': body.edge_dominates(safe_edge, wb), 'line': c['line'],
                               'drift_to_err': bool(set(errs) & body.reachable_from([drift_edge[1]])) and wb not in body.reachable_from([drift_edge[1]])})
    def guard_ok(g, roles):
        return g['meth'] == 'saturating_sub' and g['w_is_wall'] and roles <= g['x_roles'] and g['dom'] and g['drift_to_err'] and g['rel'] in ('>', '>=') and g['full_res']
    new_roles = {'wall', 'old'} | ({'msg'} if which == 'recv' else set())
    g_new = [g for g in guards if guard_ok(g, new_roles)]
    ctx.ob('C09.H4', which + '|drift-guard-new-time', bool(g_new), site(body),
           'state write dominated by the not-drifted edge of `(new_time saturating_sub wall) > MAX_CLOCK_DRIFT`' if g_new else
           ('the drift is compared only after being truncated to a coarser unit (operands are not Durations): a clock up to one unit beyond the permitted drift is accepted' if any(not g['full_res'] for g in guards) else 'no drift guard on the new logical time dominates the state write (guards seen: %s): the clock can run ahead of the wall clock without bound' % guards))
    if which == 'recv':
        g_msg = [g for g in guards if g['meth'] == 'saturating_sub' and g['w_is_wall'] and g['x_roles'] == {'msg'} and g['dom'] and g['drift_to_err'] and g['full_res']]
        ctx.ob('C09.H4', 'recv|drift-guard-message', bool(g_msg), site(body),
               'message time is drift-checked before it can influence the clock' if g_msg else 'the remote timestamp is not drift-checked')
        # equal node id refused before any clock read
        eqs = [c for c in comparisons(body) if c['rel'] in ('==', '!=')]
        refused = False
        for c in eqs:
            la, lb = flow.backward([c['lhs']]) if c['lhs'] is not None else set(), flow.backward([c['rhs']]) if c['rhs'] is not None else set()
            node_l = [t for b, t in calls if cname(t) == HT + 'node' and t['dest']['l'] in la]
            node_r = [t for b, t in calls if cname(t) == HT + 'node' and t['dest']['l'] in lb]
            if node_l and node_r:
                eq_edge = c['true_edge'] if c['rel'] == '==' else c['false_edge']
                ne_edge = c['false_edge'] if c['rel'] == '==' else c['true_edge']
                wall_blocks = [b for b, t in calls if cname(t) == WALL]
                if all(body.edge_dominates(ne_edge, b) for b in wall_blocks) and body.edge_dominates(ne_edge, wb) \
                        and wb not in body.reachable_from([eq_edge[1]]):
                    refused = True
        ctx.ob('C09.H4', 'recv|same-node-refused', refused, site(body),
               'a message carrying the clock\'s own node id is refused before the clock is read or written' if refused else
               'equal node id is not refused before the state write')

    # ---- H5 ------------------------------------------------------------------------------
    cb = flow.backward([a_ctr]) if a_ctr is not None else set()
    producers = []
    for b, t in calls:
        n = cname(t)
        if t['dest']['l'] in cb and n and re.match(r'core::num::<impl u(8|16|32|64)>::', n):
            producers.append((n.rsplit('::', 1)[1], t))
    for b, j, s in body.assigns():
        if s['lhs']['l'] in cb and s['rv']['k'] == 'bin' and s['rv']['op'].startswith(('Add', 'Sub', 'Mul')):
            producers.append((s['rv']['op'], s))
    badp = [p for p in producers if p[0] != 'checked_add']
    good = bool(producers) and not badp
    for name_, t in producers:
        if name_ == 'checked_add':
            if const_int(t['args'][1]) != 1:
                good = False
            # overflow -> error: result goes through ok_or / ok_or_else and a Try::branch
            fw = flow.forward([t['dest']['l']], stop=[0])
            conv = any(cname(t2) in ('core::option::Option::ok_or', 'core::option::Option::ok_or_else') and t2['dest']['l'] in fw for b2, t2 in calls)
            br = any(cname(t2) == 'core::ops::try_trait::Try::branch' and t2['dest']['l'] in fw for b2, t2 in calls)
            unw = any(cname(t2) in ('core::option::Option::unwrap', 'core::option::Option::expect', 'core::option::Option::unwrap_or', 'core::option::Option::unwrap_or_default') and t2['dest']['l'] in fw for b2, t2 in calls)
            if not (conv and br) or unw:
                good = False
    ctx.ob('C09.H5', which + '|counter', good, site(body, pt['cs']),
           'counter is 0 or checked_add(_, 1) with overflow converted into an error (%d increment site(s))' % len(producers) if good else
           'counter arithmetic feeding the new state uses %s (must be checked_add(_,1) + ok_or + `?`): on exhaustion the counter wraps / saturates and a duplicate or smaller stamp is issued'
           % sorted({p[0] for p in producers}))
    # ---- H6: when logical time does not advance past the old state (resp. the message), the new counter depends on the old
    #          counter (resp. the message counter).  Path-sensitive over the equality tests between new / old / message time.
    def role_of(local):
        roots = referent_roots(body, local) | {local}
        back = set()
        for r in roots:
            back |= flow.backward([r])
        if a_time in back or any(a_time in flow.forward([r], stop=[0]) and body.local_ty(r) == 'core::time::Duration' and
                                 any(t['dest']['l'] == r and cname(t) in ('core::cmp::max', 'core::cmp::Ord::max') for _b, t in calls) for r in roots):
            return 'new'
        for r in roots:
            for _b, t in calls:
                if t['dest']['l'] == r and cname(t) == HT + 'datacake_timestamp':
                    src = flow.backward([op_local(t['args'][0])])
                    return 'msg' if (which == 'recv' and 2 in src and 1 not in src) else 'old'
        return None
    eq_of = {}   # result local -> (key, polarity)
    for c in all_comparisons(body):
        if c['rel'] not in ('==', '!=') or c['lhs'] is None or c['rhs'] is None:
            continue
        ra, rb = role_of(c['lhs']), role_of(c['rhs'])
        if 'new' in (ra, rb) and (ra in ('old', 'msg') or rb in ('old', 'msg')):
            key6 = ra if ra != 'new' else rb
            eq_of[c['dest']] = (key6, c['rel'] == '==')
    # counter definitions
    ctr = a_ctr
    for _ in range(4):
        ds = [s for _b, _j, s in body.assigns() if s['lhs']['l'] == ctr and not s['lhs']['p']]
        if len(ds) == 1 and ds[0]['rv']['k'] == 'use' and op_local(ds[0]['rv']['op']) is not None and not op_place(ds[0]['rv']['op'])['p']:
            ctr = op_local(ds[0]['rv']['op'])
        else:
            break
    cdefs = [(b, s) for b, _j, s in body.assigns() if s['lhs']['l'] == ctr and not s['lhs']['p']]
    c_old = {t['dest']['l'] for _b, t in calls if cname(t) == HT + 'counter' and 1 in flow.backward([op_local(t['args'][0])])
             and not (which == 'recv' and 2 in flow.backward([op_local(t['args'][0])]) and 1 not in flow.backward([op_local(t['args'][0])]))}
    c_msg = {t['dest']['l'] for _b, t in calls if cname(t) == HT + 'counter' and which == 'recv' and 2 in flow.backward([op_local(t['args'][0])])
             and 1 not in flow.backward([op_local(t['args'][0])])}
    reach_states = {}
    seen6 = set()
    work6 = [(0, ())]
    while work6:
        blk6, facts6 = work6.pop()
        if (blk6, facts6) in seen6:
            continue
        seen6.add((blk6, facts6))
        reach_states.setdefault(blk6, set()).add(facts6)
        t6 = body.term(blk6)
        succs = list(body.succ(blk6))
        if t6['k'] == 'switch':
            l6 = op_local(t6['discr'])
            if l6 in eq_of:
                key6, pos = eq_of[l6]
                fd = dict(facts6)
                tm = {int(v): tb for v, tb in t6['targets']}
                f_t = tm.get(0, t6['otherwise'])
                t_t = t6['otherwise'] if 0 in tm else tm.get(1)
                for val, tgt in ((True, t_t), (False, f_t)):
                    if tgt is None:
                        continue
                    truth = val if pos else (not val)
                    if key6 in fd and fd[key6] != truth:
                        continue
                    nf = dict(fd)
                    nf[key6] = truth
                    work6.append((tgt, tuple(sorted(nf.items()))))
                continue
        for s6 in succs:
            work6.append((s6, facts6))
    need = {'old': c_old, 'msg': c_msg} if which == 'recv' else {'old': c_old}
    good6, why6 = bool(cdefs) and bool(eq_of), []
    for b6, s6 in cdefs:
        deps = set()
        for pl in rv_places(s6['rv']):
            deps |= flow.backward([pl['l']])
        for facts6 in reach_states.get(b6, ()):
            fd = dict(facts6)
            for key6, srcs in need.items():
                if fd.get(key6, True) is not False and not (deps & srcs):
                    good6 = False
                    why6.append('the counter written at line %s is reachable while new time == %s time%s, yet does not depend on the %s counter'
                                % (s6['cs'], key6, '' if key6 in fd else ' is not excluded', 'clock\'s own' if key6 == 'old' else 'message'))
    ctx.ob('C09.H6', which + '|counter-depends-on-equal-time-source', good6, site(body, pt['cs']),
           'whenever the new logical time may equal the old state\'s (the message\'s) time, the new counter is computed from the old (the message) counter' if good6 else
           ('; '.join(sorted(set(why6))[:2]) or 'counter definitions / time equality tests not recognised (fail closed)') +
           ': the clock can issue (or move to) a stamp that is not greater than one it issued or accepted before')
    # constant 0 reset exists
    zero = any(s['lhs']['l'] in cb and s['rv']['k'] == 'use' and const_int(s['rv']['op']) == 0 for b, j, s in body.assigns())
    ctx.ob('C09.H5', which + '|counter-reset', zero, site(body), 'counter resets to constant 0 when logical time advances' if zero else 'no constant-0 reset of the counter found')
    nwall = len([1 for b, t in calls if cname(t) == WALL])
    ctx.ob('C09.H5', which + '|wall-read-once', nwall == 1, site(body), 'wall clock read %d time(s) per call' % nwall)


def check(ctx):
    global WALL
    facts = ctx.facts('prod')
    # the wall-clock reader, by role: the argument-less crdt function returning a Duration from which SystemTime::now is reachable
    cg = CallGraph(facts)
    for b in facts.bodies.values():
        if b.crate == 'datacake_crdt' and b.kind == 'fn' and b.argc == 0 and b.local_ty(0) == 'core::time::Duration' and not b.d['promoted']:
            reach = cg.reach([b], bound=3)
            if any(cname(t) == 'std::time::SystemTime::now' for rb in reach for _b, t in rb.calls()):
                callers = [1 for x in facts.bodies.values() if x.name in (HT + 'send', HT + 'recv') for _b, t in x.calls() if cname(t) == b.name]
                if callers:
                    WALL = b.name
    # SEM: send / recv summarised by P-ORDER over the order types of (clock time, wall time, message time) and compared with the
    # hybrid-clock algorithm (hlc_abs).  Subsumes H1-H6, which are evaluated only when a construct is not modelled.
    # CODEC: send / recv take the clock apart and put it together again through the packer and the accessors: the packed word reads
    # back every field as it was written (= C10.SEM / C10.E1, re-evaluated under C09).  An accessor that clamps a field (round 6, C09f:
    # fractional() capped "so that Display always re-parses") makes the re-packed clock smaller than the stamp just accepted.
    import bits_abs
    import c10
    n0 = len(ctx.obs)
    if not bits_abs.check_layout(ctx, facts, 'C09.CODEC'):
        c10.check_E5(ctx, facts)
        c10.check_E1(ctx, facts)
    for o in ctx.obs[n0:]:
        o.rule = o.rule.replace('C10.E', 'C09.CODEC.E')
    # NODE: where the clock is used by several tasks it is owned by the node's clock actor; "a stamp issued after a stamp was registered is
    # greater than it" then also needs the handle to hand every foreign stamp to the actor and the actor to merge it before it answers
    # (= C11.SEM, re-evaluated; round 7, C09g: register_ts skipped the actor below a shared "newest seen" mark raised before the hand-over)
    import actor_abs
    actor_abs.check_clock_actor(ctx, facts, 'C09.NODE')
    actor_abs.check_clock_handle(ctx, facts, 'C09.NODE')
    import hlc_abs
    if hlc_abs.check_hlc(ctx, facts, 'C09.SEM'):
        return
    for which in ('send', 'recv'):
        b = facts.body(HT + which)
        if b is None:
            ctx.bad('C09.H1', which + '|anchor', '', 'HLCTimestamp::%s not found (fail closed)' % which)
            continue
        check_body(ctx, facts, b, which)
