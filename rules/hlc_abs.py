"""C09: the hybrid logical clock (HLCTimestamp::send / ::recv), summarised by P-ORDER.

Abstract input: the order of the clock's logical time `old`, the wall clock `wall` (and the message's time `msg`), whether
the two node ids are equal, and oracles for "the drift a - b exceeds the limit" and "the counter is at its maximum".  The
packed word is kept as a record (time, counter, node): the public accessors read it, and whichever private function
packs (time, counter, node) into the u64 builds it — so tuple / struct / helper refactorings of the codec are seen through.
The summary (new state, result) is compared with the HLC algorithm."""
import itertools
import absint
from absint import Interp, Order, Cell, Unmodelled, explore, mk_option, mk_bool, UNIT
from facts import strip_generics, last_seg, ty_head

HT = 'HLCTimestamp'


def deep_find(interp, v, kinds, out, depth=0):
    if v is None or depth > 6:
        return
    v = interp.deref_all(v)
    if v is None:
        return
    if v[0] in kinds:
        out.append(v)
    if v[0] == 'adt':
        for c in v[3]:
            deep_find(interp, c.v, kinds, out, depth + 1)
    elif v[0] == 'tuple':
        for c in v[1]:
            deep_find(interp, c.v, kinds, out, depth + 1)
    elif v[0] == 'sym':
        for x in v[1][1:]:
            if isinstance(x, tuple):
                deep_find(interp, x, kinds, out, depth + 1)


def dur_of(interp, v):
    """the single time symbol a value is derived from (a Duration, or seconds / sub-second parts computed from it)"""
    found = []
    deep_find(interp, v, ('dur', 'secs', 'ms'), found)
    syms = {f[1] for f in found}
    return syms.pop() if len(syms) == 1 else None


LAYOUT = {'seconds': (32, 32), 'fractional': (24, 8), 'counter': (8, 16), 'node': (0, 8)}      # (decided for the constructor by C10.SEM)
WIDTHS = {'u8': 8, 'u16': 16, 'u32': 32, 'u64': 64, 'usize': 64}


def frac_of(d):
    return ('sym', ('frac', ('ms', d)))


def bits_value(d, c, n, shift, width):
    """the word (time d, counter c, node n) shifted right by `shift` and truncated to `width` bits: one whole field, the word, or an
    intermediate that is still to be masked / cast"""
    width = min(width, 64 - shift)
    if (shift, width) == (0, 64):
        return ('hlcword', d, c, n)
    if shift == 32 and width >= 32:
        return ('secs', d)
    if (shift, width) == LAYOUT['fractional']:
        return frac_of(d)
    if (shift, width) == LAYOUT['counter']:
        return ('ctr', c)
    if (shift, width) == LAYOUT['node']:
        return ('node', n)
    return ('hlcbits', d, c, n, shift, width)


def ext_binop(interp, op, a, b):
    """shifts / masks on the packed word and the arithmetic between a time and its (seconds, 4 ms fraction) parts"""
    k = b[1] if b[0] == 'int' and b[1] is not None else None
    if a[0] in ('hlcword', 'hlcbits') and k is not None:
        d, c, n = a[1], a[2], a[3]
        shift, width = (a[4], a[5]) if a[0] == 'hlcbits' else (0, 64)
        if op in ('Shr', 'ShrUnchecked'):
            if k >= width:
                return ('int', 0)
            return bits_value(d, c, n, shift + k, width - k)
        if op == 'BitAnd' and k > 0 and (k & (k + 1)) == 0:
            return bits_value(d, c, n, shift, min(width, k.bit_length()))
        raise Unmodelled('%s on the packed word' % op)
    if a[0] in ('hlcword', 'hlcbits') or b[0] in ('hlcword', 'hlcbits'):
        if op in ('Eq', 'Ne') and a[0] == b[0] == 'hlcword':
            return None
        raise Unmodelled('%s on the packed word' % op)
    # a time counted in fraction steps: seconds * k + fraction (k above the largest fraction, so the count orders like the time),
    # taken apart again with / k and % k
    if a[0] == 'secs' and op in ('Mul', 'MulWithOverflow') and k:
        v = ('secsmul', a[1], k)
        return ('tuple', [Cell(v), Cell(mk_bool(False))]) if op.endswith('WithOverflow') else v
    if op in ('Add', 'AddWithOverflow') and {a[0], b[0]} == {'secsmul', 'sym'}:
        sm, fr = (a, b) if a[0] == 'secsmul' else (b, a)
        if fr[1][0] == 'frac' and fr[1][1][1] == sm[1]:
            if sm[2] < 250:
                raise Unmodelled('a time counted in steps of which a second has fewer than the fraction can reach')
            v = ('ticks', sm[1], sm[2])
            return ('tuple', [Cell(v), Cell(mk_bool(False))]) if op.endswith('WithOverflow') else v
        raise Unmodelled('seconds and fraction of two different times added')
    if a[0] == 'ticks' and k is not None and op in ('Div', 'Rem'):
        if k != a[2]:
            raise Unmodelled('a step count divided by something other than its steps per second')
        return ('secs', a[1]) if op == 'Div' else frac_of(a[1])
    if a[0] == 'ticks' and b[0] == 'ticks' and op in ('Lt', 'Le', 'Gt', 'Ge', 'Eq', 'Ne'):
        if a[2] != b[2]:
            raise Unmodelled('step counts of different units compared')
        return mk_bool(interp.ts_rel(op, a, b))
    if a[0] == 'durdiff' and op in ('Lt', 'Le', 'Gt', 'Ge') and (b[0] == 'const' or k is not None):
        return drift_test(interp, a, b, op.lower())
    # the 4 ms fraction: sub-second reading / k, and back: fraction * k
    if a[0] == 'ms' and op == 'Div' and k:
        return frac_of(a[1])
    if a[0] == 'sym' and a[1][0] == 'frac' and op in ('Mul', 'MulWithOverflow') and k:
        v = ('ms', a[1][1][1])
        return ('tuple', [Cell(v), Cell(mk_bool(False))]) if op.endswith('WithOverflow') else v
    return None


def drift_test(interp, a, b, seg):
    """`a - b > limit`: an oracle per (a, b), the limit recorded (a named constant, or a number of steps with its unit)"""
    if a[3] in ('<', '='):
        big = False                      # the difference saturates at zero
    else:
        memo = interp.__dict__.setdefault('memo', {})
        key = ('drift', interp.canon(a[1]), interp.canon(a[2]))
        if key not in memo:
            memo[key] = interp.choose('drift:%s-%s' % (key[1], key[2]))
        big = memo[key]
    unit = a[4] if len(a) > 4 else None
    if (unit is None) != (b[0] == 'const'):
        raise Unmodelled('a drift in steps compared with a Duration limit or the other way round')
    interp.trace.append(('drift-limit', b[1] if unit is None else 'steps:%d/%d' % (b[1], unit)))
    return mk_bool({'gt': big, 'ge': big, 'lt': not big, 'le': not big}[seg])


def ext_cast(interp, v, ty):
    if v[0] in ('hlcword', 'hlcbits') and ty in WIDTHS:
        shift, width = (v[4], v[5]) if v[0] == 'hlcbits' else (0, 64)
        return bits_value(v[1], v[2], v[3], shift, min(width, WIDTHS[ty]))
    return None


def make_hook(hlc_adt, wall_names=()):
    def word_of(interp, v):
        v = interp.deref_all(v)
        if v is not None and v[0] == 'adt' and v[1].endswith('::' + HT) and v[3] and v[3][0].v is not None and v[3][0].v[0] == 'hlcword':
            return v[3][0].v
        return None

    def hook(interp, name, args, t, body):
        seg = last_seg(name)
        if name.endswith('::get_datacake_timestamp') or name in wall_names:
            interp.trace.append('wall-read')
            return ('dur', 'wall')
        if ('::' + HT + '::') in name and not name.startswith('<'):
            w = word_of(interp, args[0]) if args else None
            if w is not None:
                if seg == 'datacake_timestamp':
                    return ('dur', w[1])
                if seg == 'counter':
                    return ('ctr', w[2])
                if seg == 'node':
                    return ('node', w[3])
                if seg == 'seconds':
                    return ('secs', w[1])
                if seg == 'fractional':
                    return ('sym', ('frac', ('ms', w[1])))
                if seg == 'as_u64':
                    return w
                if seg in ('send', 'recv'):
                    return None
            if seg == 'new' and len(args) == 3:
                d = dur_of(interp, args[0])
                if d is not None and args[1][0] in ('ctr', 'int') and args[2][0] == 'node':
                    return ('adt', hlc_adt, 0, [Cell(('hlcword', d, args[1][1] if args[1][0] == 'ctr' else ('const', args[1][1]), args[2][1]))])
            if seg == 'from_u64' and args and args[0][0] == 'hlcword':
                return ('adt', hlc_adt, 0, [Cell(args[0])])
        # the packer: a workspace function that returns the u64 word from a time, a counter and a node id
        if name.startswith('datacake_crdt::') and body is not None and not t['dest']['p'] and body.local_ty(t['dest']['l']) == 'u64':
            ds, cs, ns = [], [], []
            for a in args:
                deep_find(interp, a, ('dur', 'secs', 'ms'), ds)
                deep_find(interp, a, ('ctr',), cs)
                deep_find(interp, a, ('node',), ns)
            ints = [a for a in args if a[0] == 'int']
            if not ints and not cs:
                deep_find(interp, args[0] if len(args) == 1 else None, ('int',), ints)      # (the parts travel in one struct / tuple)
            if ds and len({x[1] for x in ds}) == 1 and len(ns) == 1 and (len(cs) == 1 or (not cs and len(ints) == 1)):
                ctr = cs[0][1] if cs else ('const', ints[0][1])
                return ('hlcword', ds[0][1], ctr, ns[0][1])
        if name.startswith('core::time::Duration::') and args:
            a0 = interp.deref_all(args[0])
            if seg == 'as_secs' and a0 is not None and a0[0] == 'dur':
                return ('secs', a0[1])
            if seg in ('subsec_millis', 'subsec_nanos', 'subsec_micros') and a0 is not None and a0[0] == 'dur':
                return ('ms', a0[1])
            # a time put together again from its own parts
            if seg == 'from_secs' and a0 is not None and a0[0] == 'secs':
                return ('durpart', 'secs', a0[1])
            if seg in ('from_millis', 'from_micros', 'from_nanos') and a0 is not None and a0[0] == 'ms':
                return ('durpart', 'ms', a0[1])
        if name in ('core::ops::arith::Add::add', 'core::time::Duration::saturating_add') and len(args) == 2 and args[0][0] == 'durpart' and args[1][0] == 'durpart':
            if args[0][2] == args[1][2] and {args[0][1], args[1][1]} == {'secs', 'ms'}:
                return ('dur', args[0][2])
            raise Unmodelled('a time assembled from the parts of two different times')
        if name in ('core::time::Duration::saturating_sub', 'core::time::Duration::checked_sub') and args[0][0] == 'dur' and args[1][0] == 'dur':
            r = interp.order.cmp(args[0][1], args[1][1])
            v = ('durdiff', args[0][1], args[1][1], r)
            return v if seg == 'saturating_sub' else (mk_option(v) if r != '<' else mk_option(None))
        if name.startswith('core::cmp::PartialOrd::') and len(args) == 2:
            a, b = interp.deref_all(args[0]), interp.deref_all(args[1])
            if a is not None and b is not None and a[0] == 'durdiff' and b[0] == 'const':
                return drift_test(interp, a, b, seg)
        if name.startswith('core::num::') and seg in ('saturating_sub', 'checked_sub') and len(args) == 2 and args[0][0] == 'ticks' and args[1][0] == 'ticks':
            if args[0][2] != args[1][2]:
                raise Unmodelled('step counts of different units subtracted')
            r = interp.order.cmp(args[0][1], args[1][1])
            v = ('durdiff', args[0][1], args[1][1], r, args[0][2])
            return v if seg == 'saturating_sub' else (mk_option(v) if r != '<' else mk_option(None))
        if name.startswith('core::num::') and seg == 'checked_add' and args[0][0] == 'ctr':
            if args[1][0] == 'int' and args[1][1] == 1:
                over = interp.choose('overflow:%s' % (args[0][1],))
                return mk_option(None) if over else mk_option(('ctr', ('+1', args[0][1])))
            raise Unmodelled('counter advanced by something other than 1')
        if name.startswith('core::num::') and seg in ('wrapping_add', 'saturating_add', 'overflowing_add') and args[0][0] == 'ctr':
            raise Unmodelled('counter advanced with %s: exhaustion is not reported' % seg)
        if name in ('core::cmp::max', 'core::cmp::Ord::max') and args[0][0] == 'ctr' and args[1][0] == 'ctr':
            return ('ctr', ('max', args[0][1], args[1][1]))
        if name in ('core::cmp::PartialEq::eq', 'core::cmp::PartialEq::ne') and len(args) == 2:
            a, b = interp.deref_all(args[0]), interp.deref_all(args[1])
            if a is not None and b is not None and a[0] == 'node' and b[0] == 'node':
                return mk_bool((a[1] == b[1]) == (seg == 'eq'))
        return None
    return hook


def weak_orders(names):
    """all total preorders of `names` as {name: rank}"""
    out = []
    n = len(names)
    for ranks in itertools.product(range(n), repeat=n):
        used = sorted(set(ranks))
        if used != list(range(len(used))):
            continue
        out.append(dict(zip(names, ranks)))
    return out


def order_of(ranks):
    import versions_abs
    return versions_abs.rank_order(ranks)


def canon_factory(ranks):
    def canon(sym):
        if sym not in ranks:
            return sym
        same = sorted(s for s in ranks if ranks[s] == ranks[sym])
        return same[0]
    return canon


def run_method(facts, body, hlc_adt, self_word, msg_word, ranks, wall_names=()):
    def run(choices):
        it = Interp(facts, order_of(ranks), opaque_call=make_hook(hlc_adt, wall_names))
        it.choices = list(choices)
        it.canon = canon_factory(ranks)
        it.ext_binop = ext_binop
        it.ext_cast = ext_cast
        selfv = ('adt', hlc_adt, 0, [Cell(self_word)])
        sc = Cell(selfv)
        args = [('ref', sc)]
        if msg_word is not None:
            args.append(('ref', Cell(('adt', hlc_adt, 0, [Cell(msg_word)]))))
        r = it.run_body(body, args)
        cur = it.deref_all(('ref', sc))          # (the state may be written field-wise or replaced as a whole: `*self = ..`)
        word = cur[3][0].v if cur is not None and cur[0] == 'adt' and cur[3] else None
        return it.oracle_log, (word, r, list(it.trace))
    return explore(run)


def err_name(facts, r):
    """None for Ok, else the name of the error variant"""
    if r is None or r[0] != 'adt' or r[1] != 'core::result::Result':
        return '?'
    if r[2] == 0:
        return None
    e = r[3][0].v
    if e[0] == 'adt':
        a = facts.adts.get(e[1])
        if a:
            return a['variants'][e[2]]['name']
    return '?'


def normctr(c):
    if isinstance(c, tuple) and c and c[0] == 'max':
        return ('max',) + tuple(sorted(normctr(x) for x in c[1:]))
    if isinstance(c, tuple):
        return tuple(normctr(x) for x in c)
    return c


def simp(c, canon):
    """counter expression with time-equal symbols identified"""
    if isinstance(c, tuple):
        return tuple(simp(x, canon) for x in c)
    return c


def check_hlc(ctx, facts, rule):
    from orswot_abs import _fallback
    try:
        adts = [n for n in facts.adts if n.startswith('datacake_crdt::') and n.endswith('::' + HT)]
        if len(adts) != 1:
            raise Unmodelled('HLCTimestamp not found')
        hlc_adt = adts[0]
        send = [b for b in facts.bodies.values() if b.crate == 'datacake_crdt' and not b.d['promoted'] and b.name.endswith('::' + HT + '::send')]
        recv = [b for b in facts.bodies.values() if b.crate == 'datacake_crdt' and not b.d['promoted'] and b.name.endswith('::' + HT + '::recv')]
        if len(send) != 1 or len(recv) != 1:
            raise Unmodelled('HLCTimestamp::send / ::recv not found')
        send, recv = send[0], recv[0]
        # the wall-clock reader by role: an argument-less function of the crate returning a Duration from which SystemTime::now is reachable
        from analysis import CallGraph, cname
        cg = CallGraph(facts)
        wall_names = set()
        for b in facts.bodies.values():
            if b.crate == 'datacake_crdt' and b.kind == 'fn' and b.argc == 0 and b.local_ty(0) == 'core::time::Duration' and not b.d['promoted']:
                if any(cname(t) == 'std::time::SystemTime::now' for rb in cg.reach([b], bound=3) for _b, t in rb.calls()):
                    wall_names.add(b.name)
        S = {}
        for ranks in weak_orders(['old', 'wall']):
            S[tuple(sorted(ranks.items()))] = run_method(facts, send, hlc_adt, ('hlcword', 'old', 'c_old', 'n_self'), None, ranks, wall_names)
        R = {}
        for ranks in weak_orders(['old', 'wall', 'msg']):
            for same_node in (False, True):
                R[(tuple(sorted(ranks.items())), same_node)] = run_method(facts, recv, hlc_adt, ('hlcword', 'old', 'c_old', 'n_self'),
                                                                          ('hlcword', 'msg', 'c_msg', 'n_self' if same_node else 'n_msg'), ranks, wall_names)
    except (Unmodelled, absint.NeedChoice, IndexError, TypeError, KeyError, AttributeError) as e:
        return _fallback(ctx, rule, e)

    def lab(ranks):
        items = sorted(ranks.items(), key=lambda x: x[1])
        out = []
        for i, (n, r) in enumerate(items):
            if i:
                out.append(' = ' if r == items[i - 1][1] else ' < ')
            out.append({'old': 'clock', 'wall': 'wall', 'msg': 'message'}[n])
        return ''.join(out)

    def oracle(log, prefix):
        return {l: v for l, v in log if isinstance(l, str) and l.startswith(prefix)}

    site_s = '%s:%s' % (send.file, send.line)
    site_r = '%s:%s' % (recv.file, recv.line)
    # ---- send ------------------------------------------------------------------------------------------------------------
    for key, results in S.items():
        ranks = dict(key)
        canon = canon_factory(ranks)
        bad = []
        for log, res in results:
            if res and res[0] == 'panic':
                bad.append(('a path panics', None))
                continue
            word, r, trace = res
            new = 'wall' if ranks['old'] < ranks['wall'] else 'old'
            drift = oracle(log, 'drift:')
            over = oracle(log, 'overflow:')
            exp_err = None
            exp_word = ('hlcword', 'old', 'c_old', 'n_self')
            if ranks['old'] > ranks['wall'] and drift.get('drift:old-wall'):
                exp_err = 'ClockDrift'
            elif ranks['old'] >= ranks['wall']:
                if any(over.values()):
                    exp_err = 'Overflow'
                else:
                    exp_word = ('hlcword', new, ('+1', 'c_old'), 'n_self')
            else:
                exp_word = ('hlcword', 'wall', ('const', 0), 'n_self')
            got_err = err_name(facts, r)
            got_word = (word[0], canon(word[1]), word[2], word[3]) if word and word[0] == 'hlcword' else word
            exp_w = (exp_word[0], canon(exp_word[1]), exp_word[2], exp_word[3])
            ok_ret = True
            if got_err is None and exp_err is None:
                rv = r[3][0].v
                rw = rv[3][0].v if rv[0] == 'adt' else None
                ok_ret = rw is not None and (rw[0], canon(rw[1]), rw[2], rw[3]) == exp_w
            # the oracles that must have been consulted
            need_drift = ranks['old'] > ranks['wall']
            if need_drift and 'drift:old-wall' not in drift:
                bad.append(('the drift of the new logical time against the wall clock is not checked', None))
            if got_err != exp_err or got_word != exp_w or not ok_ret:
                bad.append(('state %s, result %s' % (got_word[1:] if got_word else got_word, got_err or 'Ok'), 'state %s, result %s' % (exp_w[1:], exp_err or 'Ok')))
            if trace.count('wall-read') != 1:
                bad.append(('the wall clock is read %d times' % trace.count('wall-read'), 'once'))
        ok_ = bool(results) and not bad
        ctx.ob(rule, 'send|%s' % lab(ranks), ok_, site_s,
               'send with %s follows the hybrid-clock rule (time = max, counter +1 on equal time else 0, drift and exhaustion refused, state written once)' % lab(ranks) if ok_ else
               'send with %s: %s%s' % (lab(ranks), bad[0][0], (' — expected %s' % bad[0][1]) if bad[0][1] else ''))
    limits = set()
    for results in list(S.values()) + list(R.values()):
        for log, res in results:
            if res and res[0] != 'panic':
                limits |= {x[1] for x in res[2] if isinstance(x, tuple) and x[0] == 'drift-limit'}
    limit_ok = len(limits) == 1 and 'MAX_CLOCK_DRIFT' in next(iter(limits))
    if len(limits) == 1 and str(next(iter(limits))).startswith('steps:'):
        # the limit as a number of steps: it must be the drift limit constant's seconds times the steps per second of the counts compared
        from analysis import cname as _cn
        from facts import const_int as _ci
        secs = {_ci(t['args'][0]) for n_, b_ in facts.bodies.items() if b_.kind == 'const' and n_.endswith('::MAX_CLOCK_DRIFT')
                for _b, t in b_.calls() if _cn(t) == 'core::time::Duration::from_secs' and t['args']}
        l_, u_ = next(iter(limits))[6:].split('/')
        limit_ok = len(secs) == 1 and None not in secs and int(l_) == next(iter(secs)) * int(u_)
    ctx.ob(rule, 'drift-limit', limit_ok, site_s, 'every drift test compares against the one drift limit constant (%s)' % sorted(limits) if limit_ok else
           'drift is tested against %s' % sorted(limits))
    # ---- recv ------------------------------------------------------------------------------------------------------------
    for (key, same_node), results in R.items():
        ranks = dict(key)
        canon = canon_factory(ranks)
        bad = []
        for log, res in results:
            if res and res[0] == 'panic':
                bad.append(('a path panics', None))
                continue
            word, r, trace = res
            drift = {l: v for l, v in log if isinstance(l, str) and l.startswith('drift:')}
            over = oracle(log, 'overflow:')
            top = max(ranks.values())
            newc = canon([n for n in ('old', 'wall', 'msg') if ranks[n] == top][0])
            unchanged_w = ('hlcword', canon('old'), 'c_old', 'n_self')
            exp_err, exp_w = None, unchanged_w
            if same_node:
                exp_err = 'DuplicatedNode'
            else:
                d_msg = drift.get('drift:%s-%s' % (canon('msg'), canon('wall'))) if ranks['msg'] > ranks['wall'] else False
                d_new = drift.get('drift:%s-%s' % (newc, canon('wall'))) if top > ranks['wall'] else False
                if ranks['msg'] > ranks['wall'] and ('drift:%s-%s' % (canon('msg'), canon('wall'))) not in drift:
                    bad.append(('the drift of the message time against the wall clock is not checked', None))
                if d_msg or d_new:
                    exp_err = 'ClockDrift'
                else:
                    if top > ranks['wall'] and ('drift:%s-%s' % (newc, canon('wall'))) not in drift:
                        bad.append(('the drift of the new logical time against the wall clock is not checked', None))
                    eq_old, eq_msg = ranks['old'] == top, ranks['msg'] == top
                    if eq_old and eq_msg:
                        base = ('max', 'c_old', 'c_msg')
                    elif eq_old:
                        base = 'c_old'
                    elif eq_msg:
                        base = 'c_msg'
                    else:
                        base = None
                    if base is not None and any(over.values()):
                        exp_err = 'Overflow'
                    else:
                        exp_w = ('hlcword', newc, ('+1', base) if base is not None else ('const', 0), 'n_self')
            got_err = err_name(facts, r)
            got_word = (word[0], canon(word[1]), word[2], word[3]) if word and word[0] == 'hlcword' else word
            if got_word and got_word[0] == 'hlcword':
                got_word = (got_word[0], got_word[1], normctr(got_word[2]), got_word[3])
            exp_w = (exp_w[0], exp_w[1], normctr(exp_w[2]), exp_w[3])
            ok_ret = True
            if got_err is None and exp_err is None:
                rv = r[3][0].v
                rw = rv[3][0].v if rv[0] == 'adt' else None
                ok_ret = rw is not None and rw[0] == 'hlcword' and (canon(rw[1]), normctr(rw[2]), rw[3]) == (exp_w[1], exp_w[2], 'n_msg')
            if got_err != exp_err or got_word != exp_w or not ok_ret:
                bad.append(('state %s, result %s%s' % (got_word[1:] if got_word else got_word, got_err or 'Ok', '' if ok_ret else ' (returned stamp differs from the new state with the sender\'s node id)'),
                            'state %s, result %s' % (exp_w[1:], exp_err or 'Ok')))
            if not same_node and trace.count('wall-read') != 1:
                bad.append(('the wall clock is read %d times' % trace.count('wall-read'), 'once'))
        ok_ = bool(results) and not bad
        k = 'recv|%s|%s' % (lab(ranks), 'same node id' if same_node else 'different node ids')
        ctx.ob(rule, k, ok_, site_r,
               'recv with %s follows the hybrid-clock rule' % lab(ranks) if ok_ else
               'recv with %s (%s): %s%s' % (lab(ranks), 'same node id' if same_node else 'different node ids', bad[0][0], (' — expected %s' % bad[0][1]) if bad[0][1] else ''))
    return True
