"""C05.HOP-SEM: what the repair poller makes of a computed difference (P-TRACE).

get_keyspace_diff is interpreted with the peer's reply and the local actor's answer to `Diff` as modelled effects: the actor
answers (modified = [(m1,tm1),(m2,tm2)], removed = [(r1,tr1)]) and the resulting KeyspaceDiff must carry exactly those entries —
each id with ITS OWN stamp, modifications and removals in their own lists — plus the peer's change stamp.  handle_removals is
interpreted on zero, one and two removals: the keyspace actor must be sent exactly those (id, stamp) pairs as deletes under the
read-repair source (one Del, or one MultiDel), and nothing when the list is empty.  The stamps matter: a repaired tombstone
with any other stamp than the delete's own loses to, or wrongly beats, a concurrent write of that document."""
import re
import absint
from absint import Interp, Order, Cell, Unmodelled, UNIT, mk_option
from facts import strip_generics, last_seg, ty_head
import actor_abs
from actor_abs import World, ok, err, upvar_types

EC = 'datacake_eventual_consistency'
P = EC + '::replication::poller::'


def pairs_in(interp, v):
    """[(id, stamp)] of a vector of DocumentMetadata / (id, stamp) tuples"""
    v = interp.deref_all(v)
    if v is not None and v[0] == 'adt' and v[1].startswith(EC) and not any((interp.deref_all(c.v) or ('',))[0] in ('key', 'ts') for c in v[3]):
        # the list in a private shape (an enum Nothing / Single(entry) / Bulk(entries), a wrapper struct): the entries it holds, in order
        out = []
        for c in v[3]:
            x = interp.deref_all(c.v)
            if x is None:
                continue
            if x[0] == 'vec':
                out += pairs_in(interp, x)
            elif x[0] == 'adt' and x[1].startswith(EC):
                out += pairs_in(interp, x) if not any((interp.deref_all(cc.v) or ('',))[0] in ('key', 'ts') for cc in x[3]) else pairs_in(interp, ('vec', [x]))
        return out
    if v is None or v[0] != 'vec':
        raise Unmodelled('not a vector: %r' % (v[0] if v else None,))
    out = []
    for x in v[1]:
        x = interp.deref_all(x.v if isinstance(x, Cell) else x)
        cells = x[3] if x[0] == 'adt' else x[1] if x[0] == 'tuple' else None
        if cells is None:
            raise Unmodelled('entry of kind %s' % x[0])
        k = t = None
        for c in cells:
            y = interp.deref_all(c.v)
            if y is not None and y[0] == 'key':
                k = y[1]
            elif y is not None and y[0] == 'ts':
                t = y[1]
        out.append((k, t))
    return out


class RepairWorld(World):
    def __init__(self, facts, diff_answer):
        World.__init__(self, hooks=[self.hook])
        self.facts = facts
        self.diff_answer = diff_answer
        self.sent = []
        self.fetched = []
        self.events = []
        self.fetch_fails_at = None
        self.make_doc = None

    def hook(self, world, interp, name, args, t, body):
        seg = last_seg(name)
        if name.startswith('tracing') and seg in ('instrument', 'in_current_span', 'or_current', 'with_subscriber') and args:
            return args[0]
        if name == 'puppet::ActorMailbox::send' or (name.startswith('puppet::') and seg in ('send', 'deferred_send')):
            msg = interp.deref_all(args[1])
            self.sent.append(msg)
            mname = msg[1].rsplit('::', 1)[-1] if msg and msg[0] == 'adt' else '?'
            if mname == 'Diff':
                mod, rem = self.diff_answer
                pair = ('tuple', [Cell(('vec', [('tuple', [Cell(('key', k)), Cell(('ts', s))]) for k, s in mod])),
                                  Cell(('vec', [('tuple', [Cell(('key', k)), Cell(('ts', s))]) for k, s in rem]))])
                # what the actor answers is what its `Diff` handler makes of the set's diff() — interpreted, so the reply may be the pair
                # itself or any private type built from it
                ods = [b_ for n_, b_ in self.facts.bodies.items() if b_.crate == EC and b_.kind == 'coroutine' and b_.cfg is not None
                       and strip_generics(n_).endswith('::KeyspaceActor::on_diff::{closure#0}')]
                od = ods[0] if len(ods) == 1 else None
                if od is not None:
                    self.diff_pair = pair
                    self.on_diff_interpreted = True
                    ups_ = upvar_types(od)
                    n_ = max(ups_) + 1 if ups_ else 0
                    cells_ = [Cell(('ref', Cell(('opaque', 'keyspace-actor'))) if ups_.get(i, '').startswith('&') else msg if 'Diff' in ups_.get(i, '') else ('opaque', 'u')) for i in range(n_)]
                    out_ = interp.run_body(od, [('closure', od.defp, cells_), ('opaque', 'cx')], 1)
                    return ('future', 'ready', out_)
                return ('future', 'ready', pair)
            return ('future', 'ready', ok(UNIT))
        if name.endswith('::OrSWotSet::diff') and getattr(self, 'diff_pair', None) is not None:
            return self.diff_pair
        if name.startswith('puppet::'):
            return ('opaque', 'mailbox:' + seg) if body.local_ty(t['dest']['l']) != '()' else UNIT
        if name.endswith('::KeyspaceGroup::get_or_create_keyspace'):
            return ('future', 'ready', ('opaque', 'mailbox'))
        if name.endswith('::ReplicationClient::fetch_docs'):
            ids = [k for k, _t in pairs_in(interp, ('vec', [('tuple', [Cell(x)]) for x in (interp.deref_all(args[2]) or ('vec', []))[1]]))] if len(args) > 2 else []
            self.fetched.append(ids)
            if self.fetch_fails_at is not None and len(self.fetched) > self.fetch_fails_at:
                return ('future', 'ready', err(('opaque', 'status')))
            return ('future', 'ready', ok(('vec', [self.make_doc(k) for k in ids])))
        if name.endswith('::ProgressTracker::set_done'):
            self.events.append(('set_done', len(self.sent)))
            return UNIT
        if name.endswith('::ProgressTracker::register_progress'):
            return UNIT
        if name.endswith('::ReplicationClient::get_state'):
            return ('future', 'ready', ok(('tuple', [Cell(('ts', 'lu')), Cell(('opaque', 'remote-set'))])))
        return None


def async_body(facts, fn_name):
    """the coroutine holding the code of `async fn fn_name`: its own body, or — under #[instrument] — the async block the
    attribute wraps the body in"""
    inner = facts.bodies.get(fn_name + '::{closure#0}::{closure#0}')
    if inner is not None and inner.kind == 'coroutine':
        return inner
    outer = facts.bodies.get(fn_name + '::{closure#0}')
    if outer is not None and outer.kind == 'coroutine':
        return outer
    return None


def run_async_fn(facts, co, special, world):
    """poll the coroutine `co` to completion with its captured parameters built by type"""
    ups = upvar_types(co)
    it = Interp(facts, Order({}), opaque_call=world.call)
    it.poll_hook = world.poll
    it.unknown_call = actor_abs.lenient_unknown
    it.opaque_fields = True
    it.elastic_take = True      # (round 8, C01h: the difference capped at a constant number of entries per cycle)
    n = max(ups) + 1 if ups else 0
    cells = []
    for i in range(n):
        ty = ups.get(i, '')
        v = special(ty)
        cells.append(Cell(v if v is not None else ('opaque', 'arg:' + ty)))
    st = ('closure', co.defp, cells)
    r = it.deref_all(it.run_body(co, [st, ('opaque', 'cx')]))
    return it, r


def check_repair(ctx, facts, rule):
    from orswot_abs import _fallback
    MOD = [('m1', 'tm1'), ('m2', 'tm2')]
    REM = [('r1', 'tr1')]
    try:
        gk = async_body(facts, P + 'get_keyspace_diff')
        hr = async_body(facts, P + 'handle_removals')
        kd = facts.adts.get(P + 'KeyspaceDiff')
        if gk is None or hr is None or kd is None:
            raise Unmodelled('get_keyspace_diff / handle_removals / KeyspaceDiff not found')
        world = RepairWorld(facts, (MOD, REM))
        it, r = run_async_fn(facts, gk, lambda ty: ('key', 'ks') if ty in ('alloc::string::String', '&str') else None, world)
        if r[0] != 'adt' or r[1] != 'core::result::Result' or r[2] != 0:
            raise Unmodelled('get_keyspace_diff does not return Ok on a successful exchange')
        d = it.deref_all(r[3][0].v)
        ctx.on_diff_interpreted = bool(getattr(world, 'on_diff_interpreted', False))

        def named_fields(v, adt_name, depth=0):
            # the named fields of the result, looking into private structs of the crate it is composed of
            out_ = {}
            a_ = facts.adts.get(adt_name)
            if a_ is None or a_['kind'] != 'struct' or v is None or v[0] != 'adt' or depth > 2:
                return out_
            for f_, c_ in zip(a_['variants'][0]['fields'], v[3]):
                x_ = it.deref_all(c_.v)
                out_.setdefault(f_['name'], x_)
                if x_ is not None and x_[0] == 'adt' and x_[1].startswith(EC):
                    for k_, v_ in named_fields(x_, x_[1], depth + 1).items():
                        out_.setdefault(k_, v_)
            return out_
        fields = named_fields(d, P + 'KeyspaceDiff')
        got_mod = pairs_in(it, fields.get('modified'))
        got_rem = pairs_in(it, fields.get('removed'))
        got_lu = fields.get('last_updated')
        # handle_removals on 0 / 1 / 2 removals
        meta = [n for n in facts.adts if n.startswith(EC + '::') and n.endswith('::DocumentMetadata')]
        if len(meta) != 1:
            raise Unmodelled('DocumentMetadata not found')
        mf = facts.adts[meta[0]]['variants'][0]['fields']

        def md(k, s):
            return ('adt', meta[0], 0, [Cell(('key', k)) if f['ty'] == 'u64' else Cell(('ts', s)) if f['ty'].endswith('HLCTimestamp') else Cell(('opaque', f['name'])) for f in mf])
        sent_for = {}
        for n, lst in ((0, []), (1, [('r1', 'tr1')]), (2, [('r1', 'tr1'), ('r2', 'tr2')])):
            w2 = RepairWorld(facts, ([], []))
            it2, r2 = run_async_fn(facts, hr, lambda ty, lst=lst: ('vec', [md(k, s) for k, s in lst]) if 'DocumentMetadata' in ty else None, w2)
            msgs = []
            for m in w2.sent:
                if m is None or m[0] != 'adt':
                    raise Unmodelled('something other than a message is sent')
                a = facts.adts.get(m[1])
                src = None
                docs = []
                for f, c in zip(a['variants'][0]['fields'], m[3]):
                    v = it2.deref_all(c.v)
                    if f['ty'] == 'usize' and v is not None and v[0] == 'int':
                        src = v[1]
                    elif v is not None and v[0] == 'vec':
                        docs += pairs_in(it2, v)
                    elif v is not None and v[0] == 'adt' and v[1] == meta[0]:
                        docs += pairs_in(it2, ('vec', [v]))
                msgs.append((m[1].rsplit('::', 1)[-1], src, docs))
            sent_for[n] = (msgs, r2)
        # handle_modified: every modified id is fetched from the peer and every fetched document is handed to the actor
        hm = async_body(facts, P + 'handle_modified')
        docadt = [n for n in facts.adts if n.startswith(EC + '::') and n.endswith('::Document')]
        mod_runs = None
        if hm is not None and len(docadt) == 1:
            df = facts.adts[docadt[0]]['variants'][0]['fields']

            def make_doc(k):
                cells = []
                for f in df:
                    if ty_head(f['ty']) == meta[0]:
                        cells.append(Cell(md(k, 'f_' + k)))
                    elif f['ty'] == 'u64':
                        cells.append(Cell(('key', k)))
                    elif f['ty'].endswith('HLCTimestamp'):
                        cells.append(Cell(('ts', 'f_' + k)))
                    else:
                        cells.append(Cell(('opaque', 'doc-field:' + f['name'])))
                return ('adt', docadt[0], 0, cells)
            mod_runs = {}
            for label, fails_at in (('peer answers', None), ('the fetch fails', 0)):
                w3 = RepairWorld(facts, ([], []))
                w3.make_doc = make_doc
                w3.fetch_fails_at = fails_at
                it3, r3 = run_async_fn(facts, hm, lambda ty: ('vec', [md(k, s_) for k, s_ in MOD]) if 'DocumentMetadata' in ty else None, w3)
                sent3 = []
                for m in w3.sent:
                    a = facts.adts.get(m[1]) if m and m[0] == 'adt' else None
                    if a is None:
                        raise Unmodelled('something other than a message is sent')
                    src = None
                    ks = []
                    for f, c in zip(a['variants'][0]['fields'], m[3]):
                        v = it3.deref_all(c.v)
                        if f['ty'] == 'usize' and v is not None and v[0] == 'int':
                            src = v[1]
                        elif v is not None and v[0] == 'vec':
                            for d_ in v[1]:
                                d_ = it3.deref_all(d_.v if isinstance(d_, Cell) else d_)
                                ks += [k for k, _t in pairs_in(it3, ('vec', [d_]))] if d_[0] == 'adt' and d_[1] != docadt[0] else []
                                if d_[0] == 'adt' and d_[1] == docadt[0]:
                                    inner = [it3.deref_all(c2.v) for c2 in d_[3]]
                                    kk = [x[1] for x in inner if x and x[0] == 'key'] + [k for x in inner if x and x[0] == 'adt' for k, _t in pairs_in(it3, ('vec', [x]))]
                                    ks += kk[:1]
                    sent3.append((m[1].rsplit('::', 1)[-1], src, ks))
                mod_runs[label] = (list(w3.fetched), sent3, list(w3.events), r3)
    except (Unmodelled, absint.NeedChoice, absint.PanicPath, IndexError, TypeError, KeyError, AttributeError) as e:
        return _fallback(ctx, rule, e)
    site_ = '%s:%s' % (gk.file, gk.line)
    ok1 = got_mod == MOD and got_rem == REM
    ctx.ob(rule, 'diff-entries-kept', ok1, site_,
           'the difference the local actor computed is carried into KeyspaceDiff entry by entry: each id with its own stamp, modifications and removals in their own lists' if ok1 else
           'the actor answers modified=%s removed=%s but KeyspaceDiff carries modified=%s removed=%s: a removal applied with another stamp than the delete\'s own loses to '
           '(or wrongly beats) a concurrent write of the same document, and an entry in the wrong list is fetched instead of deleted' % (MOD, REM, got_mod, got_rem)
           + ''.join(' — the list is CAPPED at %d entries (the two shown entries stand for a difference of any size): the exchange still records the peer\'s change stamp '
                     'as synced, so whatever is beyond the cap is never asked for again until the peer changes the keyspace' % x[1]
                     for x in it.trace if isinstance(x, tuple) and x[0] == 'take-cut'))
    ok2 = got_lu is not None and got_lu[0] == 'ts' and got_lu[1] == 'lu'
    ctx.ob(rule, 'peer-change-stamp', ok2, site_, 'KeyspaceDiff.last_updated is the change stamp the peer reported with the state' if ok2 else
           'KeyspaceDiff.last_updated is %s, not the stamp the peer reported: the tracker records a stamp the peer never had' % (got_lu,))
    site2 = '%s:%s' % (hr.file, hr.line)
    src_want = 1
    for b in facts.bodies.values():
        pass
    for n, want in ((0, []), (1, [('r1', 'tr1')]), (2, [('r1', 'tr1'), ('r2', 'tr2')])):
        msgs, r2 = sent_for[n]
        docs = [d for _m, _s, ds in msgs for d in ds]
        srcs = {s for _m, s, _ds in msgs}
        okn = docs == want and (not msgs or srcs == {src_want}) and (len(msgs) == (1 if n else 0)) \
            and r2 is not None and r2[0] == 'adt' and r2[1] == 'core::result::Result' and r2[2] == 0
        ctx.ob(rule, 'removals|%d' % n, okn, site2,
               '%d removal(s): the keyspace actor is sent exactly these deletes, with their own stamps, under the read-repair source' % n if okn else
               '%d removal(s) %s: the keyspace actor is sent %s — expected one message carrying exactly these (id, stamp) pairs under source %d%s' % (
                   n, want, [(m, 'source %s' % s, ds) for m, s, ds in msgs], src_want, '' if n else ' (nothing for an empty list)'))
    if mod_runs is not None:
        site3 = '%s:%s' % (hm.file, hm.line)
        fetched, sent3, events, r3 = mod_runs['peer answers']
        ids = [k for ch in fetched for k in ch]
        sent_ids = [k for _m, _s, ks in sent3 for k in ks]
        done_after = [n for e, n in events if e == 'set_done']
        okm = ids == [k for k, _t in MOD] and sent_ids == ids and {s_ for _m, s_, _k in sent3} == {1} and done_after == [len(sent3)] \
            and r3 is not None and r3[0] == 'adt' and r3[2] == 0
        ctx.ob(rule, 'modified|fetched-and-applied', okm, site3,
               'every modified id is fetched from the peer and every fetched document is handed to the keyspace actor under the read-repair source; "done" is set after the last one' if okm else
               'modified ids %s: fetched %s, handed to the actor %s (sources %s), done set after %s message(s), returns %s — every id must be fetched, every fetched document applied '
               'under source 1, and "done" set once after all of them' % ([k for k, _t in MOD], fetched, sent_ids, sorted({str(s_) for _m, s_, _k in sent3}), done_after, 'Ok' if r3 and r3[2] == 0 else 'Err'))
        fetched, sent3, events, r3 = mod_runs['the fetch fails']
        okf = not sent3 and not events and r3 is not None and r3[0] == 'adt' and r3[2] == 1
        ctx.ob(rule, 'modified|failed-fetch-is-an-error', okf, site3,
               'a failed fetch leaves with an error, nothing applied, "done" not set' if okf else
               'when the fetch fails: messages sent %s, events %s, returns %s — a failed exchange must not be reported done' % (sent3, events, 'Ok' if r3 and r3[2] == 0 else 'Err'))
    return True
