"""C03 — merge is commutative, associative, idempotent.  Only clause L is decided (DESIGN §5 C03)."""
from analysis import *  # noqa
import lww
from engine import site as engine_site

CONFIGS = ['prod']
EXPLANATION = (
    "PURE: no operation of the set or of its version vectors lets an ambient reading (wall clock, monotonic clock, randomness, environment, thread / process id — directly or through a workspace helper that returns one) decide a branch, a returned value or a stored value: the outcome is a function of the set and the operation (call graph from every method of OrSWotSet / NodeVersions + derived-from relation per body; the crate's own wall-clock helper is the positive control). VSEM also interprets arithmetic done directly on the PACKED word of a stamp (word - k, checked / saturating) against the layout HLCTimestamp::new really packs: k must be the forgiveness seconds shifted to the seconds field. "
    'SEM (primary): the per-key transfer function of OrSWotSet::merge, computed by abstract interpretation over order types for all 19 abstract inputs and '
    "every answer of the version gates, equals the last-write-wins join (insert wins a tie) with the observed-remove gates, and every path merges the peer'"
    's version stamps; VSEM: the version vectors keep the newer stamp per (source, origin) and recompute the purge cut-off. Structural fallback: '
    'The algebraic laws themselves are NOT decided (they need evaluation of merge over all reachable sets). Decided: '
    'clauses L, B, D, M and S — S: the purge cut-off table has a single writer (the min-over-sources-minus-forgiveness computation), also on the merge path;  D: a timestamp removed from its map is re-inserted, joined, or dropped only where it is the smaller one;  M: every path through merge merges the peer\'s version stamps;  B: a timestamp written into a map slot with `insert` must have competed with what the slot held (re-insert of the looked-up value, max-join with it, or a guard against it); L — in OrSWotSet::merge and NodeVersions::merge, wherever two timestamps compete for one key / one '
    '(source, origin) stamp and one survives, the guard edge normalises to dropped <= survivor; joins use max, never min. '
    'A resolution that keeps the smaller timestamp makes a.merge(b) and b.merge(a) differ on that key, so L is necessary '
    'for commutativity.')
ASSUMPTIONS = ['derived Ord on HLCTimestamp is the packed-word order (checked under C04.T1)']


def check(ctx):
    facts = ctx.facts('prod')
    # PURE (round 8, C04h: the mutators dropped operations stamped too far ahead of the replica's wall clock): set operations read no ambient input
    import purity
    purity.check_pure_core(ctx, facts, 'C03.PURE')
    m = facts.body('datacake_crdt::orswot::OrSWotSet::merge')
    nm = facts.body('datacake_crdt::orswot::NodeVersions::merge')
    if m is None or nm is None:
        ctx.bad('C03.L', 'anchors', '', 'OrSWotSet::merge / NodeVersions::merge not found (fail closed)')
        return
    # SEM: the per-key transfer function of merge over the finite domain of order types (P-ORDER) equals the last-write-wins
    # join with the observed-remove gates; it subsumes L / B / D / M for OrSWotSet::merge, which are evaluated only when
    # the code uses a construct the abstract interpreter does not model.
    import orswot_abs
    if not orswot_abs.check_merge(ctx, facts, 'C03.SEM'):
        n1 = lww.check_bodies(ctx, facts, 'C03.L', [m], 'merge')
        ctx.floor('C03.L', 'survivor guards and joins in OrSWotSet::merge', n1, 5)
        nb = lww.check_blind_overwrites(ctx, facts, 'C03.B', [m])
        ctx.floor('C03.B', 'timestamp stores by insert in OrSWotSet::merge', nb, 4)
        nd = lww.check_guarded_drops(ctx, facts, 'C03.D', [m])
        ctx.floor('C03.D', 'timestamp removals in OrSWotSet::merge', nd, 3)
        # M: every path through merge also merges the version stamps, after the entry log was replayed
        vm = [b for b, t in m.calls() if cname(t) == 'datacake_crdt::orswot::NodeVersions::merge']
        rets = m.return_blocks()
        good = bool(vm) and m.must_pass([0], vm, rets)
        ctx.ob('C03.M', 'merge|versions-merged-on-every-path', good, engine_site(m),
               'every path through merge ends by merging the peer\'s version stamps' if good else
               'merge can return without merging the peer\'s version stamps (early return / fast path): purge cut-offs and refusals then differ between '
               'replicas that merged each other, and re-merging is not idempotent')
    # VSEM: the version vectors, summarised by P-ORDER (max-register per (source, origin); merging recomputes the cut-off the
    # same way an operation does) — subsumes S and L for NodeVersions::merge
    import versions_abs
    if versions_abs.check_versions(ctx, facts, 'C03.VSEM'):
        return
    # S: merging version stamps derives the purge cut-off only through the one cut-off computation
    import c08, gate
    pp = gate.gate_predicates(facts, facts.body('datacake_crdt::orswot::OrSWotSet::purge_old_deletes'))
    pred = sorted(pp)[0] if len(pp) == 1 else 'is_ts_before_last_observed_event'
    writers = c08.cutoff_writers(facts, pred)
    with_min = [b_ for b_ in writers if any(cname(t_) and re.search(r'Iterator::(min|max)$|cmp::(Ord::)?(min|max)$', cname(t_)) for _x, t_ in b_.calls())]
    extra = [b_ for b_ in writers if b_ not in with_min[:1]]
    ctx.ob('C03.S', 'cutoff-table|single-writer', bool(with_min) and not extra, engine_site(extra[0]) if extra else '',
           'version-stamp merging updates the purge cut-off only through the cut-off computation' if with_min and not extra else
           'the purge cut-off table is also written by %s: a replica that learns a stamp by merging gets a different cut-off than one that learns it '
           'from an operation, so merge grouping / order changes which entries survive' % [b_.name.replace('datacake_crdt::orswot::', '') for b_ in extra])
    n2 = lww.check_bodies(ctx, facts, 'C03.L', [nm], 'versions-merge')
    ctx.floor('C03.L', 'survivor guards in NodeVersions::merge', n2, 1)
