"""Behaviour-neutral normalisation of a fact file before the rules see it (DESIGN §4, added in phase 2).

Rules name the functions, types and fields they are anchored in.  A rename of a private item, or the extraction of a new
private helper, changes none of the behaviour the properties are about, so it must not change a verdict.  Against the
reference tables generated from the pinned tree (bin/mkcanon) this module

  * gives a renamed type / function / method / field / variant its reference name back when it can be identified
    unambiguously by its shape (same signature, same external calls / same field types), and
  * reports which functions are NEW (no counterpart on the pinned tree) so that the fact base can inline them into
    their callers.

It never invents a match: anything ambiguous is left alone and the rules then fail closed as before."""
import collections
import json
import os
import re

from facts import strip_generics

_HERE = os.path.dirname(os.path.abspath(__file__))
_ITEMS = None


def items():
    global _ITEMS
    if _ITEMS is None:
        p = os.path.join(_HERE, 'canon_items.json')
        _ITEMS = json.load(open(p)) if os.path.exists(p) else {}
    return _ITEMS


def _callees(b):
    out = []
    for blk in b['blocks']:
        if blk['cleanup']:
            continue
        t = blk['t']
        if t['k'] == 'call' and t.get('callee'):
            out.append((t.get('callee_crate') or '?', strip_generics(t.get('trait') and (t['trait'] + '::' + t['callee'].rsplit('::', 1)[-1]) or t['callee'])))
    return out


def fn_print(b):
    """shape of a function: parameter / return types and its calls to other crates"""
    ext = sorted(n for c, n in _callees(b) if not c.startswith('datacake'))
    return {'kind': b['kind'], 'sig': [l['ty'] for l in b['locals'][:b['argc'] + 1]], 'ext': ext, 'nblocks': len([x for x in b['blocks'] if not x['cleanup']])}


def adt_print(a):
    return {'kind': a['kind'], 'variants': [{'name': v['name'], 'fields': [[f['name'], f['ty']] for f in v['fields']]} for v in a['variants']]}


def _sim(a, b):
    ca, cb = collections.Counter(a), collections.Counter(b)
    inter = sum((ca & cb).values())
    union = sum((ca | cb).values())
    return inter / union if union else 1.0


def _norm_ty(ty, own):
    return ty.replace(own, 'Self')


def plan(d):
    """-> (path_renames {current: reference}, field_renames {adt: {cur: ref}}, variant_renames {adt: {cur: ref}}, new_fns set)"""
    cr = d['crate']
    ref = items().get(cr)
    if not ref:
        return {}, {}, {}, set()
    ren = {}
    # ---- types ------------------------------------------------------------------------------------------------------
    cur_adts = {a['def']: adt_print(a) for a in d['adts']}
    missing = [n for n in ref['adts'] if n not in cur_adts and n.startswith(cr + '::')]
    fresh = [n for n in cur_adts if n not in ref['adts'] and n.startswith(cr + '::')]
    for m in missing:
        rp = ref['adts'][m]
        best = []
        for f in fresh:
            cp = cur_adts[f]
            if cp['kind'] != rp['kind'] or len(cp['variants']) != len(rp['variants']):
                continue
            ra = [_norm_ty(t, m) for v in rp['variants'] for _n, t in v['fields']]
            ca = [_norm_ty(t, f) for v in cp['variants'] for _n, t in v['fields']]
            if not ra and not ca:
                continue
            s = _sim(ra, ca)
            if s >= 0.6:
                best.append((s, f))
        best.sort(reverse=True)
        if best and (len(best) == 1 or best[0][0] > best[1][0]) and best[0][1] not in ren:
            ren[best[0][1]] = m
    # ---- fields / variants of (now) same-named types ---------------------------------------------------------------
    fld, var = {}, {}
    for name, cp in cur_adts.items():
        rname = ren.get(name, name)
        rp = ref['adts'].get(rname)
        if not rp or len(rp['variants']) != len(cp['variants']):
            continue
        for rv, cv in zip(rp['variants'], cp['variants']):
            if rv['name'] != cv['name'] and rp['kind'] == 'enum':
                var.setdefault(name, {})[cv['name']] = rv['name']
            if len(rv['fields']) == len(cv['fields']):
                for (rn, rt), (cn, ct) in zip(rv['fields'], cv['fields']):
                    if rn != cn and not rn.isdigit():
                        fld.setdefault(name, {})[cn] = rn
    # ---- functions --------------------------------------------------------------------------------------------------
    def canon_path(p):
        for cur, r in sorted(ren.items(), key=lambda x: -len(x[0])):
            if p.startswith(cur + '::') or p == cur:
                return r + p[len(cur):]
        return p
    cur_fns = {}
    for b in d['bodies']:
        if b['promoted'] or b['kind'] not in ('fn', 'method'):
            continue
        cur_fns[canon_path(strip_generics(b['def']))] = (fn_print(b), strip_generics(b['def']))
    missing = [n for n in ref['fns'] if n not in cur_fns and not n.startswith('<')]
    fresh = [n for n in cur_fns if n not in ref['fns'] and not n.startswith('<')]
    used = set()
    for m in sorted(missing):
        rp = ref['fns'][m]
        owner = m.rsplit('::', 1)[0]
        cands = []
        for f in fresh:
            if f in used:
                continue
            cp = cur_fns[f][0]
            if cp['kind'] != rp['kind']:
                continue
            fowner = f.rsplit('::', 1)[0]
            if rp['kind'] == 'method' and fowner != owner:
                continue
            if [_norm_ty(t, owner) for t in cp['sig']] != [_norm_ty(t, owner) for t in rp['sig']]:
                continue
            s = _sim(rp['ext'], cp['ext'])
            if s >= 0.5:
                cands.append((s, -abs(cp['nblocks'] - rp['nblocks']), f))
        cands.sort(reverse=True)
        if cands and (len(cands) == 1 or cands[0][:2] > cands[1][:2]):
            f = cands[0][2]
            used.add(f)
            ren[cur_fns[f][1]] = m if f == cur_fns[f][1] else m
    new_fns = {cur_fns[f][1] for f in fresh if f not in used}
    return ren, fld, var, new_fns


def apply_text(text, ren):
    """rename paths everywhere in the raw fact file (also inside type strings and closure / promoted paths)"""
    for cur in sorted(ren, key=len, reverse=True):
        r = ren[cur]
        if '::' in cur and cur.rsplit('::', 1)[0] == r.rsplit('::', 1)[0] or True:
            # `Type::<..>::method` forms: allow one generic-argument segment before the last path segment
            head, last = cur.rsplit('::', 1)
            rhead, rlast = r.rsplit('::', 1)
            text = re.sub(re.escape(cur) + r'(?![A-Za-z0-9_])', r.replace('\\', '\\\\'), text)
            if head == rhead or True:
                pat = re.escape(head) + r'(::<(?:[^"<>]|<(?:[^"<>]|<[^"<>]*>)*>)*>)::' + re.escape(last) + r'(?![A-Za-z0-9_])'
                text = re.sub(pat, lambda m: rhead + m.group(1) + '::' + rlast, text)
    return text


def apply_struct(d, fld, var):
    """field / variant names inside the parsed fact file"""
    if not fld and not var:
        return
    for a in d['adts']:
        f, v = fld.get(a['def'], {}), var.get(a['def'], {})
        for vv in a['variants']:
            vv['name'] = v.get(vv['name'], vv['name'])
            for ff in vv['fields']:
                ff['name'] = f.get(ff['name'], ff['name'])
    byname = {strip_generics(n): n for n in set(list(fld) + list(var))}
    for b in d['bodies']:
        for blk in b['blocks']:
            for s in blk['s']:
                rv = s.get('rv')
                if rv and rv.get('k') == 'aggregate' and rv.get('agg') == 'adt' and strip_generics(rv['adt']) in byname:
                    n = byname[strip_generics(rv['adt'])]
                    rv['vname'] = var.get(n, {}).get(rv['vname'], rv['vname'])
                    if 'fields' in rv:
                        rv['fields'] = [fld.get(n, {}).get(x, x) for x in rv['fields']]
        if var:
            allv = {}
            for n, m in var.items():
                allv.update(m)

            def walk(x):
                if isinstance(x, dict):
                    if 'd' in x and 'n' in x and x['n'] in allv:
                        x['n'] = allv[x['n']]
                    for vv in x.values():
                        walk(vv)
                elif isinstance(x, list):
                    for vv in x:
                        walk(vv)
            walk(b['blocks'])
            walk(b.get('dbg'))
