"""Call inlining on the fact base's pre-lowering MIR.

`inline_calls(facts, body)` returns a NEW `Body` in which every Call (in a
non-cleanup block) to a synchronous workspace function/method that has a MIR
body is replaced by a renumbered copy of that body, recursively.  The input
body and the callee bodies are never mutated.

Shape of an inlined call  `dest = f(a1..an) -> bbT`  in block B:

    B:      ...; P1 = use(a1); ..; Pn = use(an)   ('inl': f)    goto E
    E..:    copy of f's blocks, locals shifted by the caller's former
            len(locals), blocks by its former len(blocks); every copied
            statement/terminator carries 'inl': f
    ret:    ...; dest = use(move R)               ('inl': f)    goto bbT
            (`unreachable` when the call had no target)

where Pi / R are f's `_i` / `_0` after renumbering.  Schema facts relied upon
(checked against the extractor's output): statements are 'assign' or 'dead'
({'k':'dead','local':n}; 'setdiscr' is handled by shape too); a place is
{'l': local, 'p': [...]} with index projections {'i': local}; NO unwind /
cleanup edge is recorded in any terminator (cleanup blocks are only flagged),
block indices live in 'target', 'otherwise' and switch 'targets' ([value, bb]).
"""
import copy

from facts import Body, strip_generics

INLINE_KINDS = ('fn', 'method')   # other kinds: closure coroutine static const anonconst
# terminator keys holding one block index ('unwind'/'cleanup'/'drop' are not
# emitted by the current extractor; renumbered if they ever appear as ints)
_BLOCK_KEYS = ('target', 'otherwise', 'unwind', 'cleanup', 'drop')


def _copy(x, off):
    """Deep copy of a JSON value with every local index shifted by `off`.

    Locals are recognised by shape, not by rvalue/terminator kind: a place is a
    dict with an int 'l' and a list 'p' (statements/locals also have an 'l' --
    a line number -- but no 'p'); inside 'p' only {'i': local} names a local
    ({'f': field}, {'d': variant}, {'ci':..}, {'sub':..} do not); storage
    statements name theirs under 'local'.  Every other integer (field and
    variant numbers, block indices, lines, constants) is copied untouched."""
    if isinstance(x, dict):
        if type(x.get('l')) is int and isinstance(x.get('p'), list):
            return dict(x, l=x['l'] + off,
                        p=[dict(e, i=e['i'] + off) if isinstance(e, dict) and 'i' in e
                           else (dict(e) if isinstance(e, dict) else e) for e in x['p']])
        out = {k: _copy(v, off) for k, v in x.items()}
        if type(out.get('local')) is int:
            out['local'] += off
        return out
    if isinstance(x, list):
        return [_copy(v, off) for v in x]
    return x


def _shift_blocks(t, off):
    """shift every block index of terminator `t` (in place) by `off`"""
    for k in _BLOCK_KEYS:
        if type(t.get(k)) is int:          # `type is int`: None / bool stay
            t[k] += off
    if 'targets' in t:
        t['targets'] = [[v, b + off] for v, b in t['targets']]


def callee_body(facts, t, trait_defaults=False):
    """the Body a Call terminator can be replaced with, or None"""
    name = strip_generics(t.get('resolved') or t.get('callee'))
    cal = facts.body(name) if name else None
    if cal is None or cal.kind not in INLINE_KINDS or cal.crate not in facts.crates:
        return None
    if len(t['args']) != cal.argc:         # never seen for fn/method; stay safe
        return None
    # `<T as Trait>::m` that rustc could not resolve to an impl: the only body
    # found under that name is the trait's *provided* method, which the actual
    # impl may override -- inlining it would be a guess.
    if 'trait' in t and not t.get('resolved') and not trait_defaults:
        return None
    return cal


def inline_calls(facts, body, should_inline=None, max_depth=3, trait_defaults=False):
    """New Body with eligible calls inlined, at most `max_depth` levels deep.

    `should_inline(callee_body, call_terminator, depth)` (optional) vetoes single
    call sites; depth is 1 for a call written in `body` itself, 2 for a call that
    came in with a depth-1 callee, ...  A function is never inlined into
    (a copy of) itself: the chain of enclosing callees is checked."""
    d = copy.deepcopy(body.d)
    locs, blocks, dbg = d['locals'], d['blocks'], d['dbg']
    # stack of (block index, chain of stripped names the block is nested in)
    work = [(i, (body.name,)) for i in reversed(range(len(blocks)))]
    while work:
        bi, chain = work.pop()
        blk, depth = blocks[bi], len(chain)
        t = blk['t']
        if blk['cleanup'] or t['k'] != 'call' or depth > max_depth:
            continue
        cal = callee_body(facts, t, trait_defaults)
        if cal is None or cal.name in chain:
            continue
        if should_inline is not None and not should_inline(cal, t, depth):
            continue
        mark, loff, boff = cal.name, len(locs), len(blocks)
        pos = {k: t[k] for k in ('l', 'x', 'cs') if k in t}     # the call's source position
        locs.extend(dict(l, inl=mark) for l in cal.locals)
        dbg.extend(dict(_copy(v, loff), arg=None, inl=mark) for v in cal.dbg)
        for cb in cal.blocks:              # pristine callee blocks: no 'inl' yet
            nb = _copy(cb, loff)
            for s in nb['s']:
                s.setdefault('inl', mark)
            nt = nb['t']
            if nt['k'] == 'return':
                nb['s'].append(dict(pos, k='assign', lhs=_copy(t['dest'], 0), inl=mark,
                                    rv={'k': 'use', 'op': {'k': 'move', 'pl': {'l': loff, 'p': []}}}))
                keep = {k: nt[k] for k in ('l', 'x', 'cs') if k in nt}
                nt = (dict(keep, k='goto', target=t['target']) if t['target'] is not None
                      else {'k': 'unreachable'})
                nb['t'] = nt
            else:
                _shift_blocks(nt, boff)
            nt.setdefault('inl', mark)
            blocks.append(nb)
        # a generic helper called with concrete type arguments: its trait-method calls resolve as the extractor computed for
        # THESE arguments (`mono`), not as "any implementation of the trait"
        for ent_ in t.get('mono') or ():
            if ent_[0] == 'c':
                continue
            bb_, res_, ga_ = ent_[0], ent_[1], ent_[2]
            ct = blocks[boff + bb_]['t']
            if ct.get('k') == 'call' and not ct.get('resolved'):
                if res_:
                    ct['resolved'] = res_
                ct['gargs'] = ga_
                if len(ent_) > 3 and ent_[3] and not ct.get('mono'):
                    ct['mono'] = ent_[3]
        for i, a in enumerate(t['args']):  # parameters are _1.._argc of the callee
            blk['s'].append(dict(pos, k='assign', lhs={'l': loff + 1 + i, 'p': []},
                                 rv={'k': 'use', 'op': a}, inl=mark))
        blk['t'] = dict(pos, k='goto', target=boff, inl=mark)
        work.extend((i, chain + (mark,)) for i in reversed(range(boff, len(blocks))))
    return Body(d, body.crate, body.cfg)


def inlined_callees(body):
    """stripped names of the functions inlined into `body` (from the 'inl' marks)"""
    out = {l['inl'] for l in body.locals if 'inl' in l}
    for blk in body.blocks:
        out.update(s['inl'] for s in blk['s'] if 'inl' in s)
        if 'inl' in blk['t']:
            out.add(blk['t']['inl'])
    return out


def inline_all(facts, names_or_bodies, **kw):
    """{stripped name: inlined Body} for bodies given as Body objects or stripped names"""
    out = {}
    for x in names_or_bodies:
        b = x if isinstance(x, Body) else facts.body(x)
        if b is None:
            raise KeyError('no unique body named %r' % (x,))
        out[b.name] = inline_calls(facts, b, **kw)
    return out


# ---------------------------------------------------------------------------------------------------------------------
# awaited async helpers
# ---------------------------------------------------------------------------------------------------------------------
def inline_awaits(facts, body, should_inline, max_rounds=4):
    """New Body in which the poll of an awaited workspace `async fn` (in pre-lowering MIR: a direct call of the coroutine
    body `f::{closure#0}(pin, cx)` inside the await loop) is replaced by that coroutine's body, for every callee coroutine
    K with should_inline(K).  K's own suspension points stay (its `yield`s are copied); its captured arguments are read from
    the pinned future (`_1' = *(pin.0)`), its result is wrapped as `Poll::Ready`.  The caller's Pending arm becomes dead.
    Combined with inline_calls on the outer shell `f(args)` (which only builds the coroutine from its arguments) the
    arguments flow into the copied body."""
    d = copy.deepcopy(body.d)
    locs, blocks, dbg = d['locals'], d['blocks'], d['dbg']
    seen_chain = {i: (body.name,) for i in range(len(blocks))}
    for _round in range(max_rounds):
        changed = False
        for bi in range(len(blocks)):
            blk = blocks[bi]
            t = blk['t']
            if blk['cleanup'] or t['k'] != 'call':
                continue
            name = strip_generics(t.get('resolved') or t.get('callee') or '')
            if not name.endswith('::{closure#0}') or len(t['args']) != 2:
                continue
            cal = facts.body(name)
            chain = seen_chain.get(bi, (body.name,))
            if cal is None or cal.kind != 'coroutine' or cal.crate not in facts.crates or cal.name in chain or cal.name == body.name:
                continue
            if not should_inline(cal):
                continue
            mark, loff, boff = cal.name, len(locs), len(blocks)
            pos = {k: t[k] for k in ('l', 'x', 'cs') if k in t}
            locs.extend(dict(l, inl=mark) for l in cal.locals)
            dbg.extend(dict(_copy(v, loff), arg=None, inl=mark) for v in cal.dbg)
            for cb in cal.blocks:
                nb = _copy(cb, loff)
                for s in nb['s']:
                    s.setdefault('inl', mark)
                nt = nb['t']
                if nt['k'] == 'return':
                    nb['s'].append(dict(pos, k='assign', lhs=_copy(t['dest'], 0), inl=mark,
                                        rv={'k': 'aggregate', 'agg': 'adt', 'adt': 'core::task::poll::Poll', 'adt_inst': 'core::task::poll::Poll<_>',
                                            'variant': 0, 'vname': 'Ready', 'fields': ['0'],
                                            'ops': [{'k': 'move', 'pl': {'l': loff, 'p': []}}]}))
                    keep = {k: nt[k] for k in ('l', 'x', 'cs') if k in nt}
                    nt = dict(keep, k='goto', target=t['target']) if t['target'] is not None else {'k': 'unreachable'}
                    nb['t'] = nt
                elif nt['k'] == 'coroutine_drop':
                    nb['t'] = {'k': 'unreachable'}
                else:
                    _shift_blocks(nt, boff)
                nb['t'].setdefault('inl', mark)
                blocks.append(nb)
                seen_chain[len(blocks) - 1] = chain + (mark,)
            pin = t['args'][0]
            if pin.get('k') in ('copy', 'move'):
                src = {'k': 'copy', 'pl': {'l': pin['pl']['l'], 'p': list(pin['pl']['p']) + [{'f': 0, 'ty': '&mut _'}, '*']}}
                blk['s'].append(dict(pos, k='assign', lhs={'l': loff + 1, 'p': []}, rv={'k': 'use', 'op': src}, inl=mark))
            blk['s'].append(dict(pos, k='assign', lhs={'l': loff + 2, 'p': []}, rv={'k': 'use', 'op': t['args'][1]}, inl=mark))
            blk['t'] = dict(pos, k='goto', target=boff, inl=mark)
            # the copied body always completes with Poll::Ready: the await loop's Pending arm is dead
            if t['target'] is not None:
                tb = blocks[t['target']]
                dl = t['dest']['l']
                disc = [s['lhs']['l'] for s in tb['s'] if s.get('k') == 'assign' and s['rv'].get('k') == 'discr' and s['rv']['pl']['l'] == dl and not s['rv']['pl']['p']]
                tt = tb['t']
                if disc and tt['k'] == 'switch' and tt['discr'].get('pl', {}).get('l') in disc:
                    ready = [b for v, b in tt['targets'] if int(v) == 0]
                    if ready:
                        tb['t'] = dict({k: tt[k] for k in ('l', 'x', 'cs') if k in tt}, k='goto', target=ready[0], inl=mark)
            changed = True
        if not changed:
            break
    return Body(d, body.crate, body.cfg)
