"""C01.S7.SEM / C05.D3.SEM: which keyspaces of a peer are exchanged, and what the poller remembers (P-TRACE).

Anti-entropy is driven by one table: per peer, the change stamp of every keyspace at the time of the last SUCCESSFUL exchange.
A poll asks the peer for its current stamps, and a keyspace is exchanged when the two differ.  `repair_members` — with
`check_node_changes`, the tracker (`KeyspaceTracker`, `KeyspaceTimestamps::diff`) and whatever helpers they are written with —
is interpreted over three polling rounds against two peers.  The peers' answers to `poll_keyspace`, the computation of one
keyspace's difference (`get_keyspace_diff`) and the exchange itself (`begin_keyspace_sync`, succeeding or failing as scripted)
are modelled effects; the tracker is the real code, starting from what its own `Default` builds.  Decided per round:

  every keyspace the peer lists whose stamp is NOT the one recorded at this peer's last successful exchange of that keyspace
  (never exchanged, exchanged with a failure, changed since, or recorded for ANOTHER peer only) has its difference computed
  against THAT peer and, when that succeeds, is exchanged with that peer.

This is necessary for C01 / C05: a changed keyspace that is not listed is never repaired — the replica keeps lacking what the
peer holds, however many exchanges complete.  (That an unchanged keyspace is NOT exchanged again is an optimisation, not
demanded.)  No Rust code runs; stamps are symbols compared for equality only."""
import re
import absint
from absint import Interp, Order, Cell, Unmodelled, UNIT, MapObj
from facts import last_seg, ty_head
import actor_abs
from actor_abs import World, ok, err, upvar_types
import registry_abs

EC = 'datacake_eventual_consistency'

PEERS = {'P': 'addrP', 'Q': 'addrQ'}

# per round: what each peer answers to the poll, and which exchanges fail
ROUNDS = [
    ({'P': {'a': 'p_a1', 'b': 'p_b1'}, 'Q': {'a': 'q_a1'}}, {('P', 'b')},
     'first poll: nothing was exchanged before (P lists a, b; Q lists a; the exchange of b with P fails)'),
    ({'P': {'a': 'p_a1', 'b': 'p_b1', 'c': 'p_c1'}, 'Q': {'a': 'q_a1', 'c': 'q_c1'}}, {('Q', 'c')},
     'second poll: b failed with P last time, c is new on both peers (the exchange of c with Q fails)'),
    ({'P': {'a': 'p_a2', 'b': 'p_b1', 'c': 'p_c1'}, 'Q': {'a': 'q_a1', 'c': 'q_c1'}}, set(),
     'third poll: a changed on P; c was exchanged with P only — it is still owed to Q'),
]


def expected(rounds):
    """per round, the (peer, keyspace) pairs that MUST be exchanged"""
    recorded = {}
    out = []
    for polled, fails, _label in rounds:
        must = set()
        for peer, kss in polled.items():
            for ks, stamp in kss.items():
                if recorded.get((peer, ks)) != stamp:
                    must.add((peer, ks))
        out.append(must)
        for peer, ks in must:
            if (peer, ks) not in fails:
                recorded[(peer, ks)] = polled[peer][ks]
    return out


class PollWorld(World):
    def __init__(self, facts):
        World.__init__(self, hooks=[self.hook])
        self.facts = facts
        self.round = 0
        self.polled = {}
        self.fails = set()
        self.events = []

    def peer_of(self, interp, vals):
        """the peer a call is about: a node id or an address reachable from its arguments"""
        found = []

        def dig(v, d=0):
            v = interp.deref_all(v)
            if v is None or d > 6:
                return
            if v[0] == 'key':
                s = str(v[1])
                for p, a in PEERS.items():
                    if s == p or s == a:
                        found.append(p)
            elif v[0] == 'opaque':
                s = str(v[1])
                for p, a in PEERS.items():
                    # (a field of an unknown value is the tag of the value plus '.<n>')
                    if re.search(r':(%s|%s)(\.\d+)*$' % (re.escape(a), re.escape(p)), s):
                        found.append(p)
            elif v[0] in ('adt', 'closure', 'tuple'):
                for c in (v[3] if v[0] == 'adt' else v[2] if v[0] == 'closure' else v[1]):
                    dig(c.v, d + 1)
        for v in vals:
            dig(v)
        ps = sorted(set(found))
        return ps[0] if len(ps) == 1 else None

    def ks_of(self, interp, vals):
        names = set()
        for peer in self.polled.values():
            names |= set(peer)
        found = []

        def dig(v, d=0):
            v = interp.deref_all(v)
            if v is None or d > 5:
                return
            if v[0] == 'key' and str(v[1]) in names:
                found.append(str(v[1]))
            elif v[0] in ('adt', 'closure', 'tuple'):
                # (the keyspace may travel inside a private struct — a plan, a peer — rather than as a bare argument)
                for c in (v[3] if v[0] == 'adt' else v[2] if v[0] == 'closure' else v[1]):
                    dig(c.v, d + 1)
        for v in vals:
            dig(v)
        ks = sorted(set(found))
        return ks[0] if len(ks) == 1 else None

    def make_diff(self, ty, peer, ks):
        a = self.facts.adts.get(ty_head(ty))
        if a is None or a['kind'] != 'struct':
            raise Unmodelled('the result of get_keyspace_diff is not a workspace struct (%s)' % ty)
        cells = []
        for f in a['variants'][0]['fields']:
            fty = f['ty']
            if fty in ('alloc::string::String',) or 'Cow<' in fty:
                cells.append(Cell(('key', ks)))
            elif fty.endswith('HLCTimestamp'):
                cells.append(Cell(('ts', self.polled[peer][ks])))
            elif 'DocumentMetadata' in fty:
                cells.append(Cell(('vec', [('opaque', 'doc:%s:%s:%s' % (f['name'], peer, ks))])))
            else:
                cells.append(Cell(('opaque', 'field:' + f['name'])))
        return ('adt', ty_head(ty), 0, cells)

    def hook(self, world, interp, name, args, t, body):
        seg = last_seg(name)
        if name == 'core::default::Default::default' and not args and not t['dest']['p']:
            v = registry_abs.default_wrapped(interp, body.local_ty(t['dest']['l']))
            if v is not None:
                return v
        if 'AtomicCell' in name:
            if seg == 'new':
                return ('adt', 'cell', 0, [Cell(args[0])])
            a0 = interp.deref_all(args[0]) if args else None
            if seg == 'load' and a0 is not None and a0[0] == 'adt' and a0[1] == 'cell':
                return a0[3][0].v
            if seg == 'store' and a0 is not None and a0[0] == 'adt' and a0[1] == 'cell':
                a0[3][0].v = args[1]
                return UNIT
        if name.startswith('alloc::sync::Arc') and seg == 'new' and args:
            return args[0]
        if name in ('tokio::task::spawn::spawn', 'tokio::task::spawn', 'tokio::spawn', 'tokio::runtime::handle::Handle::spawn') and args:
            return ('future', 'join', args[-1])
        if name.endswith('::get_or_connect') and args:
            a = interp.deref_all(args[-1])
            return ('opaque', 'chan:%s' % (a[1] if a is not None and a[0] == 'key' else '?'))
        if name.startswith(EC) and '::ReplicationClient' in name and seg == 'new':
            p = self.peer_of(interp, args)
            return ('opaque', 'client:%s' % p)
        if name.startswith(EC) and seg == 'poll_keyspace':
            p = self.peer_of(interp, args)
            if p is None:
                raise Unmodelled('poll_keyspace on a client whose peer is not visible')
            self.events.append(('poll', self.round, p))
            m = MapObj('btree', {ks: Cell(('ts', st)) for ks, st in self.polled[p].items()})
            return ('future', 'ready', ok(('map', m)))
        if name.startswith(EC) and seg == 'get_keyspace_diff':
            p = self.peer_of(interp, args)
            ks = self.ks_of(interp, args)
            self.events.append(('diff', self.round, p, ks))
            if p is None or ks is None or ks not in self.polled.get(p, {}):
                # a keyspace the peer does not list (or an unknown peer): the real function fails on the RPC
                return ('future', 'ready', err(('opaque', 'diff-error')))
            out_ty = self.future_output(body, t)
            return ('future', 'ready', ok(self.make_diff(out_ty, p, ks)))
        if name.startswith(EC) and seg == 'begin_keyspace_sync':
            p = self.peer_of(interp, args)
            ks = self.ks_of(interp, args)
            lists = []

            def digl(v, d=0):
                v = interp.deref_all(v)
                if v is None or d > 5:
                    return
                if v[0] == 'vec':
                    for x in v[1]:
                        x = interp.deref_all(x.v if isinstance(x, Cell) else x)
                        if x is not None and x[0] == 'opaque' and str(x[1]).startswith('doc:'):
                            lists.append(str(x[1]))
                        else:
                            digl(x, d + 1)
                elif v[0] == 'opaque' and str(v[1]).startswith('doc:'):
                    lists.append(str(v[1]))
                elif v[0] in ('adt', 'tuple'):
                    for c in (v[3] if v[0] == 'adt' else v[1]):
                        digl(c.v, d + 1)
            for a in args:
                digl(a)
            self.events.append(('sync', self.round, p, ks, tuple(lists)))
            if (p, ks) in self.fails:
                return ('future', 'ready', err(('opaque', 'sync-error')))
            return ('future', 'ready', ok(UNIT))
        if name.startswith('tokio::sync::') and 'Semaphore' in name:
            if seg == 'new':
                return ('opaque', 'semaphore')
            if seg.startswith('acquire'):
                return ('future', 'ready', ok(('opaque', 'permit')))
        if name.startswith(('datacake_node::', 'datacake_rpc::', 'datacake_crdt::', '<datacake_node::', '<datacake_rpc::', '<datacake_crdt::')) and not t['dest']['p']:
            ty = body.local_ty(t['dest']['l'])
            if ty == 'bool':
                return ('bool', None)
            if ty == '()':
                return UNIT
            return ('ref', Cell(('opaque', 'result-of:' + name))) if ty.startswith('&') else ('opaque', 'result-of:' + name)
        return None

    def future_output(self, body, t):
        """the Ok payload type of the future a call returns: Result<T, E> found in the printed type of the destination"""
        ty = body.local_ty(t['dest']['l'])
        # `impl Future<Output = Result<KeyspaceDiff, GetDiffError>>` prints with the output type; else look the ADT up by role
        i = ty.find('Result<')
        if i >= 0:
            parts = absint.ty_args_of_tuple('(' + ty[i + len('Result<'):ty.rindex('>')] + ')')
            if parts:
                return parts[0]
        cands = [n for n, a in self.facts.adts.items() if n.startswith(EC) and a['kind'] == 'struct'
                 and sum(1 for f in a['variants'][0]['fields'] if 'DocumentMetadata' in f['ty']) == 2
                 and any(f['ty'].endswith('HLCTimestamp') for f in a['variants'][0]['fields'])]
        if len(cands) != 1:
            raise Unmodelled('the type of one keyspace\'s difference is not identified (%d candidates)' % len(cands))
        return cands[0]

    def poll(self, interp, pin, f):
        if f is not None and f[0] == 'future' and f[1] == 'join':
            r = self.resolve(interp, f[2])
            return ok(r)
        return World.poll(self, interp, pin, f)


def check_polling(ctx, facts, rule):
    from orswot_abs import _fallback
    try:
        ents = [b for b in facts.bodies.values() if b.crate == EC and b.kind == 'coroutine' and b.name.endswith('::repair_members::{closure#0}') and b.cfg is not None]
        if len(ents) != 1:
            raise Unmodelled('repair_members not found')
        entry = ents[0]
        ups = upvar_types(entry)
        fnb = facts.bodies.get(entry.name[:-len('::{closure#0}')])

        def run(choices):
            world = PollWorld(facts)
            syms = sorted({st for polled, _f, _l in ROUNDS for kss in polled.values() for st in kss.values()})
            # (any total order will do: the stamps of different peers come from different clocks; only equality must matter)
            order = Order({(a, b): '<' for i, a in enumerate(syms) for b in syms[i + 1:]})
            it = Interp(facts, order, opaque_call=world.call, step_limit=1500000)
            it.poll_hook = world.poll
            it.unknown_call = actor_abs.lenient_unknown
            it.opaque_fields = True
            it.choices = list(choices)
            tracker = {}

            def mk(ty):
                if ty.startswith('&'):
                    inner = ty[1:].strip()
                    inner = inner[4:] if inner.startswith('mut ') else inner
                    if inner in tracker:
                        return ('ref', tracker[inner])
                    v = mk(inner)
                    c = Cell(v)
                    if 'Tracker' in inner or 'KeyspaceTimestamps' in inner:
                        tracker[inner] = c
                    return ('ref', c)
                if ('BTreeMap<' in ty or 'HashMap<' in ty) and 'SocketAddr' in ty:
                    return ('map', MapObj('btree' if 'BTreeMap' in ty else 'hash', {p: Cell(('key', a)) for p, a in PEERS.items()}))
                h = ty_head(ty)
                a_ = facts.adts.get(h)
                if a_ is not None and a_['def'].startswith(EC) and ('Tracker' in h) and a_['kind'] == 'struct':
                    v = registry_abs.default_wrapped(it, ty)
                    if v is None:
                        wb = facts.bodies.get('<%s as core::default::Default>::default' % ty)
                        if wb is None:
                            raise Unmodelled('the poller\'s table %s has no Default' % ty)
                        v = it.run_body(wb, [])
                    return v
                return actor_abs.build_value(facts, ty, lambda t_: None)
            n = max(ups) + 1 if ups else 0
            upv = {i: mk(ty) for i, ty in sorted(ups.items())}
            for rno, (polled, fails, _label) in enumerate(ROUNDS):
                world.round, world.polled, world.fails = rno, polled, fails
                st = ('closure', entry.defp, [Cell(upv.get(i, ('opaque', 'u'))) for i in range(n)])
                it.run_body(entry, [st, ('opaque', 'cx')])
            return it.oracle_log, list(world.events)
        results = absint.explore(run)
    except (Unmodelled, absint.NeedChoice, absint.PanicPath, IndexError, TypeError, KeyError, AttributeError, RecursionError) as e:
        return _fallback(ctx, rule, e)
    site_ = '%s:%s' % (entry.file, entry.line)
    want = expected(ROUNDS)
    for rno, (polled, fails, label) in enumerate(ROUNDS):
        bad = []
        seen = 0
        for log, res in results:
            if res and isinstance(res, tuple) and res[0] == 'panic':
                bad.append('a path panics: %s' % (res[1],))
                continue
            seen += 1
            ev = [e for e in res if e[1] == rno]
            polls = {e[2] for e in ev if e[0] == 'poll'}
            diffs = {(e[2], e[3]) for e in ev if e[0] == 'diff'}
            syncs = {(e[2], e[3]) for e in ev if e[0] == 'sync'}
            for p in sorted(polled):
                if p not in polls:
                    bad.append('live peer %s is not polled' % p)
            for p, ks in sorted(want[rno]):
                if (p, ks) not in diffs:
                    bad.append('keyspace %s of peer %s (stamp %s, recorded: %s) has no difference computed against that peer: it is never repaired'
                               % (ks, p, polled[p][ks], 'another stamp or none'))
                elif (p, ks) not in syncs:
                    bad.append('the difference of keyspace %s against peer %s was computed but the exchange is not started' % (ks, p))
            for e in ev:
                if e[0] == 'sync':
                    for tag in e[4]:
                        _d, fname, tp, tks = tag.split(':')
                        if (tp, tks) != (e[2], e[3]):
                            bad.append('the exchange of keyspace %s with peer %s is given the difference computed for keyspace %s of peer %s' % (e[3], e[2], tks, tp))
        good = seen > 0 and not bad
        ctx.ob(rule, 'polling|%s' % label, good, site_,
               '%s: exchanged %s' % (label, ', '.join('%s/%s' % x for x in sorted(want[rno]))) if good else '%s: %s' % (label, bad[0] if bad else 'no path'))
    return True
