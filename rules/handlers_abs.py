"""C02 (and C05.A / C08.P4): the keyspace actor's handlers, interpreted sequentially (actor_abs + P-ORDER) on abstract
messages.  For one message the interpretation yields (a) the storage calls made, in order, with the documents handed over,
(b) the resulting per-key state of the real OrSWotSet code, (c) the handler's result — for every answer storage can give.
The property clause decided: the set and storage agree — a mutation reaches the set exactly when storage reported it
written (also for a bulk call that fails part-way), nothing is written for an operation the set refuses, and a purge
forgets exactly the tombstones storage removed."""
import re
import absint
from absint import Interp, Order, Cell, Unmodelled, UNIT, mk_bool
from facts import strip_generics, last_seg, ty_head
import actor_abs
from actor_abs import World, ok, err, build_value, upvar_types
import orswot_abs
from orswot_abs import Roles, lww_expected, unchanged, norm, PRE, pre_label, _fallback

EC = 'datacake_eventual_consistency'


def keys_in(interp, v, out, depth=0):
    """symbolic keys inside a value (a document, a metadata record, a key, collections of them), in order"""
    if depth > 6 or v is None:
        return
    v = interp.deref_all(v)
    if v is None:
        return
    if v[0] == 'key':
        out.append(v[1])
    elif v[0] in ('adt',):
        for c in v[3]:
            keys_in(interp, c.v, out, depth + 1)
    elif v[0] == 'tuple':
        for c in v[1]:
            keys_in(interp, c.v, out, depth + 1)
    elif v[0] == 'vec':
        for x in v[1]:
            keys_in(interp, x, out, depth + 1)
    elif v[0] == 'iter':
        for x in interp.drain(v[1], 0):
            keys_in(interp, x, out, depth + 1)


class Scenario:
    """what storage answers: plan(method, keys) -> ('ok',) | ('err', [successful keys])"""

    def __init__(self, plan):
        self.plan = plan


def storage_hook(scn, facts):
    bulk_err = [a for n, a in facts.adts.items() if n.startswith(EC + '::') and n.endswith('::BulkMutationError')]

    def make_bulk_error(successful):
        a = bulk_err[0]
        cells = []
        for f in a['variants'][0]['fields']:
            if f['ty'].startswith('alloc::vec::Vec<') or 'SmallVec' in f['ty']:
                cells.append(Cell(('vec', [('key', k) for k in successful])))
            else:
                cells.append(Cell(('opaque', 'storage-error')))
        return ('adt', strip_generics(a['def']), 0, cells)

    def hook(world, interp, name, args, t, body):
        m = re.search(r'::storage::Storage::(\w+)$', name)
        if m:
            meth = m.group(1)
            keys = []
            for a in args[1:]:
                keys_in(interp, a, keys)
            world.trace.append(('storage', meth, tuple(keys)))
            ans = scn.plan(meth, keys)
            ret_ty = body.local_ty(t['dest']['l'])
            bulk = 'BulkMutationError' in ret_ty
            if ans[0] == 'ok':
                res = ok(UNIT)
            else:
                res = err(make_bulk_error(ans[1]) if bulk else ('opaque', 'storage-error'))
            return ('future', 'ready', res)
        if name.endswith('::clock::Clock::get_time'):
            return ('future', 'ready', ('ts', 'now'))
        if name.endswith('::clock::Clock::register_ts'):
            return ('future', 'ready', UNIT)
        if 'AtomicCell' in name:
            seg = last_seg(name)
            if seg == 'store':
                world.trace.append(('change-stamp',))
                return UNIT
            if seg == 'load':
                return ('ts', 'change-stamp')
        return None
    return hook


def handler_bodies(facts):
    """{kind: coroutine body} of the keyspace actor's handlers, classified by the shape of the message they take"""
    out = {}
    for b in facts.bodies.values():
        if b.crate != EC or b.kind != 'coroutine' or b.d['promoted'] or '::KeyspaceActor::' not in b.name:
            continue
        ups = upvar_types(b)
        if not any('KeyspaceActor' in ty and ty.startswith('&mut') for ty in ups.values()):
            continue
        msg = [ty for ty in ups.values() if 'KeyspaceActor' not in ty]
        if len(msg) != 1:
            continue
        a = facts.adts.get(ty_head(msg[0]))
        if a is None:
            continue
        ftys = [f['ty'] for f in a['variants'][0]['fields']]
        kind = None
        if any(ty_head(x).endswith('::Document') for x in ftys):
            kind = 'set'
        elif any(ty_head(x).endswith('::DocumentMetadata') for x in ftys):
            kind = 'del'
        elif any('SmallVec<' in x and '::Document;' in x for x in ftys) or any('Vec<' in x and x.rstrip('>').endswith('::Document') for x in ftys):
            kind = 'multi_set'
        elif any(('SmallVec<' in x or 'Vec<' in x) and 'DocumentMetadata' in x for x in ftys):
            kind = 'multi_del'
        elif all('PhantomData' in x for x in ftys) and any(last_seg(n or '') == 'purge_old_deletes' for n in [__import__('analysis').cname(t) for _b, t in b.calls()]):
            kind = 'purge'
        if kind:
            out.setdefault(kind, []).append((b, ups, msg[0]))
    return {k: v[0] for k, v in out.items() if len(v) == 1}


def make_leaf(facts, roles, set_value, docs, source=0, with_ctx=False):
    """leaf builder for the actor and its message; `docs`: list of (key, stamp) handed in the message"""
    def doc_value(ty, k, ts):
        def inner(t2):
            if t2 == 'u64':
                return ('key', k)
            if t2.endswith('HLCTimestamp'):
                return ('ts', ts)
            return None
        return build_value(facts, ty, inner)

    def leaf(ty):
        h = ty_head(ty)
        if h.endswith('::OrSWotSet'):
            return set_value
        if ty.startswith('alloc::sync::Arc<') and 'AtomicCell' in ty:
            return ('atomic',)
        if ty.startswith('alloc::sync::Arc<'):
            return ('storage',)
        if h.endswith('::clock::Clock') or h.endswith('::Clock'):
            return ('clockh',)
        if h in ('alloc::borrow::Cow', 'alloc::string::String') or ty in ('&str',):
            return ('opaque', 'str')
        if ty == 'usize':
            return ('int', source)
        if h.endswith('::Document') or h.endswith('::DocumentMetadata'):
            k, ts = docs[0]
            return doc_value(ty, k, ts)
        if h in ('smallvec::SmallVec', 'alloc::vec::Vec') and ('Document' in ty):
            m = re.search(r'(datacake_eventual_consistency::[A-Za-z_:]*Document(?:Metadata)?)', ty)
            return ('vec', [doc_value(m.group(1), k, ts) for k, ts in docs])
        if h == 'core::option::Option':
            return absint.mk_option(('opaque', 'ctx')) if with_ctx else absint.mk_option(None)
        if h == 'core::marker::PhantomData':
            return UNIT
        return None
    return leaf


def run_handler(facts, roles, hb, live, dead, docs, plan, rel, source=0, with_ctx=False, plan_factory=False):
    body, ups, _msg = hb
    results = []

    def run(choices):
        set_value = roles.make_set(live=live, dead=dead)
        leaf = make_leaf(facts, roles, set_value, docs, source, with_ctx)
        scn = Scenario(plan() if plan_factory else plan)
        world = World(hooks=[storage_hook(scn, facts)])
        # version-vector oracles of the set
        def both(w, interp, name, args, t, b):
            r = orswot_abs.versions_oracle(interp, name, args, t, b)
            if r is not None:
                # the source id the set's per-source register is consulted / advanced under
                for x in args[1:]:
                    xv = interp.deref_all(x)
                    if xv is not None and xv[0] == 'int' and xv[1] is not None and b.local_ty(t['dest']['l']) == 'bool' and any(
                            (interp.deref_all(y) or ('',))[0] == 'ts' for y in args[1:]):
                        w.trace.append(('versions-source', last_seg(name), xv[1]))
            return r
        world.hooks.append(both)
        world.trace.append(('msg-source', source))
        upv = {}
        for i, ty in ups.items():
            if 'KeyspaceActor' in ty:
                actor = build_value(facts, ty.lstrip('&').replace('mut ', '', 1).strip(), leaf)
                upv[i] = ('ref', Cell(actor))
            else:
                upv[i] = build_value(facts, ty, leaf)
        it, r = actor_abs.run_coroutine(facts, body, upv, world, order=Order(rel), choices=choices, symbolic_len=True)
        lv, dd = roles.read_set(set_value)
        return it.oracle_log, (world.trace, lv, dd, r)
    return absint.explore(run)


def gate_names(facts):
    import versions_abs
    vr = versions_abs.VRoles(facts)
    ms = vr.methods(facts)
    upd = [b for b in ms if b.argc == 3 and b.local_ty(0) == 'bool' and b.local_ty(1).startswith('&mut') and b.local_ty(2) == 'usize']
    pred = [b for b in ms if b.argc == 2 and b.local_ty(0) == 'bool' and not b.local_ty(1).startswith('&mut') and b.local_ty(2).endswith('HLCTimestamp')]
    pn = last_seg(pred[0].name) if len(pred) == 1 else None
    un = last_seg(upd[0].name) if len(upd) == 1 else None
    if pn is None or un is None:
        # not identified by signature among NodeVersions' own methods (a provided method of a private trait, a helper type): by what the
        # SET asks its version vectors — the questions `will_apply` asks are the cut-off predicate, what a mutator asks beyond them the update
        try:
            import orswot_abs
            roles = orswot_abs.Roles(facts)
            wa = roles.method(facts, 'will_apply')
            mu = roles.method(facts, 'insert_with_source')
            if wa is not None and mu is not None:
                def labels(body):
                    out = set()
                    for (_pre, log) in orswot_abs.summarize_mutator(facts, roles, body):
                        for ent in log:
                            lab = ent[0] if isinstance(ent, tuple) else ent
                            if isinstance(lab, str) and lab.startswith('versions') and '.' in lab:
                                out.add(lab.rsplit('.', 1)[1])
                    return out
                wl = labels(wa)
                ml = labels(mu) - wl
                if pn is None and len(wl) == 1:
                    pn = next(iter(wl))
                if un is None and len(ml) == 1:
                    un = next(iter(ml))
                    # which answer means "accepted": the one under which an insert of an absent key is applied (the question may be
                    # phrased negatively: `verdict == Stale`)
                    pol = set()
                    for (pre_, log_), res_ in orswot_abs.summarize_mutator(facts, roles, mu).items():
                        if pre_[0] == 'none' and isinstance(res_, tuple) and res_ and res_[0] == 'in':
                            for ent in log_:
                                if isinstance(ent, tuple) and isinstance(ent[0], str) and ent[0].endswith('.' + un):
                                    pol.add(bool(ent[1]))
                    if len(pol) == 1:
                        UPD_ACCEPTS[un] = pol.pop()
                    else:
                        un = None
        except Exception:
            pass
    return pn, un


UPD_ACCEPTS = {}          # the answer of the update question that means "accepted" (True unless the question is phrased negatively)


def classify(log, pred, upd):
    """('refused-by-cutoff' | 'open' | 'mismatch' | 'other') from the oracle answers of one resolution"""
    log = [(lab, v) for lab, v in log if lab != 'int-compare']
    before = [v for lab, v in log if lab.endswith('.' + pred)] if pred else []
    accept = [(bool(v) == UPD_ACCEPTS.get(upd, True)) for lab, v in log if lab.endswith('.' + upd)] if upd else []
    other = [lab for lab, v in log if not (pred and lab.endswith('.' + pred)) and not (upd and lab.endswith('.' + upd))]
    if other:
        return 'other'
    if accept and not all(accept):
        return 'mismatch'
    if any(before):
        return 'cutoff'
    return 'open'


def result_is_ok(r):
    return r is not None and r[0] == 'adt' and r[1] == 'core::result::Result' and r[2] == 0


# what storage can answer to a bulk call: the contract (BulkMutationError::successful_doc_ids) promises neither a prefix nor an order
BULK_ANSWERS = ('ok', 'err-none', 'err-first', 'err-last', 'err-all-reversed')


def check_handlers(ctx, facts, rule):
    try:
        roles = Roles(facts)
        hbs = handler_bodies(facts)
        need = {'set', 'del', 'multi_set', 'multi_del', 'purge'}
        if set(hbs) != need:
            raise Unmodelled('keyspace actor handlers not identified by message shape (found %s)' % sorted(hbs))
        pred, upd = gate_names(facts)
        out = {}
        # ---- single-document handlers --------------------------------------------------------------------------------
        for kind, op in (('set', 'insert'), ('del', 'delete')):
            for pre in PRE:
                rel = {('e', 'in'): pre[1]} if pre[0] == 'live' else ({('d', 'in'): pre[2]} if pre[0] == 'dead' else {})
                for ans in ('ok', 'err'):
                    res = []
                    for source, with_ctx in ((0, False), (1, True)):
                        res += run_handler(facts, roles, hbs[kind], {'k': 'e'} if pre[0] == 'live' else None, {'k': 'd'} if pre[0] == 'dead' else None,
                                           [('k', 'in')], (lambda m, keys, ans=ans: ('ok',) if ans == 'ok' else ('err', [])), rel, source, with_ctx)
                    out[(kind, pre, ans)] = res
        # ---- bulk handlers: two documents k1 (older stamp) and k2 ------------------------------------------------------------
        bulk_pre = [('none', 'none'), ('older', 'none'), ('newer', 'none'), ('none', 'newer'), ('older', 'older')]
        for kind, op in (('multi_set', 'insert'), ('multi_del', 'delete')):
            for p1, p2 in bulk_pre:
                rel = {('t1', 't2'): '<'}
                live = {}
                if p1 != 'none':
                    live['k1'] = 'e1'
                    rel[('e1', 't1')] = '<' if p1 == 'older' else '>'
                if p2 != 'none':
                    live['k2'] = 'e2'
                    rel[('e2', 't2')] = '<' if p2 == 'older' else '>'
                for ans in BULK_ANSWERS:
                    def plan(m, keys, ans=ans):
                        if ans == 'ok':
                            return ('ok',)
                        if ans == 'err-none':
                            return ('err', [])
                        if ans == 'err-first':
                            return ('err', keys[:1])
                        if ans == 'err-all-reversed':
                            return ('err', list(reversed(keys)))
                        return ('err', keys[-1:])
                    res = []
                    for source, with_ctx in ((0, False), (1, True)):
                        res += run_handler(facts, roles, hbs[kind], live or None, None, [('k1', 't1'), ('k2', 't2')], plan, rel, source, with_ctx)
                    out[(kind, (p1, p2), ans)] = res
        # ---- purge ---------------------------------------------------------------------------------------------------------
        for ans in ('ok', 'err-none', 'err-all'):
            def plan(m, keys, ans=ans):
                if ans == 'ok':
                    return ('ok',)
                return ('err', [] if ans == 'err-none' else list(keys))
            res = run_handler(facts, roles, hbs['purge'], None, {'k': 'd'}, [], plan, {})
            out[('purge', None, ans)] = res
        # two tombstones, and storage failing on its FIRST removal call only (a purge that works through its backlog in several calls)
        for ans in ('ok', 'first-call-fails'):
            calls_seen = {'n': 0}

            def plan2(m, keys, ans=ans, calls_seen=calls_seen):
                calls_seen['n'] += 1
                if ans == 'ok' or calls_seen['n'] > 1:
                    return ('ok',)
                return ('err', [])

            def fresh_plan(ans=ans):
                st = {'n': 0}

                def pl(m, keys):
                    st['n'] += 1
                    if ans == 'ok' or st['n'] > 1:
                        return ('ok',)
                    return ('err', [])
                return pl
            out[('purge2', None, ans)] = run_handler(facts, roles, hbs['purge'], None, {'k1': 'd1', 'k2': 'd2'}, [], fresh_plan, {}, plan_factory=True)
    except (Unmodelled, absint.NeedChoice, IndexError, TypeError, KeyError, AttributeError) as e:
        return _fallback(ctx, rule, e)

    def site_of(kind):
        b = hbs[kind][0]
        return '%s:%s' % (b.file, b.line)
    # ---- verdicts ----------------------------------------------------------------------------------------------------
    src_bad = {}

    def wrong_source(trace):
        want = [e[1] for e in trace if e[0] == 'msg-source']
        used = [e for e in trace if e[0] == 'versions-source']
        for e in used:
            if want and e[2] != want[0]:
                return (want[0], e[1], e[2])
        return None
    for kind, op in (('set', 'insert'), ('del', 'delete')):
        for pre in PRE:
            for ans in ('ok', 'err'):
                bad = []
                seen = 0
                for log, res in out[(kind, pre, ans)]:
                    if res and res[0] == 'panic':
                        continue
                    cls = classify(log, pred, upd)
                    if cls in ('mismatch', 'other'):
                        continue          # the will_apply / mutator gate disagreement is decided (and reported) by clause G
                    seen += 1
                    trace, lv, dd, r = res
                    writes = [e for e in trace if e[0] == 'storage']
                    wrong_src = wrong_source(trace)
                    if wrong_src:
                        src_bad.setdefault(kind, wrong_src)
                    got_state = (norm(lv.get('k'), pre), norm(dd.get('k'), pre))
                    will = cls == 'open' and (pre[0] == 'none' or (pre[1] or pre[2]) == '<')
                    same = unchanged(pre)[:2]
                    if not will:
                        exp = ([], same, True)
                    elif ans == 'ok':
                        w = lww_expected(op, pre)
                        exp = ([('k',)], (w[0], w[1]), True)
                    else:
                        exp = ([('k',)], same, False)
                    got = ([e[2] for e in writes], got_state, result_is_ok(r))
                    if got != exp:
                        bad.append((cls, got, exp))
                    elif got_state != same and ('change-stamp',) not in trace:
                        bad.append((cls, (got[0], 'changed WITHOUT bumping the keyspace change stamp (peers compare only that stamp and never re-sync this keyspace)', got[2]), exp))
                ok_ = seen > 0 and not bad
                lab = '%s|%s|storage %s' % (kind, pre_label(pre), 'succeeds' if ans == 'ok' else 'fails')
                ctx.ob(rule, lab, ok_, site_of(kind),
                       'one %s message with %s, storage %s: the set and storage agree (written exactly when the set accepts, applied exactly when storage reported success)' % (
                           kind, pre_label(pre), 'succeeding' if ans == 'ok' else 'failing') if ok_ else
                       '%s message with %s, storage %s%s: the handler makes storage calls %s, leaves the key (live, tombstone) = %s and returns %s; expected storage calls %s, '
                       'state %s, %s — the set and storage disagree (an acknowledged write is invisible, or a write storage never made is visible to peers)' % (
                           kind, pre_label(pre), 'succeeding' if ans == 'ok' else 'failing', (' [cut-off gate refuses]' if bad and bad[0][0] == 'cutoff' else ''),
                           bad[0][1][0] if bad else '?', bad[0][1][1] if bad else '?', 'Ok' if bad and bad[0][1][2] else 'Err',
                           bad[0][2][0] if bad else '?', bad[0][2][1] if bad else '?', 'Ok' if bad and bad[0][2][2] else 'Err'))
    for kind, op in (('multi_set', 'insert'), ('multi_del', 'delete')):
        for p1, p2 in [('none', 'none'), ('older', 'none'), ('newer', 'none'), ('none', 'newer'), ('older', 'older')]:
            for ans in BULK_ANSWERS:
                bad = []
                seen = 0
                for log, res in out[(kind, (p1, p2), ans)]:
                    if res and res[0] == 'panic':
                        continue
                    cls = classify(log, pred, upd)
                    if cls not in ('open', 'cutoff'):
                        continue
                    seen += 1
                    trace, lv, dd, r = res
                    writes = [e for e in trace if e[0] == 'storage']
                    wrong_src = wrong_source(trace)
                    if wrong_src:
                        src_bad.setdefault(kind, wrong_src)
                    # the cut-off gate is consulted once per document the set does not already hold (in message order)
                    befores = [v for lab, v in log if pred and lab.endswith('.' + pred)]
                    cut = {}
                    asked = [k for k, p in (('k1', p1), ('k2', p2))]
                    for k, v in zip(asked, befores):
                        cut[k] = v
                    if len(befores) != len(asked):
                        continue
                    handed = [k for k, p in (('k1', p1), ('k2', p2)) if p != 'newer' and not cut.get(k)]
                    if ans == 'ok':
                        applied = list(handed)
                    elif ans == 'err-none':
                        applied = []
                    elif ans == 'err-first':
                        applied = handed[:1]
                    elif ans == 'err-all-reversed':
                        applied = list(handed)
                    else:
                        applied = handed[-1:]
                    exp_state = {}
                    for k, p, t_, e_ in (('k1', p1, 't1', 'e1'), ('k2', p2, 't2', 'e2')):
                        if k in applied:
                            exp_state[k] = ('live', t_) if op == 'insert' else ('dead', t_)
                        elif p == 'none':
                            exp_state[k] = None
                        else:
                            exp_state[k] = ('live', e_)
                    got_state = {}
                    for k in ('k1', 'k2'):
                        got_state[k] = ('live', lv[k]) if k in lv and k not in dd else (('dead', dd[k]) if k in dd and k not in lv else (None if k not in lv and k not in dd else ('both', lv.get(k), dd.get(k))))
                    exp = ([tuple(handed)] if True else [], exp_state, ans == 'ok')
                    got = ([e[2] for e in writes], got_state, result_is_ok(r))
                    if got != exp:
                        bad.append((got, exp))
                    elif applied and ('change-stamp',) not in trace:
                        bad.append(((got[0], 'changed WITHOUT bumping the keyspace change stamp', got[2]), exp))
                ok_ = seen > 0 and not bad
                lab = '%s|first doc: set holds %s, second: %s|storage %s' % (kind, p1, p2, {'ok': 'succeeds', 'err-none': 'fails having written nothing', 'err-first': 'fails after the first handed document', 'err-last': 'fails having written only the last handed document',
                                                                                          'err-all-reversed': 'fails having written every handed document, reported in reverse order'}[ans])
                ctx.ob(rule, lab, ok_, site_of(kind),
                       'bulk %s: exactly the documents the set accepts are handed to storage and exactly the ones storage reports written become visible' % kind if ok_ else
                       'bulk %s (%s): storage is handed %s and the set ends as %s, returning %s; expected storage to be handed %s, the set to end as %s and %s — exactly the documents '
                       'storage reports as written must become visible in the set' % (
                           kind, lab.split('|', 1)[1], bad[0][0][0] if bad else '?', bad[0][0][1] if bad else '?', 'Ok' if bad and bad[0][0][2] else 'Err',
                           bad[0][1][0] if bad else '?', bad[0][1][1] if bad else '?', 'Ok' if bad and bad[0][1][2] else 'Err'))
    for kind in ('set', 'del', 'multi_set', 'multi_del'):
        w = src_bad.get(kind)
        ctx.ob(rule, '%s|applied-under-the-message-source' % kind, w is None, site_of(kind),
               'the set is updated under the source id the message carries' if w is None else
               'a %s message from source %s is applied to the set under source %s (%s): the per-source register of ANOTHER source decides, so an operation that is new to '
               'its own source is refused as stale (or a stale one accepted) — storage is written, the set is not' % (kind, w[0], w[2], w[1]))
    for ans in ('ok', 'first-call-fails'):
        bad = []
        seen = 0
        for log, res in out[('purge2', None, ans)]:
            if res and res[0] == 'panic':
                continue
            trace, lv, dd, r = res
            seen += 1
            calls = [e for e in trace if e[0] == 'storage']
            removed = set()
            for i, e in enumerate(calls):
                if ans == 'ok' or i > 0:
                    removed |= set(e[2])
            handed = set(k for e in calls for k in e[2])
            exp_dd = {k: v for k, v in {'k1': 'd1', 'k2': 'd2'}.items() if k not in removed}
            if dd != exp_dd:
                bad.append('storage was asked to remove %s and removed %s, but the set afterwards tracks the tombstones %s (expected %s): the set forgets a tombstone storage still '
                           'records (it is never purged again) or keeps one storage removed' % ([e[2] for e in calls], sorted(removed), sorted(dd), sorted(exp_dd)))
        ok_ = seen > 0 and not bad
        ctx.ob(rule, 'purge|two tombstones, storage %s' % ('succeeds' if ans == 'ok' else 'fails on its first removal call'), ok_, site_of('purge'),
               'purge of two tombstones: the set forgets exactly the tombstones storage removed, however the removals are batched' if ok_ else bad[0])
    for ans in ('ok', 'err-none', 'err-all'):
        bad = []
        seen = 0
        for log, res in out[('purge', None, ans)]:
            if res and res[0] == 'panic':
                continue
            before = [v for lab, v in log if pred and lab.endswith('.' + pred)]
            trace, lv, dd, r = res
            seen += 1
            writes = [e for e in trace if e[0] == 'storage']
            purgeable = any(before)
            if not purgeable:
                exp = ([()], {'k': 'd'}, ans == 'ok') if writes else ([], {'k': 'd'}, True)
                if writes and writes[0][2] != ():
                    bad.append((writes, dd, 'a tombstone that is not before the cut-off is removed from storage'))
                if dd != {'k': 'd'}:
                    bad.append((writes, dd, 'a tombstone that is not before the cut-off is forgotten'))
                continue
            exp_dd = {} if ans in ('ok', 'err-all') else {'k': 'd'}
            got = ([e[2] for e in writes], dd, result_is_ok(r))
            exp = ([('k',)], exp_dd, ans == 'ok')
            if got != exp:
                bad.append((got, exp, ''))
        if any(('spawned-detached',) in res[0] for log, res in out[('purge', None, ans)] if res and res[0] != 'panic' and isinstance(res[0], list)):
            bad.insert(0, ('the storage removal runs in a detached task: the handler returns (and the actor takes the next message) before storage has removed the tombstones, '
                           'so a later write of the same key can be deleted by the late removal, and a failed removal is never re-marked', '', ''))
        ok_ = seen > 0 and not bad
        ctx.ob(rule, 'purge|storage %s' % {'ok': 'succeeds', 'err-none': 'fails having removed nothing', 'err-all': 'fails having removed everything'}[ans], ok_, site_of('purge'),
               'purge: storage is asked to remove exactly the purged tombstones and the set forgets exactly the ones storage removed' if ok_ else
               'purge with storage %s: %s' % (ans, bad[0][0] if isinstance(bad[0], tuple) and isinstance(bad[0][0], str) else bad[0]))
    return True
