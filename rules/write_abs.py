"""C06.W3: the acknowledgement counting of a replicated write (`handle_consistency_distribution`), interpreted (P-TRACE).

Two selected nodes; the request factory is an opaque callable whose futures resolve to each of {acknowledged, RPC error,
transport error, other error} per node.  Decided: exactly one request is made per selected node, and Ok is returned exactly
when every selected node acknowledged."""
import itertools
import absint
from absint import Interp, Order, Cell, Unmodelled, UNIT, mk_option
from facts import strip_generics, last_seg, ty_head
import actor_abs
from actor_abs import World, ok, err, build_value, upvar_types

EC = 'datacake_eventual_consistency'


def find_counter(facts):
    """the coroutine that takes the selected nodes and a request factory (by signature)"""
    out = []
    for b in facts.bodies.values():
        if b.crate != EC or b.kind != 'coroutine' or b.d['promoted']:
            continue
        ups = upvar_types(b)
        tys = list(ups.values())
        if len(tys) == 2 and any('SmallVec<[core::net::socket_addr::SocketAddr' in t or 'Vec<core::net::socket_addr::SocketAddr' in t for t in tys) \
                and 'StoreError' in b.local_ty(0) and not any('Store' in t and 'Handle' in t for t in tys):
            out.append((b, ups))
    return out


def check_counting(ctx, facts, rule):
    from orswot_abs import _fallback
    try:
        ents = find_counter(facts)
        if len(ents) != 1:
            raise Unmodelled('acknowledgement-counting function not identified by signature (%d candidates)' % len(ents))
        body, ups = ents[0]
        se = [a for n, a in facts.adts.items() if n.startswith(EC + '::') and n.endswith('::StoreError')]
        if len(se) != 1:
            raise Unmodelled('StoreError not found')
        se = se[0]
        vnames = [v['name'] for v in se['variants']]

        def error_value(kind, node):
            cands = [i for i, v in enumerate(se['variants']) if (kind == 'rpc' and 'Rpc' in v['name']) or (kind == 'transport' and 'Transport' in v['name'])
                     or (kind == 'other' and 'Rpc' not in v['name'] and 'Transport' not in v['name'] and 'Consistency' not in v['name'])]
            if not cands:
                raise Unmodelled('no %s variant in StoreError' % kind)
            i = cands[0]
            fields = [Cell(('addr', node)) if 'SocketAddr' in f['ty'] else Cell(('opaque', 'error-detail')) for f in se['variants'][i]['fields']]
            return ('adt', strip_generics(se['def']), i, fields)
        outcomes = ('ack', 'rpc', 'transport', 'other')
        out = {}
        for combo in itertools.product(outcomes, repeat=2):
            def run(choices, combo=combo):
                world = World()
                plan = dict(zip(('a1', 'a2'), combo))

                def callable_hook(interp, clo, args):
                    if clo[0] == 'factory':
                        node = interp.deref_all(args[0])
                        world.trace.append(('request', node[1] if node and node[0] == 'addr' else node))
                        res = ok(UNIT) if plan.get(node[1]) == 'ack' else err(error_value(plan.get(node[1]), node[1]))
                        return ('future', 'ready', res)
                    return None
                upv = {}
                for i, ty in ups.items():
                    if 'SocketAddr' in ty:
                        upv[i] = ('vec', [('addr', 'a1'), ('addr', 'a2')])
                    else:
                        upv[i] = ('factory',)
                it, r = actor_abs.run_coroutine(facts, body, upv, world, choices=choices, callable_hook=callable_hook, unknown_call=actor_abs.lenient_unknown)
                return it.oracle_log, (list(world.trace), r)
            out[combo] = absint.explore(run)
    except (Unmodelled, absint.NeedChoice, IndexError, TypeError, KeyError, AttributeError) as e:
        return _fallback(ctx, rule, e)
    site_ = '%s:%s' % (body.file, body.line)
    bad = []
    for combo, results in out.items():
        for log, res in results:
            if res and res[0] == 'panic':
                bad.append((combo, 'a path panics'))
                continue
            trace, r = res
            reqs = sorted(e[1] for e in trace if e[0] == 'request')
            is_ok = r is not None and r[0] == 'adt' and r[1] == 'core::result::Result' and r[2] == 0
            want_ok = all(c == 'ack' for c in combo)
            if reqs != ['a1', 'a2']:
                bad.append((combo, 'requests are made to %s (expected exactly one per selected node)' % reqs))
            elif is_ok != want_ok:
                bad.append((combo, 'the write returns %s' % ('Ok although a selected replica did not acknowledge' if is_ok else 'an error although every selected replica acknowledged')))
    ok_ = bool(out) and not bad
    ctx.ob(rule, 'acknowledgement-counting', ok_, site_,
           'for two selected nodes and every combination of {acknowledged, rpc error, transport error, other error}: one request per node, Ok exactly when both acknowledged' if ok_ else
           'with replica outcomes %s: %s' % (bad[0][0], bad[0][1]))
    return True
