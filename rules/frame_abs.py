"""C12.F1 / F2 (reader side): the frame guard `DataView::using`, summarised over length classes.

Abstract input: a buffer of symbolic length L in one of three classes — shorter than the 4-byte trailer, long enough for
the trailer but with a body shorter than the archived root (size S), or long enough for both — and an oracle "crc32(body)
equals the little-endian trailer".  Lengths are linear forms a*L + b, slices are (start, end) pairs of them, comparisons
against 4 and S are decided by the class.  The summary: the unchecked archive cast is reached exactly for (long enough,
checksum matches), it is applied to data[..L-4], the checksum compared is crc32(data[..L-4]) against le(data[L-4..]), and
no class reaches a panic or an out-of-range slice."""
import absint
from absint import Interp, Order, Cell, Unmodelled, PanicPath, mk_option, mk_bool, UNIT
from facts import strip_generics, last_seg, ty_head

CLASSES = ('short', 'no-root', 'full')       # L < 4 ; 4 <= L < 4 + S ; L >= 4 + S  (S > 0)


def lv(a, b):
    return ('lenv', a, b)


def cmp_len(cls, x, op, y):
    """decide `x op y` for lengths x, y in ('lenv', a, b) | ('int', n) | ('sizeS',) under the class; None if unknown"""
    def val(v, L, S):
        if v[0] == 'lenv':
            return v[1] * L + v[2]
        if v[0] == 'int':
            return v[1]
        if v[0] == 'sizeS':
            return S
        return None
    # representative (L, S) pairs per class, with S in {1, 8} and L at both ends of the class
    reps = {'short': [(0, 8), (3, 8), (0, 1), (3, 1)],
            'no-root': [(4, 8), (11, 8), (4, 1)],
            'full': [(12, 8), (40, 8), (5, 1), (40, 1)]}[cls]
    outs = set()
    for L, S in reps:
        a, b = val(x, L, S), val(y, L, S)
        if a is None or b is None:
            return None
        outs.add({'Lt': a < b, 'Le': a <= b, 'Gt': a > b, 'Ge': a >= b, 'Eq': a == b, 'Ne': a != b}[op])
    return outs.pop() if len(outs) == 1 else None


def make_hook(cls):
    def is_len(v):
        return v is not None and v[0] in ('lenv', 'sizeS') or (v is not None and v[0] == 'int' and v[1] is not None)

    def slice_len(s):
        return lv(s[2][1] - s[1][1], s[2][2] - s[1][2])

    def check_range(interp, lo, hi, whole_hi):
        # lo <= hi <= len, else the slice operation panics
        ok1 = cmp_len(cls, lo, 'Le', hi)
        ok2 = cmp_len(cls, hi, 'Le', whole_hi)
        if ok1 is None or ok2 is None:
            raise Unmodelled('slice bounds not decidable in class %s' % cls)
        if not (ok1 and ok2):
            raise PanicPath('slice index out of range')

    def hook(interp, name, args, t, body):
        seg = last_seg(name)
        a0 = interp.deref_all(args[0]) if args else None
        if a0 is not None and a0[0] in ('buf', 'slice'):
            s = a0 if a0[0] == 'slice' else ('slice', lv(0, 0), lv(1, 0))
            if seg in ('as_slice', 'as_ref', 'deref', 'as_bytes', 'borrow', 'as_mut_slice'):
                return ('ref', Cell(s))
            if seg == 'len':
                return slice_len(s)
            if seg == 'is_empty':
                r = cmp_len(cls, slice_len(s), 'Eq', ('int', 0))
                return mk_bool(r) if r is not None else ('bool', None)
            if seg == 'index' and len(args) == 2:
                r = interp.deref_all(args[1])
                if r[0] == 'adt' and r[1].startswith('core::ops::range::'):
                    kind = r[1].rsplit('::', 1)[1]
                    f = [c.v for c in r[3]]
                    def absl(x):      # offset within the slice -> absolute
                        if x[0] == 'int':
                            return lv(s[1][1], s[1][2] + x[1])
                        if x[0] == 'lenv':
                            return lv(s[1][1] + x[1], s[1][2] + x[2])
                        raise Unmodelled('slice index %r' % (x,))
                    if kind == 'RangeFrom':
                        lo, hi = absl(f[0]), s[2]
                    elif kind == 'RangeTo':
                        lo, hi = s[1], absl(f[0])
                    elif kind == 'Range':
                        lo, hi = absl(f[0]), absl(f[1])
                    elif kind == 'RangeFull':
                        lo, hi = s[1], s[2]
                    else:
                        raise Unmodelled('slice index by %s' % kind)
                    check_range(interp, lo, hi, s[2])
                    return ('ref', Cell(('slice', lo, hi)))
            if seg in ('split_at', 'split_at_checked') and len(args) == 2:
                m = args[1]
                mid = lv(s[1][1] + (m[1] if m[0] == 'lenv' else 0), s[1][2] + (m[2] if m[0] == 'lenv' else m[1]))
                inr = cmp_len(cls, mid, 'Le', s[2])
                if inr is None:
                    raise Unmodelled('split point not decidable')
                pair = ('tuple', [Cell(('ref', Cell(('slice', s[1], mid)))), Cell(('ref', Cell(('slice', mid, s[2]))))])
                if seg == 'split_at':
                    if not inr:
                        raise PanicPath('split_at out of range')
                    return pair
                return mk_option(pair) if inr else mk_option(None)
            if seg in ('get',) and len(args) == 2:
                raise Unmodelled('slice get')
            if seg in ('try_into', 'try_from'):
                n = cmp_len(cls, slice_len(s), 'Eq', ('int', 4))
                if n is None:
                    raise Unmodelled('array conversion of a slice of undecided length')
                if n:
                    return ('adt', 'core::result::Result', 0, [Cell(('arr4', s[1], s[2]))])
                return ('adt', 'core::result::Result', 1, [Cell(('opaque', 'TryFromSliceError'))])
            if name == 'crc32fast::hash':
                interp.trace.append(('crc-over', s[1], s[2]))
                return ('crc', s[1], s[2])
            if name.endswith('::archived_root') or name.endswith('::archived_value') or name.endswith('from_bytes_unchecked') or name.endswith('archived_root_mut'):
                interp.trace.append(('cast', s[1], s[2]))
                return ('ref', Cell(('opaque', 'archived')))
            if name.endswith('::check_archived_root') or name.endswith('::from_bytes'):
                interp.trace.append(('checked-cast', s[1], s[2]))
                return ('adt', 'core::result::Result', 0, [Cell(('ref', Cell(('opaque', 'archived'))))])
        if name == 'crc32fast::hash' and a0 is not None and a0[0] == 'buf':
            pass
        if seg in ('from_le_bytes', 'from_be_bytes', 'from_ne_bytes') and name.startswith('core::num::') and args and args[0][0] == 'arr4':
            return ('u32', seg, args[0][1], args[0][2])
        if seg in ('from_le_bytes', 'from_be_bytes', 'from_ne_bytes') and name.startswith('core::num::') and args and args[0][0] == 'arr' and len(args[0][1]) == 4:
            bs = [c.v for c in args[0][1]]
            if all(b is not None and b[0] == 'byte' and not b[4] for b in bs) and len({(b[1], b[2]) for b in bs}) == 1 and [b[3] for b in bs] == [0, 1, 2, 3]:
                lo, hi = bs[0][1], bs[0][2]
                if cmp_len(cls, ('lenv', hi[1] - lo[1], hi[2] - lo[2]), 'Eq', ('int', 4)):
                    return ('u32', seg, lo, hi)
            raise Unmodelled('integer decoded from bytes that are not the 4 bytes of one slice, in order')
        if name == 'core::mem::size_of' or name == 'core::mem::size_of_val':
            return ('sizeS',)
        if name == 'core::intrinsics::transmute':
            return args[0]
        if name.startswith('core::num::') and seg in ('checked_sub', 'saturating_sub', 'wrapping_sub') and args and is_len(args[0]) and args[1][0] == 'int':
            x = args[0] if args[0][0] == 'lenv' else lv(0, args[0][1])
            neg = cmp_len(cls, x, 'Lt', args[1])
            if neg is None:
                raise Unmodelled('subtraction not decidable')
            r = lv(x[1], x[2] - args[1][1])
            if seg == 'checked_sub':
                return mk_option(None) if neg else mk_option(r)
            if neg:
                raise Unmodelled('%s underflows in class %s' % (seg, cls))
            return r
        return None
    return hook


def arith_for(cls):
    def arith(interp, op, a, b):
        return None
    return arith


class FrameInterp(Interp):
    """lengths as linear forms; comparisons decided by the class"""

    def __init__(self, facts, cls, **kw):
        Interp.__init__(self, facts, Order({}), **kw)
        self.cls = cls

    def binop(self, op, a, b):
        la = a[0] in ('lenv', 'sizeS')
        lb = b[0] in ('lenv', 'sizeS')
        if la or lb:
            if op in ('Lt', 'Le', 'Gt', 'Ge', 'Eq', 'Ne'):
                r = cmp_len(self.cls, a, op, b)
                return mk_bool(r) if r is not None else ('bool', None)
            if op in ('Sub', 'SubWithOverflow', 'SubUnchecked') and a[0] == 'lenv' and b[0] == 'int' and b[1] is not None:
                neg = cmp_len(self.cls, a, 'Lt', b)
                r = lv(a[1], a[2] - b[1])
                if op == 'SubWithOverflow':
                    if neg:
                        raise PanicPath('length arithmetic underflows')
                    return ('tuple', [Cell(r), Cell(mk_bool(False))])
                if neg:
                    raise PanicPath('length arithmetic underflows')
                return r
            if op in ('Add', 'AddWithOverflow', 'AddUnchecked') and a[0] == 'lenv' and b[0] == 'int' and b[1] is not None:
                r = lv(a[1], a[2] + b[1])
                return ('tuple', [Cell(r), Cell(mk_bool(False))]) if op == 'AddWithOverflow' else r
            raise Unmodelled('length arithmetic %s' % op)
        if a[0] in ('u32', 'crc') and b[0] in ('u32', 'crc') and op in ('Eq', 'Ne'):
            self.trace.append(('compare', a, b))
            m = self.choose('crc-match')
            return mk_bool(m if op == 'Eq' else not m)
        return Interp.binop(self, op, a, b)

    def compare_values(self, seg, a, b):
        if a[0] in ('u32', 'crc') and b[0] in ('u32', 'crc') and seg in ('eq', 'ne'):
            self.trace.append(('compare', a, b))
            m = self.choose('crc-match')
            return mk_bool(m if seg == 'eq' else not m)
        if a[0] in ('lenv', 'sizeS') or b[0] in ('lenv', 'sizeS'):
            r = cmp_len(self.cls, a, {'lt': 'Lt', 'le': 'Le', 'gt': 'Gt', 'ge': 'Ge', 'eq': 'Eq', 'ne': 'Ne'}[seg], b)
            return mk_bool(r) if r is not None else ('bool', None)
        return Interp.compare_values(self, seg, a, b)


def check_frame(ctx, facts, rule, cfg_label=''):
    from orswot_abs import _fallback
    try:
        us = [b for b in facts.bodies.values() if b.crate == 'datacake_rpc' and not b.d['promoted'] and b.kind in ('method', 'fn')
              and b.name.endswith('::DataView::using')]
        if len(us) != 1:
            raise Unmodelled('DataView::using not found')
        using = us[0]
        out = {}
        for cls in CLASSES:
            def one(choices, cls=cls):
                it = FrameInterp(facts, cls, opaque_call=make_hook(cls))
                it.choices = list(choices)
                r = it.run_body(using, [('buf', 'D')])
                return it.oracle_log, (r, list(it.trace))
            out[cls] = absint.explore(one)
    except (Unmodelled, absint.NeedChoice, IndexError, TypeError, KeyError, AttributeError) as e:
        return _fallback(ctx, rule, e)
    site_ = '%s:%s' % (using.file, using.line)
    body_sl = (lv(0, 0), lv(1, -4))
    trailer_sl = (lv(1, -4), lv(1, 0))
    for cls in CLASSES:
        bad = []
        seen = 0
        for log, res in out[cls]:
            if res and res[0] == 'panic':
                bad.append('a %s frame reaches a panic (%s)' % (cls, res[1]))
                continue
            seen += 1
            r, trace = res
            is_ok = r[0] == 'adt' and r[1] == 'core::result::Result' and r[2] == 0
            casts = [e for e in trace if e[0] == 'cast']
            match = [v for lab, v in log if lab == 'crc-match']
            others = [lab for lab, v in log if lab != 'crc-match']
            if others:
                bad.append('undecided branch %s' % others)
                continue
            want_ok = cls == 'full' and bool(match) and all(match)
            if cls == 'full' and not match:
                bad.append('a frame long enough for root and trailer is accepted or refused without comparing the checksum')
                continue
            if is_ok != want_ok or bool(casts) != want_ok:
                bad.append('frame class %s with checksum %s: %s and the unchecked cast is %s — expected %s' % (
                    cls, 'matching' if (match and all(match)) else ('mismatching' if match else 'not compared'),
                    'accepted' if is_ok else 'refused', 'reached' if casts else 'not reached', 'accepted with cast' if want_ok else 'refused before any cast'))
                continue
            if want_ok:
                if any((c[1], c[2]) != body_sl for c in casts):
                    bad.append('the cast is applied to a slice other than data[..len-4]')
                cmps = [e for e in trace if e[0] == 'compare']
                good_cmp = False
                for _c, x, y in cmps:
                    for p, q in ((x, y), (y, x)):
                        if p[0] == 'crc' and (p[1], p[2]) == body_sl and q[0] == 'u32' and q[1] == 'from_le_bytes' and (q[2], q[3]) == trailer_sl:
                            good_cmp = True
                if not good_cmp:
                    bad.append('the comparison is not crc32(data[..len-4]) against u32::from_le_bytes(data[len-4..])')
        ok_ = seen > 0 and not bad
        lab = {'short': 'frame shorter than the trailer', 'no-root': 'body shorter than the archived root', 'full': 'frame long enough for root and trailer'}[cls]
        ctx.ob(rule, '%sguard|%s' % (cfg_label, lab), ok_, site_,
               '%s: %s' % (lab, 'refused without panic and without reaching the unchecked cast' if cls != 'full' else
                           'accepted exactly when crc32(body) equals the little-endian trailer; the cast is applied to the body only') if ok_ else
               (bad[0] if bad else 'no path'))
    return True
