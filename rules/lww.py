"""Rule L (C03, C04): monotone last-writer-wins resolution.

Wherever two timestamps are compared and, on one edge of the test, a value derived from one
of them is *stored* (map insert / entry insert / write through a reference / or_insert) while
the other is dropped, the edge must normalise to `dropped <= survivor` (or `<`).  `max` joins
are accepted, `min` joins are violations.  No reference to which side is "local"."""
from analysis import *  # noqa
from facts import strip_generics, op_local, op_place, ty_head
from engine import site

TS = 'datacake_crdt::timestamp::HLCTimestamp'

STORE_CALL_RX = re.compile(
    r'^(alloc::collections::btree::map::BTreeMap|std::collections::hash::map::HashMap|'
    r'alloc::collections::btree::map::entry::(OccupiedEntry|VacantEntry|Entry)|'
    r'std::collections::hash::map::(OccupiedEntry|VacantEntry|Entry))::(insert|or_insert|or_insert_with|insert_entry)$')


def is_ts(body, local):
    t = body.local_ty(local).replace('&', '').replace('mut ', '').strip()
    t = re.sub(r"'[a-z_]+ ", '', t)
    return t == TS


def stores(facts, body, flow):
    """[(block, line, set(backward locals of stored value), description)]"""
    out = []
    for b, t in body.calls():
        n = cname(t)
        if not n or not STORE_CALL_RX.match(n):
            continue
        meth = n.rsplit('::', 1)[1]
        val = t['args'][-1]
        l = op_local(val)
        if l is None:
            continue
        src = set()
        if meth == 'or_insert_with':
            # closure: the stored value is what the closure returns; its captures are the sources
            for _b, _j, s in body.assigns():
                if s['lhs']['l'] == l and s['rv']['k'] == 'aggregate':
                    for o in s['rv']['ops']:
                        ol = op_local(o)
                        if ol is not None and is_ts(body, ol):
                            src |= flow.backward([ol])
        else:
            if not is_ts(body, l):
                continue
            src = flow.backward([l])
        if src:
            out.append((b, t['cs'], src, '%s(..)' % meth))
    for b, j, s in body.assigns():
        lhs = s['lhs']
        if lhs['p'] and lhs['p'][0] == '*' and is_ts(body, lhs['l']):
            src = set()
            for pl in rv_places(s['rv']):
                src |= flow.backward([pl['l']])
            # writing through the reference: the reference itself is not a source of the value
            out.append((b, s['cs'], src, '*%s = ..' % ('_%d' % lhs['l'])))
    return out


def check_bodies(ctx, facts, rule, bodies, label):
    """apply rule L to the given bodies (each with its nested closures); returns the number of
    guards/joins that were classified"""
    n_guards = 0
    for root in bodies:
        for body in facts.group(root):
            flow = Flow(body, skip_deref_writes=True)
            sts = stores(facts, body, flow)
            short = body.name.replace('datacake_crdt::orswot::', '')
            # joins
            for b, t in body.calls():
                n = cname(t)
                if n in ('core::cmp::max', 'core::cmp::Ord::max', 'core::cmp::min', 'core::cmp::Ord::min') \
                        and is_ts(body, t['dest']['l']):
                    n_guards += 1
                    meth = n.rsplit('::', 1)[1]
                    idx = len([1 for o in ctx.obs if o.rule == rule and o.key.startswith(short + '|join')])
                    (ctx.ok if meth == 'max' else ctx.bad)(
                        rule, '%s|join#%d' % (short, idx), site(body, t['cs']),
                        'timestamp join uses %s%s' % (meth, '' if meth == 'max' else ': the smaller timestamp survives, merge order then decides the outcome'))
            ci = 0
            for c in comparisons(body):
                if c['rel'] in ('==', '!='):
                    continue
                if c['lhs'] is None or c['rhs'] is None:
                    continue
                if not (is_ts(body, c['lhs']) and is_ts(body, c['rhs'])):
                    continue
                Oa = flow.backward([c['lhs']])
                Ob = flow.backward([c['rhs']])
                onlyA, onlyB = Oa - Ob, Ob - Oa
                classified = False
                verdicts = []
                for kind in ('true', 'false'):
                    edge = c[kind + '_edge']
                    if edge[1] is None:
                        continue
                    rel = c['rel'] if kind == 'true' else NEG[c['rel']]   # a REL b on this edge
                    for sb, sline, src, sdesc in sts:
                        if not body.edge_dominates(edge, sb) or sb not in body.reachable_from([edge[1]]):
                            continue
                        # the reference written through is not the value stored
                        fa, fb = bool(src & onlyA), bool(src & onlyB)
                        if sdesc.startswith('*'):
                            # `*v = x`: v itself (an operand's referent) is the destination
                            pass
                        if fa == fb:
                            continue
                        classified = True
                        # survivor a: need b <= a  i.e. rel(a,b) in {>, >=}; survivor b: rel in {<, <=}
                        good = rel in (('>', '>=') if fa else ('<', '<='))
                        verdicts.append((good, kind, rel, 'lhs' if fa else 'rhs', sline, sdesc))
                if classified:
                    n_guards += 1
                    key = '%s|guard#%d' % (short, ci)
                    ci += 1
                    bad = [v for v in verdicts if not v[0]]
                    if bad:
                        g, kind, rel, who, sline, sdesc = bad[0]
                        ctx.bad(rule, key, site(body, c['line']),
                                'on the %s edge of `lhs %s rhs` (i.e. lhs %s rhs) the %s operand is stored by %s at line %s while the other '
                                'is dropped: the SMALLER timestamp survives — resolution is not monotone, so the outcome depends on arrival/merge order'
                                % (kind, c['rel'], rel, who, sdesc, sline), {'verdicts': verdicts})
                    else:
                        ctx.ok(rule, key, site(body, c['line']),
                               'guard `lhs %s rhs`: on every edge the stored operand is the greater one' % c['rel'],
                               {'verdicts': verdicts})
    return n_guards


def map_identity(body, local):
    """which map of *self a receiver reference denotes: ('self', field index) — also for a local that holds the
    map taken out of a field with mem::take / mem::replace"""
    out = set()
    for r in referent_roots(body, local):
        if r == 1:
            # find the field projection used when borrowing
            for _b, _j, s in body.assigns():
                if s['rv']['k'] == 'ref' and s['rv']['pl']['l'] == 1:
                    pass
        for _b, t in body.calls():
            if t['dest']['l'] == r and cname(t) in ('core::mem::take', 'core::mem::replace'):
                out |= map_identity(body, op_local(t['args'][0]))
    # direct borrow chain: walk reference definitions looking for `&(mut) (*_1).f`
    seen, work = set(), [local]
    while work:
        l = work.pop()
        if l in seen:
            continue
        seen.add(l)
        for _b, _j, s in body.assigns():
            if s['lhs']['l'] != l or s['lhs']['p']:
                continue
            rv = s['rv']
            if rv['k'] in ('ref', 'copyderef'):
                pl = rv['pl']
                fs = [e['f'] for e in pl['p'] if isinstance(e, dict) and 'f' in e]
                if pl['l'] == 1 and fs:
                    out.add(('self', fs[0]))
                elif pl['l'] != 1:
                    work.append(pl['l'])
                    # a plain local holding a map: look for mem::take producing it
                    for _bb, t in body.calls():
                        if t['dest']['l'] == pl['l'] and cname(t) in ('core::mem::take', 'core::mem::replace'):
                            work.append(op_local(t['args'][0]))
            elif rv['k'] == 'use' and op_local(rv['op']) is not None:
                work.append(op_local(rv['op']))
        for _bb, t in body.calls():
            if t['dest']['l'] == l and cname(t) in ('core::ops::deref::Deref::deref', 'core::ops::deref::DerefMut::deref_mut'):
                work.append(op_local(t['args'][0]))
    return out


LOOKUPS = re.compile(r'^(alloc::collections::btree::map::BTreeMap|std::collections::hash::map::HashMap)::(remove|get|get_mut|remove_entry|get_key_value)$')


def check_blind_overwrites(ctx, facts, rule, bodies):
    """B: a timestamp written into a map slot with `insert` must have competed with what the slot held: the stored value
    derives from a lookup on the same map (re-insert) or from a max-join over one, or the store is dominated by a guard
    that compares it with a value looked up in the same map.  (Entry::or_insert* writes only vacant slots.)"""
    n = 0
    for root in bodies:
        body = root
        flow = Flow(body, skip_deref_writes=True)
        calls = list(body.calls())
        lookups = []
        for b, t in calls:
            if cname(t) and LOOKUPS.match(cname(t)):
                lookups.append((b, t, map_identity(body, op_local(t['args'][0]))))
        cmps = [c for c in comparisons(body) if c['rel'] not in ('==', '!=') and c['lhs'] is not None and c['rhs'] is not None]
        joins = [(b, t) for b, t in calls if cname(t) in ('core::cmp::max', 'core::cmp::Ord::max')]
        for b, t in calls:
            n_ = cname(t)
            if not n_ or not re.match(r'^(alloc::collections::btree::map::BTreeMap|std::collections::hash::map::HashMap)::insert$', n_):
                continue
            vl = op_local(t['args'][-1])
            if vl is None or not is_ts(body, vl):
                continue
            mid = map_identity(body, op_local(t['args'][0]))
            if not mid:
                continue
            n += 1
            vb = flow.backward([vl])
            same = [(lb, lt) for lb, lt, lm in lookups if lm & mid]
            ok = None
            # (i) re-insert of what was looked up
            if any(lt['dest']['l'] in vb and body.dominates(lb, b) for lb, lt in same):
                ok = 're-insert of the value looked up in the same map'
            # (ii) max-join over a lookup of the same map
            for jb, jt in joins:
                if jt['dest']['l'] in vb and any(lt['dest']['l'] in flow.backward([op_local(a) for a in jt['args'] if op_local(a) is not None]) for lb, lt in same):
                    ok = ok or 'max-join with the value looked up in the same map'
            # (iii) dominated by a guard edge comparing the stored value with a value looked up in the same map
            for c in cmps:
                la, lb_ = flow.backward([c['lhs']]), flow.backward([c['rhs']])
                for side_val, side_old in ((la, lb_), (lb_, la)):
                    if (vb & side_val) and any(lt['dest']['l'] in side_old for _lb, lt in same):
                        for kind in ('true', 'false'):
                            e = c[kind + '_edge']
                            if e[1] is not None and body.edge_dominates(e, b):
                                ok = ok or 'guarded by a comparison with the value held in the same map'
            # (iv) re-insert of the map's own former content: the value comes from iterating the map taken out of the same field
            for nb, nt in calls:
                if cname(nt) == 'core::iter::traits::iterator::Iterator::next' and nt['dest']['l'] in vb:
                    for l in flow.backward([op_local(nt['args'][0])]):
                        for _bb, tk in calls:
                            if tk['dest']['l'] == l and cname(tk) in ('core::mem::take', 'core::mem::replace') and \
                                    map_identity(body, op_local(tk['args'][0])) & mid:
                                ok = ok or 're-insert of an entry of the same map (iterating the copy taken out of it)'
            short = body.name.replace('datacake_crdt::orswot::', '')
            names = None
            key = '%s|store#%d' % (short, len([o for o in ctx.obs if o.rule == rule and o.key.startswith(short + '|store#')]))
            if ok:
                ctx.ok(rule, key, site(body, t['cs']), 'timestamp written with insert: ' + ok)
            else:
                ctx.bad(rule, key, site(body, t['cs']),
                        'a timestamp is written into a map slot with `insert` without competing with what the slot may already hold (no lookup / '
                        'max-join / guard on the same map): an older operation arriving later overwrites a newer one, so the outcome depends on '
                        'arrival / merge order')
    return n


def check_guarded_drops(ctx, facts, rule, bodies):
    """D: a timestamp taken out of a map (`remove`) is dropped only where it was established to be <= the competing one.
    Every path through the removal either re-inserts the removed value into the same map, feeds it to a max-join, or
    crosses an edge of a comparison (between a value looked up in that map and a competing timestamp) on which the
    looked-up value is the smaller one."""
    n = 0
    for body in bodies:
        flow = Flow(body, skip_deref_writes=True)
        calls = list(body.calls())
        lookups = [(b, t, map_identity(body, op_local(t['args'][0]))) for b, t in calls if cname(t) and LOOKUPS.match(cname(t))]
        cmps = [c for c in comparisons(body) if c['rel'] not in ('==', '!=') and c['lhs'] is not None and c['rhs'] is not None
                and is_ts(body, c['lhs']) and is_ts(body, c['rhs'])]
        rets = body.return_blocks()
        short = body.name.replace('datacake_crdt::orswot::', '')
        for rb, rt, mid in lookups:
            if not cname(rt).endswith('::remove') or not mid:
                continue
            if not any(is_ts(body, l) for l in flow.forward([rt['dest']['l']], stop=[0])) and 'HLCTimestamp' not in body.local_ty(rt['dest']['l']):
                continue
            n += 1
            same = [lt['dest']['l'] for _lb, lt, lm in lookups if lm & mid]
            # G: edges on which the value held in this map is the smaller operand
            G = []
            for c in cmps:
                la, lb_ = flow.backward([c['lhs']]), flow.backward([c['rhs']])
                held_l = any(x in la for x in same)
                held_r = any(x in lb_ for x in same)
                if held_l == held_r:
                    continue
                for kind in ('true', 'false'):
                    e = c[kind + '_edge']
                    if e[1] is None:
                        continue
                    rel = c['rel'] if kind == 'true' else NEG[c['rel']]     # lhs REL rhs
                    if (held_l and rel in ('<', '<=')) or (held_r and rel in ('>', '>=')):
                        G.append(e)
            # I: the removed value is put back / joined
            V = flow.forward([rt['dest']['l']], stop=[0])
            I = []
            for b, t in calls:
                nn = cname(t)
                if nn and re.match(r'^(alloc::collections::btree::map::BTreeMap|std::collections::hash::map::HashMap)::insert$', nn) \
                        and op_local(t['args'][-1]) in V and map_identity(body, op_local(t['args'][0])) & mid:
                    I.append(b)
                if nn in ('core::cmp::max', 'core::cmp::Ord::max') and any(op_local(a) in V for a in t['args']):
                    I.append(b)
            re_ = ResultEdges(body, flow, rb, include_option=True)
            starts = [e[1] for e in re_.ok] if re_.inspected else list(body.succ(rb))
            dominated = any(body.edge_dominates(e, rb) for e in G)
            escapes = set(rets) & body.reachable_from(starts, avoid=I, avoid_edges=G) if starts else set()
            # a loop: reaching the next iteration's lookup of the same kind also ends this value's story
            key = '%s|remove#%d' % (short, len([o for o in ctx.obs if o.rule == rule and o.key.startswith(short + '|remove#')]))
            if dominated or not escapes:
                ctx.ok(rule, key, site(body, rt['cs']), 'the value taken out of the map is re-inserted, joined, or dropped only where it is the smaller one')
            else:
                ctx.bad(rule, key, site(body, rt['cs']),
                        'a timestamp is removed from its map and dropped on a path that never established it to be <= the competing timestamp '
                        '(no re-insert, no max-join, no guard on that path): a newer delete / insert can be discarded in favour of an older operation')
    return n


def check_exclusive_maps(ctx, facts, rule, bodies):
    """X: a key is never live and tombstoned at once — where a body stores a NEW timestamp for key k into one of the two
    maps (entries / dead), a `remove(&k)` on the sibling map dominates that store.  Restoring the value just taken out of the
    same map is exempt (it re-establishes the previous state)."""
    n = 0
    adt = facts.adts.get('datacake_crdt::orswot::OrSWotSet')
    fnames = [f['name'] for f in adt['variants'][0]['fields']] if adt else []
    pair = {fnames.index('entries'): fnames.index('dead'), fnames.index('dead'): fnames.index('entries')} if 'entries' in fnames and 'dead' in fnames else {}
    for body in bodies:
        flow = Flow(body, skip_deref_writes=True)
        calls = list(body.calls())
        lookups = [(b, t, map_identity(body, op_local(t['args'][0]))) for b, t in calls if cname(t) and LOOKUPS.match(cname(t))]
        short = body.name.replace('datacake_crdt::orswot::', '')
        for b, t in calls:
            nn = cname(t)
            if not nn or not re.match(r'^(alloc::collections::btree::map::BTreeMap|std::collections::hash::map::HashMap)::(insert|entry)$', nn):
                continue
            mid = {m for m in map_identity(body, op_local(t['args'][0])) if m[0] == 'self' and m[1] in pair}
            if not mid:
                continue
            if nn.endswith('::insert'):
                vl = op_local(t['args'][-1])
                vb = flow.backward([vl]) if vl is not None else set()
                if any(lt['dest']['l'] in vb and (lm & mid) for _lb, lt, lm in lookups):
                    continue        # restoring a value looked up in this very map
            n += 1
            sib = {('self', pair[m[1]]) for m in mid}
            removes = [lb for lb, lt, lm in lookups if cname(lt).endswith('::remove') and (lm & sib) and body.dominates(lb, b)]
            # the map taken out wholesale (mem::take) and re-filled counts as emptied
            taken = [bb for bb, tt in calls if cname(tt) in ('core::mem::take', 'core::mem::replace') and map_identity(body, op_local(tt['args'][0])) & sib
                     and body.dominates(bb, b)]
            key = '%s|store#%d' % (short, len([o for o in ctx.obs if o.rule == rule and o.key.startswith(short + '|store#')]))
            ok = bool(removes or taken)
            which = fnames[list(mid)[0][1]]
            ctx.ob(rule, key, ok, site(body, t['cs']),
                   'a new stamp is stored in `%s` only after the key was removed from `%s`' % (which, fnames[pair[list(mid)[0][1]]]) if ok else
                   'a new stamp is stored in `%s` without removing the key from `%s`: the key ends up live AND tombstoned; a later purge returns '
                   'the live key and storage drops a live document (or a delete resurfaces)' % (which, fnames[pair[list(mid)[0][1]]]))
    return n
