"""Rule L (C03, C04): monotone last-writer-wins resolution.

Wherever two timestamps are compared and, on one edge of the test, a value derived from one
of them is *stored* (map insert / entry insert / write through a reference / or_insert) while
the other is dropped, the edge must normalise to `dropped <= survivor` (or `<`).  `max` joins
are accepted, `min` joins are violations.  No reference to which side is "local"."""
from analysis import *  # noqa
from facts import strip_generics, op_local, op_place, ty_head
from engine import site

TS = 'datacake_crdt::timestamp::HLCTimestamp'

STORE_CALL_RX = re.compile(
    r'^(alloc::collections::btree::map::BTreeMap|std::collections::hash::map::HashMap|'
    r'alloc::collections::btree::map::entry::(OccupiedEntry|VacantEntry|Entry)|'
    r'std::collections::hash::map::(OccupiedEntry|VacantEntry|Entry))::(insert|or_insert|or_insert_with|insert_entry)$')


def is_ts(body, local):
    t = body.local_ty(local).replace('&', '').replace('mut ', '').strip()
    t = re.sub(r"'[a-z_]+ ", '', t)
    return t == TS


def stores(facts, body, flow):
    """[(block, line, set(backward locals of stored value), description)]"""
    out = []
    for b, t in body.calls():
        n = cname(t)
        if not n or not STORE_CALL_RX.match(n):
            continue
        meth = n.rsplit('::', 1)[1]
        val = t['args'][-1]
        l = op_local(val)
        if l is None:
            continue
        src = set()
        if meth == 'or_insert_with':
            # closure: the stored value is what the closure returns; its captures are the sources
            for _b, _j, s in body.assigns():
                if s['lhs']['l'] == l and s['rv']['k'] == 'aggregate':
                    for o in s['rv']['ops']:
                        ol = op_local(o)
                        if ol is not None and is_ts(body, ol):
                            src |= flow.backward([ol])
        else:
            if not is_ts(body, l):
                continue
            src = flow.backward([l])
        if src:
            out.append((b, t['cs'], src, '%s(..)' % meth))
    for b, j, s in body.assigns():
        lhs = s['lhs']
        if lhs['p'] and lhs['p'][0] == '*' and is_ts(body, lhs['l']):
            src = set()
            for pl in rv_places(s['rv']):
                src |= flow.backward([pl['l']])
            # writing through the reference: the reference itself is not a source of the value
            out.append((b, s['cs'], src, '*%s = ..' % ('_%d' % lhs['l'])))
    return out


def check_bodies(ctx, facts, rule, bodies, label):
    """apply rule L to the given bodies (each with its nested closures); returns the number of
    guards/joins that were classified"""
    n_guards = 0
    for root in bodies:
        for body in facts.group(root):
            flow = Flow(body, skip_deref_writes=True)
            sts = stores(facts, body, flow)
            short = body.name.replace('datacake_crdt::orswot::', '')
            # joins
            for b, t in body.calls():
                n = cname(t)
                if n in ('core::cmp::max', 'core::cmp::Ord::max', 'core::cmp::min', 'core::cmp::Ord::min') \
                        and is_ts(body, t['dest']['l']):
                    n_guards += 1
                    meth = n.rsplit('::', 1)[1]
                    idx = len([1 for o in ctx.obs if o.rule == rule and o.key.startswith(short + '|join')])
                    (ctx.ok if meth == 'max' else ctx.bad)(
                        rule, '%s|join#%d' % (short, idx), site(body, t['cs']),
                        'timestamp join uses %s%s' % (meth, '' if meth == 'max' else ': the smaller timestamp survives, merge order then decides the outcome'))
            ci = 0
            for c in comparisons(body):
                if c['rel'] in ('==', '!='):
                    continue
                if c['lhs'] is None or c['rhs'] is None:
                    continue
                if not (is_ts(body, c['lhs']) and is_ts(body, c['rhs'])):
                    continue
                Oa = flow.backward([c['lhs']])
                Ob = flow.backward([c['rhs']])
                onlyA, onlyB = Oa - Ob, Ob - Oa
                classified = False
                verdicts = []
                for kind in ('true', 'false'):
                    edge = c[kind + '_edge']
                    if edge[1] is None:
                        continue
                    rel = c['rel'] if kind == 'true' else NEG[c['rel']]   # a REL b on this edge
                    for sb, sline, src, sdesc in sts:
                        if not body.edge_dominates(edge, sb) or sb not in body.reachable_from([edge[1]]):
                            continue
                        # the reference written through is not the value stored
                        fa, fb = bool(src & onlyA), bool(src & onlyB)
                        if sdesc.startswith('*'):
                            # `*v = x`: v itself (an operand's referent) is the destination
                            pass
                        if fa == fb:
                            continue
                        classified = True
                        # survivor a: need b <= a  i.e. rel(a,b) in {>, >=}; survivor b: rel in {<, <=}
                        good = rel in (('>', '>=') if fa else ('<', '<='))
                        verdicts.append((good, kind, rel, 'lhs' if fa else 'rhs', sline, sdesc))
                if classified:
                    n_guards += 1
                    key = '%s|guard#%d' % (short, ci)
                    ci += 1
                    bad = [v for v in verdicts if not v[0]]
                    if bad:
                        g, kind, rel, who, sline, sdesc = bad[0]
                        ctx.bad(rule, key, site(body, c['line']),
                                'on the %s edge of `lhs %s rhs` (i.e. lhs %s rhs) the %s operand is stored by %s at line %s while the other '
                                'is dropped: the SMALLER timestamp survives — resolution is not monotone, so the outcome depends on arrival/merge order'
                                % (kind, c['rel'], rel, who, sdesc, sline), {'verdicts': verdicts})
                    else:
                        ctx.ok(rule, key, site(body, c['line']),
                               'guard `lhs %s rhs`: on every edge the stored operand is the greater one' % c['rel'],
                               {'verdicts': verdicts})
    return n_guards
