"""C06.SEM (API level): put / put_many / del / del_many of the replicated store interpreted end to end (P-TRACE).

Each of the four public write paths — the coroutine of `ReplicatedStoreHandle::<method>` — is interpreted with node selection,
the node clock, the local keyspace actor, the mutation queue of the distributor and the per-replica RPC client as modelled
effects.  Two replicas are selected.  Scenarios: selection refused; local write fails; local write succeeds and the replicas
answer (ok, ok) / (ok, err) / (err, ok) / (err, err).  Decided per path and scenario:
  * selection refused  -> error, nothing written, nothing queued, nothing sent;
  * local write fails  -> error, nothing queued, nothing sent;
  * otherwise the local actor is sent exactly the operation (ids, one stamp read from the clock once, live-path source), the same
    operation is queued for the distributor, every selected replica is sent it exactly once, and Ok is returned exactly when
    every selected replica acknowledged (a consistency error otherwise).
How the path is factored (helpers, traits, a tally type, a generic pipeline) does not matter.  The structural clauses W1 / W3 /
W5 are the fallback."""
import itertools
import re
import absint
from absint import Interp, Order, Cell, Unmodelled, UNIT, mk_option
from facts import strip_generics, last_seg, ty_head
import actor_abs
from actor_abs import World, ok, err, upvar_types

EC = 'datacake_eventual_consistency'
METHODS = ('put', 'put_many', 'del', 'del_many')
SCALE = [2]      # what a named size limit of the workspace evaluates to: 2 (three documents = above the limit, not a multiple) and 1 (two replicas = two waves)
NODES = ['r1', 'r2']


def stamps_and_ids(interp, v, depth=0, out=None):
    out = out if out is not None else {'keys': [], 'ts': [], 'ints': []}
    v = interp.deref_all(v)
    if v is None or depth > 8:
        return out
    t = v[0]
    if t == 'key':
        out['keys'].append(v[1])
    elif t == 'ts':
        out['ts'].append(v[1])
    elif t == 'adt':
        for c in v[3]:
            stamps_and_ids(interp, c.v, depth + 1, out)
    elif t in ('tuple', 'arr'):
        for c in v[1]:
            stamps_and_ids(interp, c.v, depth + 1, out)
    elif t == 'vec':
        for x in v[1]:
            stamps_and_ids(interp, x.v if isinstance(x, Cell) else x, depth + 1, out)
    elif t == 'iter':
        for x in list(v[1].items):
            stamps_and_ids(interp, x, depth + 1, out)
    return out


class ApiWorld(World):
    def __init__(self, facts, plan):
        World.__init__(self, hooks=[self.hook])
        self.facts = facts
        self.plan = plan
        self.events = []
        self.current_node = None
        self.clock_reads = 0

    def status_value(self, outcome):
        """the error a replica answers with: a Status whose code is the named variant ('err' = the first one)"""
        st = [n for n in self.facts.adts if n.startswith('datacake_rpc::') and n.endswith('::Status')]
        if len(st) != 1:
            return ('opaque', 'status')
        a = self.facts.adts[st[0]]
        cells = []
        for f in a['variants'][0]['fields']:
            ea = self.facts.adts.get(ty_head(f['ty']))
            if ea is not None and ea['kind'] == 'enum':
                names = [v['name'] for v in ea['variants']]
                idx = names.index(outcome) if outcome in names else 0
                cells.append(Cell(('adt', ty_head(f['ty']), idx, [])))
            else:
                cells.append(Cell(('opaque', 'status-' + f['name'])))
        return ('adt', st[0], 0, cells)

    def hook(self, world, interp, name, args, t, body):
        seg = last_seg(name)
        if name.endswith('::select_nodes') and name.startswith('datacake_node::'):
            lv = interp.deref_all(args[-1]) if args else None
            self.events.append(('select', lv == ('opaque', 'level')))
            if self.plan['select'] == 'err':
                return ('future', 'ready', err(('opaque', 'consistency-error')))
            return ('future', 'ready', ok(('vec', [('key', n) for n in (NODES if self.plan['select'] == 'ok' else [])])))
        if name.endswith('::clock::Clock::get_time'):
            self.clock_reads += 1
            return ('future', 'ready', ('ts', 'now%d' % self.clock_reads))
        if name.endswith('::clock::Clock::register_ts'):
            return ('future', 'ready', UNIT)
        if name.endswith('::KeyspaceGroup::get_or_create_keyspace'):
            return ('future', 'ready', ('opaque', 'mailbox'))
        if name.startswith('puppet::'):
            if seg in ('send', 'deferred_send') and len(args) >= 2:
                msg = interp.deref_all(args[1])
                mname = msg[1].rsplit('::', 1)[-1] if msg and msg[0] == 'adt' else '?'
                info = stamps_and_ids(interp, msg)
                src = None
                if msg and msg[0] == 'adt':
                    a = self.facts.adts.get(msg[1])
                    if a:
                        for f, c in zip(a['variants'][0]['fields'], msg[3]):
                            v = interp.deref_all(c.v)
                            if f['ty'] == 'usize' and v is not None and v[0] == 'int':
                                src = v[1]
                self.events.append(('local', mname, tuple(info['keys']), tuple(sorted(set(info['ts']))), src))
                return ('future', 'ready', ok(UNIT) if self.plan['local'] == 'ok' else err(('opaque', 'storage-error')))
            if seg == 'name':
                return ('ref', Cell(('key', 'ks')))
            return ('opaque', 'mailbox:' + seg) if body.local_ty(t['dest']['l']) != '()' else UNIT
        if name.endswith('::TaskDistributor::mutation') and len(args) >= 2:
            m = interp.deref_all(args[1])
            a = self.facts.adts.get(m[1]) if m and m[0] == 'adt' else None
            vname = a['variants'][m[2]]['name'] if a else '?'
            info = stamps_and_ids(interp, m)
            self.events.append(('queued', vname, tuple(k for k in info['keys'] if k != 'ks'), tuple(sorted(set(info['ts'])))))
            return UNIT
        if name.endswith('::get_or_connect') and len(args) >= 2:
            n = interp.deref_all(args[1])
            self.current_node = n[1] if n and n[0] == 'key' else None
            return ('opaque', 'channel')
        if name.startswith('datacake_rpc::') and re.search(r'::RpcClient::(send|send_owned)$', name) and len(args) >= 2:
            # the wire: the per-replica client's own code (stamping the request, looking at the status) is interpreted above this point
            msg = interp.deref_all(args[1])
            info = {'keys': [], 'ts': [], 'ints': []}
            a = self.facts.adts.get(msg[1]) if msg and msg[0] == 'adt' else None
            if a is not None:
                for f, c in zip(a['variants'][0]['fields'], msg[3]):
                    if 'Document' in f['ty']:                     # the operation itself (the request's own `timestamp` field is the sender's clock reading)
                        stamps_and_ids(interp, c.v, 0, info)
            node = self.current_node
            self.events.append(('remote', node, msg[1].rsplit('::', 1)[-1] if msg and msg[0] == 'adt' else '?', tuple(info['keys']), tuple(sorted(set(info['ts'])))))
            outcome = self.plan['remote'].get(node, 'ok')
            return ('future', 'ready', ok(('opaque', 'reply-view')) if outcome == 'ok' else err(self.status_value(outcome)))
        if 'rkyv_tooling::view::DataView' in (t.get('resolved') or name):
            ty = body.local_ty(t['dest']['l']) if not t['dest']['p'] else ''
            v = ('opaque', 'archived-reply')
            return ('ref', Cell(v)) if ty.startswith('&') else v
        if name.endswith('::ArchivedHLCTimestamp::cast'):
            return ('ts', 'replica-clock')
        if name.startswith('datacake_rpc::') and re.search(r'::RpcClient::(new|new_client|set_timeout)$', name):
            return ('opaque', 'rpc-client') if body.local_ty(t['dest']['l']) != '()' else UNIT
        return None


def find_paths(facts):
    out = {}
    for b in facts.bodies.values():
        if b.crate != EC or b.kind != 'coroutine' or b.d['promoted'] or b.cfg is None:
            continue
        m = re.match(r'^' + re.escape(EC) + r'::ReplicatedStoreHandle::(put|put_many|del|del_many)::\{closure#0\}$', b.name)
        if m:
            out[m.group(1)] = b
    return out


def run_path(facts, meth, body, plan):
    ups = upvar_types(body)
    names = body.upvar_names() if hasattr(body, 'upvar_names') else {}

    def run(choices):
        world = ApiWorld(facts, plan)
        upv = {}
        for i, ty in ups.items():
            nm = names.get(i, '')
            if ty.startswith('&') and 'ReplicatedStoreHandle' in ty:
                upv[i] = ('ref', Cell(('opaque', 'store-handle')))
            elif ty in ('&str', 'alloc::string::String'):
                upv[i] = ('ref', Cell(('key', 'ks'))) if ty.startswith('&') else ('key', 'ks')
            elif ty == 'u64':
                upv[i] = ('key', 'd1')
            elif 'Consistency' in ty:
                upv[i] = ('opaque', 'level')
            elif meth == 'put_many' and nm in ('documents',) or (meth == 'put_many' and ty not in ('u64',) and 'Consistency' not in ty and not ty.startswith('&')):
                upv[i] = ('vec', [('tuple', [Cell(('key', 'd1')), Cell(('opaque', 'bytes1'))]), ('tuple', [Cell(('key', 'd2')), Cell(('opaque', 'bytes2'))]),
                                  ('tuple', [Cell(('key', 'd3')), Cell(('opaque', 'bytes3'))])])
            elif meth == 'del_many' and not ty.startswith('&'):
                upv[i] = ('vec', [('key', 'd1'), ('key', 'd2'), ('key', 'd3')])
            else:
                upv[i] = ('opaque', 'arg:' + ty)
        it = Interp(facts, Order({}), opaque_call=world.call, step_limit=400000)
        it.scale_consts = SCALE[0]      # (round 8, C06h: a bulk split into requests of a constant size; three documents stand for a batch above the limit)
        it.poll_hook = world.poll
        it.unknown_call = actor_abs.lenient_unknown
        it.opaque_fields = True
        it.choices = list(choices)
        n = max(upv) + 1 if upv else 1
        st = ('closure', body.defp, [Cell(upv.get(i, ('opaque', 'u'))) for i in range(n)])
        r = it.deref_all(it.run_body(body, [st, ('opaque', 'cx')]))
        return it.oracle_log, (list(world.events), r, world.clock_reads)
    return absint.explore(run)


def check_api(ctx, facts, rule):
    from orswot_abs import _fallback
    SCEN = [('selection refused', {'select': 'err', 'local': 'ok', 'remote': {}}),
            ('local write fails', {'select': 'ok', 'local': 'err', 'remote': {}}),
            ('no replica selected (level None)', {'select': 'empty', 'local': 'ok', 'remote': {}}),
            ('both replicas acknowledge', {'select': 'ok', 'local': 'ok', 'remote': {'r1': 'ok', 'r2': 'ok'}}),
            ('the first replica fails', {'select': 'ok', 'local': 'ok', 'remote': {'r1': 'err', 'r2': 'ok'}}),
            ('the second replica fails', {'select': 'ok', 'local': 'ok', 'remote': {'r1': 'ok', 'r2': 'err'}}),
            ('both replicas fail', {'select': 'ok', 'local': 'ok', 'remote': {'r1': 'err', 'r2': 'err'}})]
    # whatever a replica's error says (unknown service, internal error, bad payload, connection lost, timeout), it did not acknowledge
    st_ = [n for n in facts.adts if n.startswith('datacake_rpc::') and n.endswith('::ErrorCode')]
    for code in ([v['name'] for v in facts.adts[st_[0]]['variants']] if len(st_) == 1 else []):
        SCEN.append(('the second replica answers with the error %s' % code, {'select': 'ok', 'local': 'ok', 'remote': {'r1': 'ok', 'r2': code}}))
    try:
        paths = find_paths(facts)
        if set(paths) != set(METHODS):
            raise Unmodelled('the four write paths of ReplicatedStoreHandle were not found (%s)' % sorted(paths))
        results = {}
        for meth in METHODS:
            for label, plan in SCEN:
                results[(meth, label)] = run_path(facts, meth, paths[meth], plan)
        # (round 8, C06i: the selected replicas contacted in waves of a constant size, the verdict taken from the last wave) the same table with
        # every named limit at 1 — two replicas are two waves, three documents three requests; only evaluated when a limit is actually met
        SCALE[0] = 1
        try:
            for meth in METHODS:
                for label, plan in SCEN:
                    results[(meth, label + ' [named size limits = 1]')] = run_path(facts, meth, paths[meth], plan)
        finally:
            SCALE[0] = 2
    except (Unmodelled, absint.NeedChoice, absint.PanicPath, IndexError, TypeError, KeyError, AttributeError, RecursionError) as e:
        return _fallback(ctx, rule, e)
    WANT_IDS = {'put': ('d1',), 'del': ('d1',), 'put_many': ('d1', 'd2', 'd3'), 'del_many': ('d1', 'd2', 'd3')}
    LOCAL = {'put': 'Set', 'put_many': 'MultiSet', 'del': 'Del', 'del_many': 'MultiDel'}
    QUEUED = {'put': 'Put', 'put_many': 'MultiPut', 'del': 'Del', 'del_many': 'MultiDel'}
    for meth in METHODS:
        body = paths[meth]
        site_ = '%s:%s' % (body.file, body.line)
        for label, plan in SCEN + [(l_ + ' [named size limits = 1]', p_) for l_, p_ in SCEN]:
            bad = []
            seen = 0
            for log, res in results[(meth, label)]:
                if res and res[0] == 'panic':
                    bad.append('a path panics (%s)' % res[1])
                    continue
                seen += 1
                events, r, reads = res
                is_ok = r is not None and r[0] == 'adt' and r[1] == 'core::result::Result' and r[2] == 0
                sel = [e for e in events if e[0] == 'select']
                if len(sel) != 1 or not sel[0][1]:
                    bad.append('the replicas are not selected (once) for the consistency level the caller asked for')
                    continue
                local = [e for e in events if e[0] == 'local']
                queued = [e for e in events if e[0] == 'queued']
                remote = [e for e in events if e[0] == 'remote']
                events = [e for e in events if e[0] != 'select']
                if plan['select'] == 'err':
                    if is_ok or local or queued or remote:
                        bad.append('with the selection refused the call returns %s having done %s' % ('Ok' if is_ok else 'Err', events))
                    continue
                if len(local) != 1 or local[0][1] != LOCAL[meth] or local[0][2] != WANT_IDS[meth] or len(local[0][3]) != 1 or local[0][4] != 0:
                    bad.append('the local keyspace actor is sent %s — expected one %s for ids %s with one stamp, under the live-path source 0' % (local, LOCAL[meth], WANT_IDS[meth]))
                    continue
                stamp = local[0][3]
                if plan['local'] == 'err':
                    if is_ok or queued or remote:
                        bad.append('the local write failed but the call returns %s, queued %s, sent %s' % ('Ok' if is_ok else 'Err', queued, remote))
                    continue
                if len(queued) != 1 or queued[0][2] != WANT_IDS[meth] or queued[0][3] != stamp or queued[0][1] != QUEUED[meth]:
                    bad.append('the distributor is handed %s — expected the same operation (ids %s, stamp %s) exactly once' % (queued, WANT_IDS[meth], stamp))
                sel_nodes = NODES if plan['select'] == 'ok' else []
                per_node = {}
                for e in remote:
                    per_node.setdefault(e[1], []).append(e)
                if sorted(k for k in per_node if k is not None) != sorted(sel_nodes) or None in per_node:
                    bad.append('the selected replicas %s are sent %s request(s) to %s — expected every selected replica and nobody else' % (sel_nodes, len(remote), sorted(str(k) for k in per_node)))
                else:
                    # a replica may be sent the operation in one request or split over several (a bulk cut into requests of bounded size): what
                    # it is sent IN TOTAL is the operation — every id once, under the stamp of the local write; a replica that refused a request
                    # need not be sent the rest
                    for nd_, evs_ in sorted(per_node.items()):
                        ids_ = tuple(k for e in evs_ for k in e[3])
                        failed_ = plan['remote'].get(nd_, 'ok') != 'ok'
                        whole_ = ids_ == WANT_IDS[meth] or (failed_ and ids_ == WANT_IDS[meth][:len(ids_)] and ids_)
                        if not whole_ or any(e[4] != stamp for e in evs_):
                            bad.append('replica %s is sent ids %s / stamps %s in %d request(s), expected ids %s with the stamp of the local write %s: the call counts it as '
                                       'acknowledged although it was never sent part of the operation' % (nd_, ids_, sorted({x for e in evs_ for x in e[4]}), len(evs_), WANT_IDS[meth], stamp))
                            break
                want_ok = all(v == 'ok' for v in plan['remote'].values())
                if is_ok != want_ok:
                    bad.append('with replica outcomes %s the call returns %s' % (plan['remote'], 'Ok' if is_ok else 'Err'))
            okk = seen > 0 and not bad
            ctx.ob(rule, '%s|%s' % (meth, label), okk, site_,
                   '%s, %s: written locally, queued and sent as specified; Ok exactly when every selected replica acknowledged' % (meth, label) if okk else
                   '%s, %s: %s' % (meth, label, bad[0] if bad else 'no path'))
    return True
