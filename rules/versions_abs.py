"""Semantic summaries of the version vectors (NodeVersions) by P-ORDER: per (source, origin node) the newest stamp is a
max-register, the purge cut-off of a node is (min over all sources of the newest stamp, a missing source counting as the
zero stamp) minus the forgiveness period, recomputed whenever a stamp may have moved, and the cut-off predicate is strict."""
import absint
from absint import Interp, Order, Cell, MapObj, Unmodelled, explore
from facts import strip_generics, last_seg, ty_head
from orswot_abs import _fallback, _site

CR = 'datacake_crdt'


class VRoles:
    def __init__(self, facts):
        adts = [a for n, a in facts.adts.items() if n.startswith(CR + '::') and n.endswith('::NodeVersions')]
        if len(adts) != 1:
            raise Unmodelled('NodeVersions not found')
        self.adt = adts[0]
        fields = self.adt['variants'][0]['fields']
        self.per_source = [i for i, f in enumerate(fields) if f['ty'].startswith('[') and 'BTreeMap' in f['ty']]
        self.cutoff = [i for i, f in enumerate(fields) if ty_head(f['ty']) == 'alloc::collections::btree::map::BTreeMap']
        if len(self.per_source) != 1 or len(self.cutoff) != 1 or len(fields) != 2:
            raise Unmodelled('NodeVersions: expected one per-source array of maps and one cut-off map')
        self.per_source, self.cutoff = self.per_source[0], self.cutoff[0]

    def methods(self, facts):
        out = [b for b in facts.bodies.values() if b.crate == CR and not b.d['promoted'] and b.kind == 'method' and '::NodeVersions::' in b.name
               and not b.name.startswith('<')]
        # ... and the PROVIDED methods of private traits of the crate that NodeVersions implements (a predicate written once over a
        # required accessor): they are interpreted with the version vectors as `self`, the required method resolving to NodeVersions' impl
        traits = set()
        for im in facts.impls:
            if im.get('trait_def') and 'NodeVersions' in str(im.get('self', '')) and strip_generics(im['trait_def']).startswith(CR + '::'):
                traits.add(strip_generics(im['trait_def']))
        for b in facts.bodies.values():
            if b.crate == CR and not b.d['promoted'] and b.kind in ('method', 'fn') and not b.name.startswith('<') and b.cfg is not None \
                    and b.name.rsplit('::', 1)[0] in traits and b not in out:
                out.append(b)
        return out

    def make(self, stamps, cutoff=None):
        """stamps: list (per source) of {node: sym}"""
        cells = [None, None]
        cells[self.per_source] = Cell(('arr', [Cell(('map', MapObj('btree', {k: Cell(('ts', v)) for k, v in m.items()}))) for m in stamps]))
        cells[self.cutoff] = Cell(('map', MapObj('btree', {k: Cell(('ts', v)) for k, v in (cutoff or {}).items()})))
        return ('adt', strip_generics(self.adt['def']), 0, cells)

    def read(self, v):
        st = [{k: c.v[1] for k, c in m.v[1].items.items()} for m in v[3][self.per_source].v[1]]
        co = {k: c.v[1] for k, c in v[3][self.cutoff].v[1].items.items()}
        return st, co


def ts_algebra(interp, name, args, t, body):
    """HLCTimestamp accessors / constructor on symbolic stamps: node() is the single origin `n`; (time - FORGIVENESS, counter,
    node) of one stamp x is the symbol `x-F`; the stamp built from a zero duration is `zero`"""
    seg = last_seg(name)
    if '::HLCTimestamp::' in name or name.endswith('::HLCTimestamp'):
        a0 = interp.deref_all(args[0]) if args else None
        if seg == 'node' and a0 and a0[0] == 'ts':
            return ('key', 'n')
        if seg == 'counter' and a0 and a0[0] == 'ts':
            return ('ctr', a0[1])
        if seg in ('datacake_timestamp',) and a0 and a0[0] == 'ts':
            return ('dur', a0[1])
        if seg == 'new':
            d, c, n = args
            if d[0] == 'dur0' or (d[0] == 'const' and str(d[1]).endswith('Duration::ZERO')):
                return ('ts', 'zero')
            if d[0] == 'dur-f' and c[0] == 'ctr' and c[1] == d[1]:
                interp.trace.append(('forgiveness', d[2]))
                return ('ts', d[1] + '-F')
            if d[0] == 'dur' and c[0] == 'ctr' and c[1] == d[1]:
                return ('ts', d[1])
            raise Unmodelled('HLCTimestamp::new(%s, %s, ..)' % (d[0], c[0]))
    if name in ('core::time::Duration::from_secs', 'core::time::Duration::from_millis', 'core::time::Duration::from_micros', 'core::time::Duration::from_nanos') \
            and args[0][0] == 'int' and args[0][1] == 0:
        return ('dur0',)
    if name == 'core::time::Duration::new' and len(args) == 2 and all(a[0] == 'int' and a[1] == 0 for a in args):
        return ('dur0',)
    # ---- arithmetic on the PACKED word of a stamp (the word of a stamp is the stamp's order symbol; see absint field rule) ----
    if name == 'core::time::Duration::from_secs' and args[0][0] == 'int' and args[0][1]:
        return ('durc', args[0][1])
    if name == 'core::time::Duration::as_secs' and args:
        a0 = interp.deref_all(args[0])
        if a0 is not None and a0[0] == 'durc':
            return ('int', a0[1])
        if a0 is not None and a0[0] == 'const':
            cb = interp.facts.body(a0[1])
            if cb is not None and len(cb.blocks) <= 12:
                saved = getattr(interp, 'cur', None)
                v = interp.run_body(cb, [], 1)
                if saved is not None:
                    interp.cur = saved
                if v is not None and v[0] == 'durc':
                    interp.__dict__.setdefault('secs_of_const', {})[v[1]] = a0[1]
                    return ('int', v[1])
            raise Unmodelled('seconds of a constant that could not be evaluated')
    if seg in ('saturating_sub', 'wrapping_sub', 'checked_sub') and name.startswith('core::num::') and len(args) == 2:
        a0, a1 = interp.deref_all(args[0]), interp.deref_all(args[1])
        if a0 is not None and a0[0] in ('ts', 'tsword') and a1 is not None and a1[0] == 'int':
            if a1[1] is None:
                raise Unmodelled('an unknown amount subtracted from the packed word of a stamp')
            w = ('tsword', a0[1], (a0[2] if a0[0] == 'tsword' else 0) + a1[1])
            return absint.mk_option(w) if seg == 'checked_sub' else w
    if name in ('core::time::Duration::saturating_sub',) and args[0][0] == 'dur':
        c = args[1]
        if c[0] == 'const':
            return ('dur-f', args[0][1], c[1])
        raise Unmodelled('duration minus a non-constant')
    return None


def word_binop(interp, op, a, b):
    """`word - k`, `word & mask` on the packed word of a stamp"""
    if a is not None and b is not None and a[0] in ('ts', 'tsword') and b[0] == 'int':
        if op in ('Sub', 'SubUnchecked', 'SubWithOverflow') and b[1] is not None:
            w = ('tsword', a[1], (a[2] if a[0] == 'tsword' else 0) + b[1])
            return ('tuple', [Cell(w), Cell(('bool', False))]) if op == 'SubWithOverflow' else w
        if op in ('BitAnd', 'Shr', 'Shl', 'BitOr'):
            return ('opaque', 'bits of a stamp word')
    return None


def stamp_from_word(interp, adt, variant, cells):
    """HLCTimestamp(word): a word that is a stamp's word minus k is judged against the layout the packer (HLCTimestamp::new) really
    uses: k must be (seconds of the forgiveness constant) << (lowest bit of the seconds field)"""
    if not adt.endswith('::HLCTimestamp') or len(cells) != 1 or cells[0].v is None:
        return None
    w = cells[0].v
    if w[0] == 'ts':
        return ('ts', w[1])
    if w[0] != 'tsword':
        return None
    if w[2] == 0:
        return ('ts', w[1])
    import bits_abs
    lay = bits_abs.layout_of(interp.facts)
    if lay is None:
        raise Unmodelled('arithmetic on the packed word, and the layout of the word could not be established')
    sh = lay['seconds']
    k = w[2]
    known = interp.__dict__.get('secs_of_const', {})
    fp = [b for n, b in interp.facts.bodies.items() if n.startswith(CR + '::') and n.endswith('::FORGIVENESS_PERIOD') and not b.d['promoted']]
    fsecs = None
    if len(fp) == 1:
        saved = getattr(interp, 'cur', None)
        try:
            v = interp.run_body(fp[0], [], 1)
            fsecs = v[1] if v is not None and v[0] == 'durc' else None
        except (Unmodelled, absint.PanicPath, absint.NeedChoice):
            fsecs = None
        if saved is not None:
            interp.cur = saved
    if fsecs is None:
        raise Unmodelled('arithmetic on the packed word, and the forgiveness constant could not be evaluated')
    if k == fsecs << sh:
        interp.trace.append(('forgiveness', fp[0].name))
        return ('ts', w[1] + '-F')
    low = k & ((1 << sh) - 1)
    interp.trace.append(('packed-sub', k, sh, k >> sh, low, fsecs))
    return ('ts', '%s-minus-%d-raw-units' % (w[1], k))


def node_as_word(interp, v, ty):
    """`node as u64` standing in for a source that has not observed the node: with the node id in the lowest bits of the word (checked against
    the packer's layout) that IS the word of the zero stamp of the node"""
    if v is not None and v[0] == 'key' and v[1] == 'n' and ty == 'u64':
        import bits_abs
        lay = bits_abs.layout_of(interp.facts)
        if lay is not None and lay.get('node') == 0:
            return ('ts', 'zero')
    return None


def check_forgiveness_value(ctx, facts, rule):
    """the forgiveness period of the analysed (non-test) build is the one hour the properties are stated for: the constant is evaluated by
    interpreting its defining body (the `cfg!(test)` switch is already decided by the compiler in the facts of this build), whatever unit
    or helper constant it is written with.  (Round 8, C01i: seconds written into a milliseconds constant — 3.6 s in every real build, 0
    under cfg(test) as before.)"""
    NS = {'from_secs': 10 ** 9, 'from_millis': 10 ** 6, 'from_micros': 10 ** 3, 'from_nanos': 1}
    fp = [b for n, b in facts.bodies.items() if n.startswith(CR + '::') and n.endswith('::FORGIVENESS_PERIOD') and not b.d['promoted']]
    if len(fp) != 1:
        ctx.notes.append('%s: FORGIVENESS_PERIOD not found as one constant: its value is not decided' % rule)
        return

    def hook(interp, name, args, t, body):
        seg = last_seg(name)
        if name.startswith('core::time::Duration::') and seg in NS and args and args[0][0] == 'int' and args[0][1] is not None:
            return ('durns', args[0][1] * NS[seg])
        if name == 'core::time::Duration::new' and len(args) == 2 and all(a[0] == 'int' and a[1] is not None for a in args):
            return ('durns', args[0][1] * 10 ** 9 + args[1][1])
        if name in ('core::time::Duration::from_secs_f64', 'core::time::Duration::from_secs_f32'):
            raise Unmodelled('a float duration')
        if args and seg in ('saturating_mul', 'mul', 'checked_mul') and args[0][0] == 'durns' and len(args) == 2 and args[1][0] == 'int' and args[1][1] is not None:
            return ('durns', args[0][1] * args[1][1])
        return None
    try:
        it = Interp(facts, Order({}), opaque_call=hook)
        v = it.run_body(fp[0], [])
        v = it.deref_all(v)
    except (Unmodelled, absint.PanicPath, absint.NeedChoice, IndexError, TypeError, KeyError) as e:
        ctx.notes.append('%s: FORGIVENESS_PERIOD could not be evaluated (%s): its value is not decided' % (rule, e))
        return
    if v is None or v[0] != 'durns':
        ctx.notes.append('%s: FORGIVENESS_PERIOD does not evaluate to a duration the rule reads: not decided' % rule)
        return
    good = v[1] == 3600 * 10 ** 9
    ctx.ob(rule, 'forgiveness-period|one hour in the non-test build', good, '%s:%s' % (fp[0].file, fp[0].line),
           'FORGIVENESS_PERIOD evaluates to 3600 s in the analysed (non-test) build' if good else
           'FORGIVENESS_PERIOD evaluates to %.3f s in the analysed (non-test) build, the properties are stated for the one-hour window: operations that arrive later than '
           'that (but within the hour) are refused as already observed, tombstones are purged while older operations are still on their way' % (v[1] / 1e9))


def mk_interp(facts, ranks):
    it = Interp(facts, rank_order(ranks), opaque_call=ts_algebra)
    it.ext_binop = word_binop
    it.adt_hook = stamp_from_word
    it.ext_cast = node_as_word
    return it


def rank_order(ranks):
    rel = {}
    names = list(ranks)
    for a in names:
        for b in names:
            if a != b:
                rel[(a, b)] = '<' if ranks[a] < ranks[b] else ('=' if ranks[a] == ranks[b] else '>')
    o = Order({})
    o.rel = rel
    return o


def expected_cutoff(stamps):
    """(min over sources of stamp-or-zero) - F for node n, by rank"""
    return None


def check_versions(ctx, facts, rule):
    try:
        roles = VRoles(facts)
        ms = roles.methods(facts)
        # by signature: (&mut self, usize, ts) -> bool = stamp update; (&self, ts) -> bool = cut-off predicate; (&mut self, Self) = merge
        def verdict(ty):
            # bool, or a private field-less two-variant enum (Fresh / Stale)
            if ty == 'bool':
                return True
            a_ = facts.adts.get(strip_generics(ty))
            return bool(a_ is not None and a_['kind'] == 'enum' and a_['def'].startswith(CR) and len(a_['variants']) == 2 and all(not v_['fields'] for v_ in a_['variants']))
        upd = [b for b in ms if b.argc == 3 and verdict(b.local_ty(0)) and b.local_ty(1).startswith('&mut') and b.local_ty(2) == 'usize']
        pred = [b for b in ms if b.argc == 2 and b.local_ty(0) == 'bool' and b.local_ty(1).startswith('&') and not b.local_ty(1).startswith('&mut') and b.local_ty(2).endswith('HLCTimestamp')]
        mrg = [b for b in ms if b.argc == 2 and b.local_ty(1).startswith('&mut') and 'NodeVersions' in b.local_ty(2) and not b.local_ty(2).startswith('&mut')]      # (the peer's vectors by value or by shared reference)
        if len(upd) != 1 or len(pred) != 1 or len(mrg) != 1:
            raise Unmodelled('stamp update / cut-off predicate / merge of NodeVersions not identified by signature (%d/%d/%d)' % (len(upd), len(pred), len(mrg)))
        upd, pred, mrg = upd[0], pred[0], mrg[0]
        results = {'upd': [], 'pred': [], 'mrg': []}
        consts = set()
        packed = set()
        # ---- stamp update: source 0, origin n ------------------------------------------------------------------------
        for a_rel in (None, '<', '=', '>'):
            for b_kind in ('absent', 'low', 'high'):
              for c_kind in ('below', 'above'):
                # (the cut-off recorded before the update: below everything, or above the incoming stamp — an operation that reaches a
                #  lagging source late; the update must not depend on it)
                ranks = {'zero': 0, 'in': 5}
                if a_rel:
                    ranks['a'] = {'<': 4, '=': 5, '>': 6}[a_rel]
                if b_kind != 'absent':
                    ranks['b'] = 1 if b_kind == 'low' else 9
                ranks.update({k + '-F': -1 for k in list(ranks)})
                ranks['old-cutoff'] = -0.5 if c_kind == 'below' else 5.5
                it = mk_interp(facts, ranks)
                v = roles.make([{'n': 'a'} if a_rel else {}, {'n': 'b'} if b_kind != 'absent' else {}], cutoff={'n': 'old-cutoff'})
                r = it.run_body(upd, [('ref', Cell(v)), ('int', 0), ('ts', 'in')])
                st, co = roles.read(v)
                consts |= {x[1] for x in it.trace if isinstance(x, tuple) and x[0] == 'forgiveness'}
                packed |= {x for x in it.trace if isinstance(x, tuple) and x[0] == 'packed-sub'}
                rr_ = it.deref_all(r)
                results['upd'].append(((a_rel, b_kind, c_kind), ranks, (rr_[1] if rr_[0] == 'bool' else ('variant', rr_[2])), st, co))
        # ---- predicate ------------------------------------------------------------------------------------------------
        for c_rel in (None, '<', '=', '>'):
            ranks = {'in': 5}
            if c_rel:
                ranks['c'] = {'<': 4, '=': 5, '>': 6}[c_rel]
            it = mk_interp(facts, ranks)
            v = roles.make([{}, {}], cutoff={'n': 'c'} if c_rel else {})
            r = it.run_body(pred, [('ref', Cell(v)), ('ts', 'in')])
            results['pred'].append((c_rel, r[1]))
        # ---- merge ----------------------------------------------------------------------------------------------------
        for s_kind in (None, 'a'):
            for o_kind in (None, 'o'):
                for rel in ('<', '=', '>') if (s_kind and o_kind) else (None,):
                    ranks = {'zero': 0}
                    if s_kind:
                        ranks['a'] = 5
                    if o_kind:
                        ranks['o'] = {'<': 6, '=': 5, '>': 4, None: 5}[rel]
                    ranks.update({k + '-F': -1 for k in list(ranks)})
                    it = mk_interp(facts, ranks)
                    v = roles.make([{'n': 'a'} if s_kind else {}, {}], cutoff={})
                    o = roles.make([{'n': 'o'} if o_kind else {}, {}], cutoff={})
                    it.run_body(mrg, [('ref', Cell(v)), ('ref', Cell(o)) if mrg.local_ty(2).startswith('&') else o])
                    st, co = roles.read(v)
                    consts |= {x[1] for x in it.trace if isinstance(x, tuple) and x[0] == 'forgiveness'}
                    packed |= {x for x in it.trace if isinstance(x, tuple) and x[0] == 'packed-sub'}
                    results['mrg'].append(((s_kind, o_kind, rel), ranks, st, co))
    except (Unmodelled, absint.PanicPath, absint.NeedChoice, IndexError, TypeError, KeyError) as e:
        return _fallback(ctx, rule, e)

    def mn(ranks, syms):
        syms = [s for s in syms]
        best = syms[0]
        for s in syms[1:]:
            if ranks[s] < ranks[best]:
                best = s
        return best

    def same(ranks, x, y):
        if x == y:
            return True
        if x.endswith('-F') or y.endswith('-F'):
            return x.endswith('-F') and y.endswith('-F') and same(ranks, x[:-2], y[:-2])
        return x in ranks and y in ranks and ranks[x] == ranks[y]
    # stamp update
    # a verdict enum: the variant answered when the source has no stamp yet (always accepted) is "accepted"
    acc_ = {ret for (a_rel, _b, _c), _r, ret, _s, _co in results['upd'] if a_rel is None and isinstance(ret, tuple)}
    for (a_rel, b_kind, c_kind), ranks, ret, st, co in results['upd']:
        if isinstance(ret, tuple):
            ret = (ret in acc_) if len(acc_) == 1 else None
        want_ret = a_rel != '>'
        want0 = 'a' if a_rel == '>' else 'in'
        got0 = st[0].get('n')
        ok1 = ret == want_ret and got0 is not None and same(ranks, got0, want0)
        lab = 'newest stamp of the source %s, other source %s' % ({None: 'absent', '<': 'older than incoming', '=': 'equal to incoming', '>': 'newer than incoming'}[a_rel],
                                                                  {'absent': 'has none', 'low': 'holds an older stamp', 'high': 'holds a newer stamp'}[b_kind]) + \
              ('' if c_kind == 'below' else ', recorded cut-off above the incoming stamp')
        ctx.ob(rule, 'stamp-update|%s|register' % lab, ok1, _site(upd),
               'the per-source stamp is a max-register and the update is refused exactly when the incoming stamp is older' if ok1 else
               'stamp update with %s: expected stamp %s and result %s, the code leaves %s and returns %s (a per-source stamp that can move backwards '
               'lets an already observed operation through again)' % (lab, want0, want_ret, got0, ret))
        m = mn(ranks, [want0, 'b' if b_kind != 'absent' else 'zero'])
        gotc = co.get('n')
        ok2 = gotc is not None and same(ranks, gotc, m + '-F')
        ctx.ob(rule, 'stamp-update|%s|cutoff' % lab, ok2, _site(upd),
               'the purge cut-off is recomputed as (min over all sources, a missing source counting as zero) - forgiveness' if ok2 else
               'after a stamp update with %s the purge cut-off of the origin must be (%s) minus the forgiveness period, the code leaves %s' % (lab, m, gotc))
    # predicate
    for c_rel, r in results['pred']:
        want = c_rel == '>'
        ctx.ob(rule, 'cutoff-predicate|%s' % {None: 'no cut-off', '<': 'cut-off older than stamp', '=': 'cut-off equal to stamp', '>': 'cut-off newer than stamp'}[c_rel], r == want, _site(pred),
               'the cut-off predicate is strict (stamp < cut-off) and false without a cut-off' if r == want else
               'the cut-off predicate answers %s when %s (must be %s: an operation exactly at the cut-off is the newest one observed and must be kept)' % (
                   r, {None: 'no cut-off is recorded', '<': 'the cut-off is older than the stamp', '=': 'the cut-off equals the stamp', '>': 'the cut-off is newer than the stamp'}[c_rel], want))
    # merge
    for (s_kind, o_kind, rel), ranks, st, co in results['mrg']:
        cands = [x for x in ('a' if s_kind else None, 'o' if o_kind else None) if x]
        lab = 'ours %s, peer\'s %s%s' % ('present' if s_kind else 'absent', 'present' if o_kind else 'absent', (', peer\'s %s' % {'<': 'newer', '=': 'equal', '>': 'older'}[rel]) if rel else '')
        if not cands:
            ok = not st[0].get('n')
            ctx.ob(rule, 'versions-merge|%s' % lab, ok, _site(mrg), 'nothing to merge')
            continue
        want = cands[0]
        for c in cands[1:]:
            if ranks[c] > ranks[want]:
                want = c
        got = st[0].get('n')
        ok1 = got is not None and same(ranks, got, want)
        gotc = co.get('n')
        ok2 = (gotc is not None and same(ranks, gotc, 'zero-F')) if o_kind else True     # source 1 is absent: min is the zero stamp
        ctx.ob(rule, 'versions-merge|%s' % lab, ok1 and ok2, _site(mrg),
               'merging version vectors keeps the newer stamp per (source, origin) and recomputes the origin\'s purge cut-off' if ok1 and ok2 else
               ('merging version vectors with %s must keep stamp %s, the code keeps %s' % (lab, want, got) if not ok1 else
                'merging version vectors with %s leaves the purge cut-off %s (expected the recomputed minimum over all sources minus forgiveness): a replica that learns a '
                'stamp by merging gets a different cut-off than one that learns it from an operation' % (lab, gotc)))
    for _t, k, sh, secs, low, fsecs in sorted(packed):
        ctx.ob(rule, 'cutoff|packed-arithmetic', False, _site(upd),
               'the purge cut-off is computed on the packed word by subtracting %d: the seconds field of the word starts at bit %d (the layout HLCTimestamp::new '
               'packs), so this moves the stamp back by %d s%s, not by the forgiveness period of %d s — replicas forgive a different window than the one '
               'operations may arrive late in, and merging drops / resurrects entries' % (k, sh, secs, (' and borrows %d from the lower fields' % low) if low else '', fsecs))
    ctx.ob(rule, 'cutoff|forgiveness-constant', len(consts) == 1 and all('FORGIVENESS' in c.upper() for c in consts), _site(upd),
           'the cut-off subtracts the forgiveness constant %s' % sorted(consts) if consts else 'the cut-off does not subtract the forgiveness period')
    return True
