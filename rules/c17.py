"""C17 — every bundled backend behaves like the reference key-value model.  DESIGN §5 C17."""
from analysis import *  # noqa
from facts import strip_generics, op_local, op_const, const_int, last_seg, ty_head, split_top
from engine import site
import c02

CONFIGS = ['prod', 'testutils']
EXPLANATION = (
    'B11: on the transactional backends one Storage call is one transaction: the LMDB task submissions that open a write transaction and the SQLite execute_many are not inside a loop of the calling method. '
    'B10: the text form of the timestamp the SQLite backend stores and reads back — writer / reader agreement (arity, order, radix, accepted ranges) and purity (no clock read reachable from the parser) — C10.E3 / E8 re-evaluated. '
    'ST: the provided put_with_ctx / multi_put_with_ctx of the Storage trait, which all three bundled backends inherit, call the backend\'s own put / multi_put once with the caller\'s keyspace and documents and return its result unchanged. '
    'MSEM: every Storage method of the in-memory backend interpreted per (keyspace, key) abstract pre-state against the reference key-value model. '
    'Decided clauses: B1 SQLite statement/parameter agreement — every StorageHandle call binds a tuple whose arity equals the number of `?` '
    'in the statement it names, and all call sites of one statement bind the same tuple type; B2 the in-memory backend creates the keyspace '
    'on every write (an Entry taken from the metadata map always ends in or_insert*/or_default); B3 reads are pure — no persistent write '
    '(LMDB write_txn / create_database / put / delete, SQL INSERT/UPDATE/DELETE/CREATE, MemStore write lock) is reachable from get / '
    'multi_get / iter_metadata / get_keyspace_list of a backend; B4 LMDB: every document write is paired with its metadata write in the '
    'same transaction and commit lies on every path from a write to Ok; B5 SQLite execute_many runs all executions inside one transaction '
    'committed before Ok; B7 the keyspace list is read from the persistent registry the writers register keyspaces in (LMDB registry table; '
    'SQLite: all statements address the one created table); '
    'B8 no SQL statement compares or orders by the TEXT timestamp column (its text form is not order-preserving) and write statements are '
    'unconditional; B9 every SQLite read statement returns every row matching its key: no LIMIT / OFFSET outside a paging loop and no range '
    'predicate on doc_id whose bound starts at a compile-time constant inside the i64 range (ids are stored as the i64 reinterpretation of '
    'the u64, so ids >= 2^63 are negative rows). NOT decided: agreement of results with a reference model for arbitrary call sequences; byte fidelity; reopen.')
ASSUMPTIONS = ['rusqlite / heed / LMDB behave as documented', 'the storage worker thread executes one task at a time']

SQ = 'datacake_sqlite::'
SQL_CALLS = {SQ + 'db::StorageHandle::' + m for m in ('execute', 'execute_many', 'fetch_one', 'fetch_many', 'fetch_all')}
READS = ('get', 'multi_get', 'iter_metadata', 'get_keyspace_list')
STORAGE_TRAIT = 'datacake_eventual_consistency::storage::Storage'


def static_string(facts, path):
    b = facts.body(path)
    if b is None:
        return None
    for _b, _j, s in b.assigns():
        for o in rv_operands(s['rv']):
            c = op_const(o)
            if c and 'str' in c:
                return c['str']
    return None


def sql_of(facts, body, flow, local, op=None):
    """(name, text) of the statement an operand denotes: a `static`, a named `const` or a literal — directly or through locals"""
    def of_const(c, cs):
        if c and 'static' in c:
            return strip_generics(c['static']), static_string(facts, strip_generics(c['static']))
        if c and 'str' in c:
            return (strip_generics(c['uneval']) if c.get('uneval') else 'literal@%s' % cs), c['str']
        if c and c.get('uneval') and c.get('ty') == '&str':
            # a named `const` statement: the literal its defining body holds
            txt = static_string(facts, strip_generics(c['uneval']))
            if txt is not None:
                return strip_generics(c['uneval']), txt
        return None
    if op is not None:
        r = of_const(op_const(op), body.line)
        if r:
            return r
    if local is None:
        return None, None
    back = flow.backward([local])
    for _b, _j, s in body.assigns():
        if s['lhs']['l'] in back:
            for o in rv_operands(s['rv']):
                r = of_const(op_const(o), s['cs'])
                if r:
                    return r
    return None, None


def check_B1(ctx, facts):
    by_stmt = {}
    n = 0
    for body in facts.bodies.values():
        if body.crate != 'datacake_sqlite' or body.d['promoted']:
            continue
        flow = None
        for b, t in body.calls():
            if cname(t) not in SQL_CALLS:
                continue
            flow = flow or Flow(body)
            n += 1
            name, text = sql_of(facts, body, flow, op_local(t['args'][1]), t['args'][1])
            tup = [g for g in (t.get('gargs') or []) if g.startswith('(')]
            where = body.name.replace(SQ, '').replace('::{closure#0}', '')
            key = '%s|%s' % (where, last_seg(cname(t)))
            if name is None or text is None or not tup:
                ctx.bad('C17.B1', key + '|resolve', site(body, t['cs']), 'SQL text or parameter tuple type could not be resolved (fail closed)')
                continue
            arity = len(split_top(tup[0][1:-1])) if tup[0] != '()' else 0
            q = text.count('?')
            ctx.ob('C17.B1', key + '|arity', q == arity, site(body, t['cs']),
                   '%s has %d placeholder(s), %d parameter(s) of type %s are bound' % (last_seg(name), q, arity, tup[0]))
            by_stmt.setdefault(name, []).append((tup[0], where, body, t))
    ctx.floor('C17.B1', 'SQLite statement executions', n, 9)
    for name, uses in sorted(by_stmt.items()):
        types = sorted({u[0] for u in uses})
        if len(uses) < 2:
            continue
        if len(types) == 1:
            ctx.ok('C17.B1', '%s|same-binding' % last_seg(name), '', 'all %d call sites of %s bind %s' % (len(uses), last_seg(name), types[0]))
        else:
            b, t = uses[-1][2], uses[-1][3]
            ctx.bad('C17.B1', '%s|same-binding' % last_seg(name), site(b, t['cs']),
                    'statement %s is bound with different parameter types at different call sites: %s. A u64 id is refused by rusqlite above '
                    'i64::MAX while the i64 cast is accepted, so the sibling call serves ids the other one fails on'
                    % (last_seg(name), ', '.join('%s in %s' % (u[0], u[1]) for u in uses)))


def storage_impl_bodies(facts, self_pat, crate):
    out = {}
    for b in facts.bodies.values():
        if b.crate == crate and b.kind == 'coroutine' and not b.d['promoted'] and b.impl and STORAGE_TRAIT in b.impl and self_pat in b.impl \
                and b.name.endswith('::{closure#0}') and b.parent and not b.parent.endswith('}'):
            out[last_seg(b.name[:-len('::{closure#0}')])] = b
    return out


def check_B2(ctx, facts):
    impls = storage_impl_bodies(facts, 'MemStore', 'datacake_eventual_consistency')
    if len(impls) < 8:
        ctx.bad('C17.B2', 'MemStore|impl', '', 'MemStore Storage impl not found in the test-utils configuration (fail closed)')
        return
    adt = facts.adts.get('datacake_eventual_consistency::test_utils::MemStore')
    fnames = [f['name'] for f in adt['variants'][0]['fields']]

    def lock_field(body, flow, t):
        back = flow.backward([op_local(t['args'][0])])
        for _b, _j, s in body.assigns():
            if s['lhs']['l'] in back and s['rv']['k'] == 'ref':
                pl = s['rv']['pl']
                fs = [e['f'] for e in pl['p'] if isinstance(e, dict) and 'f' in e]
                if fs and 'MemStore' in body.local_ty(pl['l']):
                    return fnames[fs[0]]
        return None
    # which field is the metadata map: the one get_keyspace_list reads
    kl = impls.get('get_keyspace_list')
    meta = None
    if kl:
        f = Flow(kl)
        for b, t in kl.calls():
            if cname(t) == 'lock_api::rwlock::RwLock::read':
                meta = lock_field(kl, f, t)
    if meta is None:
        ctx.bad('C17.B2', 'MemStore|metadata-field', '', 'cannot identify the metadata map (the field get_keyspace_list reads)')
        return
    n = 0
    for mname in ('multi_put', 'mark_many_as_tombstone', 'put', 'mark_as_tombstone'):
        body = impls.get(mname)
        if body is None:
            continue
        flow = Flow(body)
        calls = list(body.calls())
        for b, t in calls:
            if cname(t) != 'lock_api::rwlock::RwLock::write' or lock_field(body, flow, t) != meta:
                continue
            fw = flow.forward([t['dest']['l']], stop=[0])
            ents = [(bb, tt) for bb, tt in calls if cname(tt) == 'std::collections::hash::map::HashMap::entry' and op_local(tt['args'][0]) in fw]
            ins = [(bb, tt) for bb, tt in calls if cname(tt) == 'std::collections::hash::map::HashMap::insert' and op_local(tt['args'][0]) in fw]
            for eb, et in ents:
                n += 1
                efw = flow.forward([et['dest']['l']], stop=[0])
                fin = [cname(tt) for bb, tt in calls if cname(tt) and re.search(r'hash::map::Entry::(or_insert|or_insert_with|or_default|or_insert_with_key)$', cname(tt)) and op_local(tt['args'][0]) in efw]
                ctx.ob('C17.B2', 'MemStore::%s|metadata-entry' % mname, bool(fin), site(body, et['cs']),
                       'the metadata Entry for the keyspace ends in %s: the keyspace is created if absent' % last_seg(fin[0]) if fin else
                       'the metadata Entry is only and_modify\'d and then dropped: writing to a keyspace with no entry yet is silently lost '
                       '(the Storage contract and both other backends create the keyspace)')
            if ins and not ents:
                n += 1
                ctx.ok('C17.B2', 'MemStore::%s|metadata-insert' % mname, site(body, ins[0][1]['cs']), 'metadata map entry inserted directly')
    ctx.floor('C17.B2', 'MemStore metadata-map write sites', n, 2)


LMDB_WRITES = re.compile(r'^heed::(env::Env::(write_txn|create_database)|db(ase)?::(polymorph::|uniform::)?(Poly)?Database::(put|delete|clear|append|delete_range)|databases::database::Database::(put|delete|clear|append|delete_range))$')


def persistent_write(facts, body, t):
    n = cname(t)
    if n is None:
        return None
    if n.startswith('heed::') and (last_seg(n) in ('write_txn', 'create_database') or
                                   (last_seg(n) in ('put', 'delete', 'clear', 'append') and 'Database' in n)):
        return 'LMDB ' + last_seg(n)
    if n == 'lock_api::rwlock::RwLock::write' and body.crate == 'datacake_eventual_consistency' and 'test_utils' in body.name:
        return 'MemStore write lock'
    return None


def check_B3(ctx, facts_prod, facts_tu):
    for backend, facts, pat, crate in (('sqlite', facts_prod, 'SqliteStorage', 'datacake_sqlite'),
                                       ('lmdb', facts_prod, 'LmdbStorage', 'datacake_lmdb'),
                                       ('memstore', facts_tu, 'MemStore', 'datacake_eventual_consistency')):
        impls = storage_impl_bodies(facts, pat, crate)
        cg = CallGraph(facts)
        found = {}
        nreads = 0
        for r in READS:
            body = impls.get(r)
            if body is None:
                ctx.bad('C17.B3', '%s|%s|anchor' % (backend, r), '', '%s::%s not found (fail closed)' % (pat, r))
                continue
            nreads += 1
            for rb in cg.reach([body], bound=8):
                if not rb.crate.startswith('datacake'):
                    continue
                fl = None
                for b, t in rb.calls():
                    w = persistent_write(facts, rb, t)
                    if w:
                        found.setdefault((rb.name, w.split(' ')[0]), []).append((r, w, rb, t))
                    if backend == 'sqlite' and cname(t) in SQL_CALLS and rb is body:
                        fl = fl or Flow(rb)
                        name, text = sql_of(facts, rb, fl, op_local(t['args'][1]), t['args'][1])
                        if text and re.match(r'\s*(INSERT|UPDATE|DELETE|CREATE|DROP|REPLACE)\b', text, re.I):
                            found.setdefault((rb.name, 'SQL'), []).append((r, 'SQL ' + text.split()[0], rb, t))
        if not found:
            ctx.ok('C17.B3', '%s|reads-pure' % backend, '', 'no persistent write reachable from the %d read methods of %s' % (nreads, pat))
        emitted = set()
        for (sink, kind), hits in sorted(found.items()):
            reads = sorted({h[0] for h in hits})
            what = sorted({h[1] for h in hits})
            rb, t = hits[0][2], hits[0][3]
            # the violation is identified by WHAT a read does to persistent state — creating the keyspace's databases — not by the
            # name of the function that happens to contain the call (a behaviour-preserving move keeps the violation)
            ident = 'keyspace-creation' if any('create_database' in w for w in what) else strip_generics(sink).replace('datacake_', '')
            if ident in emitted:
                continue
            emitted.add(ident)
            ctx.bad('C17.B3', '%s|reads-reach-write|%s' % (backend, ident), site(rb, t['cs']),
                    'read method(s) %s of %s reach %s in %s: a read changes persistent state (what get_keyspace_list returns next)' % (reads, pat, what, last_seg(sink)))


def check_B4(ctx, facts):
    n = 0
    for body in facts.bodies.values():
        if body.crate != 'datacake_lmdb' or body.d['promoted'] or body.kind not in ('closure', 'fn'):
            continue
        calls = list(body.calls())
        wt = [(b, t) for b, t in calls if cname(t) and cname(t).startswith('heed::') and last_seg(cname(t)) == 'write_txn']
        if not wt:
            continue
        n += 1
        name = body.name.replace('datacake_lmdb::db::', '')
        commits = [b for b, t in calls if cname(t) and cname(t).startswith('heed::') and last_seg(cname(t)) == 'commit']
        writes = [(b, t) for b, t in calls if cname(t) and cname(t).startswith('heed::') and last_seg(cname(t)) in ('put', 'delete') and 'atabase' in cname(t)]
        writes += [(b, t) for b, t in calls if cname(t) and cname(t).startswith('heed::') and last_seg(cname(t)) == 'create_database']
        oks = ok_return_blocks(body)
        good = bool(commits) and all(body.must_pass([b], commits, oks) for b, t in writes) and body.must_pass([wt[0][0]], commits, oks)
        ctx.ob('C17.B4', '%s|commit' % name, good, site(body, wt[0][1]['cs']),
               'commit lies on every path from the write transaction to Ok' if good else 'a path returns Ok without committing the write transaction: the write is lost')
        # pairing: kv write (param 3) => meta.put (param 4) before commit
        if body.kind == 'closure' and body.argc >= 4:
            flow = Flow(body)

            def db_of(t):
                roots = referent_roots(body, op_local(t['args'][0]))
                back = flow.backward([op_local(t['args'][0])])
                if 3 in back:
                    return 'kv'
                if 4 in back:
                    return 'meta'
                return None
            kvw = [(b, t) for b, t in writes if db_of(t) == 'kv']
            metaw = [b for b, t in writes if db_of(t) == 'meta' and last_seg(cname(t)) == 'put']
            if kvw:
                # (path-sensitive over re-wrapped Results: a failed document write inside an extracted helper does not reach the commit)
                blocked = [(p, m) for m in metaw for p in body.pred(m)]
                good = bool(metaw) and all(not (set(commits) & (refined_reach(body, body.succ(b), blocked_edges=blocked))) for b, t in kvw)
                ctx.ob('C17.B4', '%s|pairing' % name, good, site(body, kvw[0][1]['cs']),
                       'every document write is followed by its metadata write before commit' if good else
                       'a document write can be committed without its metadata write: get() then panics on the missing stamp / the restart rebuild misses the document')
    ctx.floor('C17.B4', 'LMDB write transactions', n, 6)


def check_B5(ctx, facts):
    em = [b for b in facts.bodies.values() if b.crate == 'datacake_sqlite' and b.kind == 'closure' and 'StorageHandle::execute_many' in b.name]
    if not em:
        ctx.bad('C17.B5', 'execute_many', '', 'execute_many task closure not found (fail closed)')
    # the task closure itself (closures nested in it — e.g. the body of a fold over the parameter sets — belong to it)
    outer = [b for b in em if not any(o is not b and b.name.startswith(o.name + '::{') for o in em)]
    for body in outer:
        calls = list(body.calls())
        tx = [b for b, t in calls if cname(t) and cname(t).startswith('rusqlite::') and last_seg(cname(t)) in ('transaction', 'unchecked_transaction', 'transaction_with_behavior')]
        ex = [b for b, t in calls if cname(t) and cname(t).endswith('Statement::execute')]
        nested = [g for g in facts.group(body) if g is not body and any(cname(t) and cname(t).endswith('Statement::execute') for _b, t in g.calls())]
        for g in nested:
            # the closure that executes the statement is created inside the transaction
            ex += [b for b, s_, cdef, _ops in closure_aggregates(body) if cdef == g.defp]
        cm = [b for b, t in calls if cname(t) and cname(t).endswith('Transaction::commit')]
        oks = ok_return_blocks(body)
        good = len(tx) == 1 and ex and cm and all(body.dominates(tx[0], b) for b in ex) and body.must_pass([tx[0]], cm, oks)
        ctx.ob('C17.B5', 'execute_many|one-transaction', bool(good), site(body),
               'all executions run inside one transaction that is committed before Ok' if good else 'bulk execution is not wrapped in one committed transaction')


def check_B7(ctx, facts):
    """persistent keyspace registry: the reader of the keyspace list reads the very table the writer registers keyspaces in"""
    cg = CallGraph(facts)
    # ---- LMDB: the registry database type is the one try_create_dbs (any body that creates databases) puts the keyspace name into
    reg_types = set()
    for b in facts.bodies.values():
        if b.crate != 'datacake_lmdb' or b.d['promoted']:
            continue
        if any(cname(t) and cname(t).startswith('heed::') and last_seg(cname(t)) == 'create_database' for _b, t in b.calls()):
            for _b, t in b.calls():
                if cname(t) and cname(t).startswith('heed::') and last_seg(cname(t)) == 'put' and 'atabase' in cname(t):
                    ty = b.local_ty(op_local(t['args'][0]))
                    if 'Str' in ty:
                        reg_types.add(ty.replace('&', '').strip())
    impls = storage_impl_bodies(facts, 'LmdbStorage', 'datacake_lmdb')
    kl = impls.get('get_keyspace_list')
    if kl is None or not reg_types:
        ctx.bad('C17.B7', 'lmdb|anchors', '', 'LMDB keyspace registry writer / get_keyspace_list not found (fail closed)')
    else:
        reads = []
        # (the list request may travel to a worker thread as a message: channel edges count for this may-reach question)
        for rb in cg.reach([kl], bound=8, channels=True):
            if rb.crate != 'datacake_lmdb':
                continue
            for _b, t in rb.calls():
                n = cname(t)
                if n and n.startswith('heed::') and last_seg(n) in ('iter', 'range', 'get', 'first', 'last', 'prefix_iter', 'rev_iter') and 'atabase' in n:
                    ty = rb.local_ty(op_local(t['args'][0])).replace('&', '').strip()
                    if ty in reg_types:
                        reads.append((rb, t))
        ctx.ob('C17.B7', 'lmdb|list-reads-registry-table', bool(reads), site(reads[0][0], reads[0][1]['cs']) if reads else site(kl),
               'get_keyspace_list reads the persistent registry table keyspaces are registered in' if reads else
               'get_keyspace_list does not read the persistent keyspace registry (it answers from process-local state): after closing and '
               'reopening the database the keyspaces on disk are not listed, so a restarted node rebuilds nothing')
    # ---- LMDB: the registry only grows: keyspace handles are cached per process and a keyspace is registered only when its handles
    #      are created, so a name deleted from the registry is never registered again while later writes still reach its databases
    if reg_types:
        shrinks = []
        for b in facts.bodies.values():
            if b.crate != 'datacake_lmdb' or b.d['promoted']:
                continue
            for _b, t in b.calls():
                n = cname(t)
                if n and n.startswith('heed::') and last_seg(n) in ('delete', 'clear', 'delete_range', 'del_current') and 'atabase' in n and t['args'] \
                        and op_local(t['args'][0]) is not None and b.local_ty(op_local(t['args'][0])).replace('&', '').strip() in reg_types:
                    shrinks.append((b, t))
        ctx.ob('C17.B7', 'lmdb|registry-never-shrinks', not shrinks, site(shrinks[0][0], shrinks[0][1]['cs']) if shrinks else '',
               'no code path deletes a name from the persistent keyspace registry' if not shrinks else
               'a keyspace name is deleted from the persistent registry: its database handles stay cached in the process and a keyspace is only registered '
               'when its handles are created, so later acknowledged writes to it are stored but the keyspace is no longer listed — a restarted node rebuilds nothing for it')
    # ---- SQLite: one table
    tables_ = {}
    create = None
    for b in facts.bodies.values():
        if b.crate != 'datacake_sqlite' or b.d['promoted']:
            continue
        for _b, _j, s in b.assigns():
            for o in rv_operands(s['rv']):
                c = op_const(o)
                if c and 'str' in c:
                    txt = c['str']
                    m = re.search(r'\b(?:FROM|INTO|TABLE(?:\s+IF\s+NOT\s+EXISTS)?|UPDATE)\s+([A-Za-z_][A-Za-z0-9_]*)', txt, re.I)
                    if m and re.match(r'\s*(SELECT|INSERT|DELETE|UPDATE|CREATE)', txt, re.I):
                        tables_.setdefault(m.group(1), []).append(b.name.replace('datacake_sqlite::', ''))
                        if re.match(r'\s*CREATE', txt, re.I):
                            create = m.group(1)
    good = len(tables_) == 1 and create in tables_
    ctx.ob('C17.B7', 'sqlite|one-table', good, '',
           'every SQLite statement (%d) addresses the table that setup creates (%s)' % (sum(len(v) for v in tables_.values()), create) if good else
           'SQLite statements address different tables: %s (created: %s)' % ({k: len(v) for k, v in tables_.items()}, create))


def check_B8(ctx, facts, rule='C17.B8', only_compare=False):
    """the timestamp is stored as TEXT in a form that is not order-preserving (seconds are not zero-padded), so SQL must
    never compare or order by it, and a write statement must be unconditional (storage reports Ok = the row was written)"""
    n = 0
    for b in facts.bodies.values():
        if b.crate != 'datacake_sqlite' or b.d['promoted'] or b.kind not in ('static', 'const'):      # (a statement may be a `static` or a named `const`)
            continue
        for _b, _j, s in b.assigns():
            for o in rv_operands(s['rv']):
                c = op_const(o)
                if not c or 'str' not in c:
                    continue
                txt = ' '.join(c['str'].split())
                if not re.match(r'(SELECT|INSERT|DELETE|UPDATE)', txt, re.I):
                    continue
                n += 1
                name = last_seg(b.name)
                cmp_ts = re.search(r'(\b|\.)ts\s*(<=|>=|<|>)|(<=|>=|<|>)\s*([A-Za-z_]+\.)?ts\b|ORDER\s+BY\s+([A-Za-z_]+\.)?ts\b|(MAX|MIN)\s*\(\s*([A-Za-z_]+\.)?ts\s*\)', txt, re.I)
                cond_write = re.match(r'(INSERT|UPDATE)', txt, re.I) and re.search(r'DO\s+UPDATE\s+SET\b.*\bWHERE\b', txt, re.I)
                if only_compare:
                    # (C10: comparing timestamps must agree with (time, counter, node) — wherever they are compared, SQL included)
                    ctx.ob(rule, 'sql|%s' % name, not cmp_ts, site(b),
                           '%s does not compare / order the text form of a timestamp' % name if not cmp_ts else
                           '%s compares / orders by the TEXT column `ts`: the text form is not order-preserving (the seconds field is not zero-padded: "99999999-.." sorts after '
                           '"117000000-.."), so this comparison of two timestamps disagrees with comparing (time, counter, node)' % name)
                    continue
                good = not cmp_ts and not cond_write
                ctx.ob(rule, 'sql|%s' % name, good, site(b),
                       '%s neither compares / orders the TEXT timestamp column nor makes the write conditional' % name if good else
                       '%s %s: the text form of a timestamp is not order-preserving (the seconds field is not zero-padded), and a conditional upsert lets '
                       'storage report Ok without having written the row — an acknowledged write is missing after a restart'
                       % (name, 'compares / orders by the TEXT column `ts`' if cmp_ts else 'is a conditional write (DO UPDATE ... WHERE)'))
    # floor: every statement a SQL call site of the crate names must have been judged (6 on the pinned tree; a tree that merges two
    # statements into one has fewer — what matters is that none that is USED escapes)
    used = set()
    for body in facts.bodies.values():
        if body.crate != 'datacake_sqlite' or body.d['promoted']:
            continue
        fl_ = None
        for _b, t in body.calls():
            if cname(t) in SQL_CALLS:
                fl_ = fl_ or Flow(body)
                nm_, tx_ = sql_of(facts, body, fl_, op_local(t['args'][1]), t['args'][1])
                if tx_ is not None and re.match(r'\s*(SELECT|INSERT|DELETE|UPDATE)', tx_, re.I):
                    used.add(' '.join(tx_.split()))
    ctx.floor(rule, 'SQLite data statements', n, len(used) if used else 6)


def check_B9(ctx, facts):
    """doc ids are stored as the i64 reinterpretation of the u64 (ids >= 2^63 are negative rows).  A read statement must return
    every row matching its key: a LIMIT outside a paging loop, or a range predicate on doc_id whose bound is a compile-time
    constant other than the extreme of i64, provably excludes rows."""
    I64_MIN, I64_MAX = -(1 << 63), (1 << 63) - 1
    n = 0
    for body in facts.bodies.values():
        if body.crate != 'datacake_sqlite' or body.d['promoted']:
            continue
        flow = direct = None
        for b, t in body.calls():
            if cname(t) not in SQL_CALLS:
                continue
            flow = flow or Flow(body)
            name, text = sql_of(facts, body, flow, op_local(t['args'][1]), t['args'][1])
            if text is None:
                continue     # B1 fails closed on this
            txt = ' '.join(text.split())
            if not re.match(r'SELECT', txt, re.I):
                continue
            n += 1
            where = body.name.replace(SQ, '').replace('::{closure#0}', '')
            key = '%s|%s|every-row' % (where, last_seg(name))
            why = []
            in_loop = b in body.reachable_from(body.succ(b))
            if re.search(r'\b(LIMIT|OFFSET)\b', txt, re.I) and not in_loop:
                why.append('the statement carries LIMIT / OFFSET and is executed once: rows beyond the limit are never returned')
            # range predicates on the id column
            tuple_ops = None
            for _b, _j, s_ in body.assigns():
                if s_['lhs']['l'] == op_local(t['args'][2]) and not s_['lhs']['p'] and s_['rv']['k'] == 'aggregate' and s_['rv'].get('agg') == 'tuple':
                    tuple_ops = s_['rv']['ops']
            for m in re.finditer(r'doc_id\s*(>=|<=|>|<)\s*\?|\?\s*(>=|<=|>|<)\s*doc_id', txt):
                rel = m.group(1) or FLIP[m.group(2)]
                idx = txt[:m.start() + m.group(0).index('?')].count('?')
                consts = []
                if tuple_ops is not None and idx < len(tuple_ops):
                    o = tuple_ops[idx]
                    if const_int(o) is not None:
                        consts.append(const_int(o))
                    elif op_local(o) is not None:
                        direct = direct or Flow(body, only=set())
                        back = direct.backward([op_local(o)])
                        for _b2, _j2, s2 in body.assigns():
                            if s2['lhs']['l'] in back and not s2['lhs']['p'] and s2['rv']['k'] == 'use' and const_int(s2['rv']['op']) is not None:
                                consts.append(const_int(s2['rv']['op']))
                consts = [c - (1 << 64) if c > I64_MAX else c for c in consts]
                for c in consts:
                    complete = (rel == '>=' and c == I64_MIN) or (rel == '<=' and c == I64_MAX)
                    if not complete:
                        why.append('the statement selects `doc_id %s ?` and the bound starts at the constant %d: ids are bound `as i64`, so ids >= 2^63 '
                                   'are stored as negative doc_id and rows on the wrong side of %d are never returned (documents storage holds are '
                                   'missing from this read while get / multi_get still serve them)' % (rel, c, c))
            good = not why
            ctx.ob('C17.B9', key, good, site(body, t['cs']),
                   '%s returns every row matching its key (no LIMIT outside a paging loop, no id range starting at a constant inside the i64 range)' % last_seg(name)
                   if good else '; '.join(why))
    ctx.floor('C17.B9', 'SQLite read statement executions', n, 4)


def check(ctx):
    prod = ctx.facts('prod')
    tu = ctx.facts('testutils')
    check_B1(ctx, prod)
    # MSEM: the in-memory backend's Storage methods interpreted per (keyspace, key) against the reference key-value model
    # (memstore_abs); subsumes B2, which is evaluated only when a construct is not modelled
    import memstore_abs
    if not memstore_abs.check_memstore(ctx, tu, 'C17.MSEM'):
        check_B2(ctx, tu)
    # ST: the provided *_with_ctx methods every bundled backend inherits forward to the backend's own method and return its answer (storage_abs)
    import storage_abs
    storage_abs.check_defaults(ctx, prod, 'C17.ST')
    # B10: the SQLite backend keeps the timestamp column as text, written with Display and read back with FromStr: writer / reader
    # agreement of the text form and its purity (= C10.E3 / E8, re-evaluated under C17)
    import c10
    import bits_abs
    n0 = len(ctx.obs)
    bits_abs.check_layout(ctx, prod, 'C10.SEM')          # (the layout the reader / writer summaries of E3 are read against)
    c10.check_E3(ctx, prod)
    c10.check_text_pure(ctx, prod, rule='C17.B10')
    for o in ctx.obs[n0:]:
        o.rule = o.rule.replace('C10.E3', 'C17.B10').replace('C10.SEM', 'C17.B10.L')
    check_B3(ctx, prod, tu)
    check_B4(ctx, prod)
    check_B5(ctx, prod)
    check_B7(ctx, prod)
    check_B8(ctx, prod)
    check_B9(ctx, prod)
    check_B11(ctx, prod)
    check_B12(ctx, prod)


def check_B12(ctx, facts, rule='C17.B12'):
    """B12: LMDB hands entries out in the BYTE order of the encoded key.  Ids are encoded little-endian (`U64<LittleEndian>`), so the order of
    iteration is not the numeric order of the ids (256 = 00 01 .. sorts before 1 = 01 00 ..).  A necessary condition of listing exactly what is
    stored: no ordering comparison (<, <=, >, >=, cmp) is made between two ids that both come out of iterating such a database — a merge-join /
    cursor walk that assumes numeric order misclassifies or skips entries once an id >= 256 is stored.  (Round 8, C07h: the tombstone flag of
    iter_metadata computed by walking the live-document cursor next to the metadata cursor.)  Expected count zero; the iterations themselves
    are the positive control."""
    L = 'datacake_lmdb'
    n_iter = 0
    n_cmp = 0
    hits = []
    for b in facts.bodies.values():
        if b.crate != L or b.d['promoted'] or b.derived:
            continue
        srcs = []
        for _blk, t in b.calls():
            n_ = cname(t) or ''
            if re.search(r'heed::.*Database.*::(iter|iter_mut|rev_iter|range|rev_range|prefix_iter|first|last)$', n_) or \
                    re.search(r'heed::(db::|databases::|)?.*::(RoIter|RwIter|RoRange|RoPrefix).*::(next|last)$', n_):
                ga = ' '.join(t.get('gargs') or []) + ' ' + ' '.join(str(b.local_ty(op_local(a))) for a in (t.get('args') or [])[:1] if op_local(a) is not None)
                if 'LittleEndian' in ga:
                    srcs.append(t['dest']['l'])
        if not srcs:
            continue
        n_iter += len(srcs)
        fl = Flow(b, all_calls=True)
        der = fl.forward(srcs)
        for c in all_comparisons(b):
            if c['rel'] in ('<', '<=', '>', '>=') and c['lhs'] in der and c['rhs'] in der:
                n_cmp += 1
                hits.append((b, c))
        for _blk, t in b.calls():
            n_ = cname(t) or ''
            if re.match(r'core::cmp::(Ord|PartialOrd)::(cmp|partial_cmp|max|min)$', n_) and len(t['args']) == 2:
                l0, l1 = op_local(t['args'][0]), op_local(t['args'][1])
                if l0 in der and l1 in der:
                    n_cmp += 1
                    hits.append((b, {'line': t['cs'], 'rel': last_seg(n_)}))
    ctx.floor(rule, 'iterations over an LMDB database with little-endian integer keys', n_iter, 1)
    for b, c in hits:
        ctx.bad(rule, 'order-assumed|%s' % strip_generics(b.name), site(b, c['line']),
                'two ids that both come out of iterating a database keyed by U64<LittleEndian> are compared with `%s`: LMDB iterates in the byte order of the '
                'encoded key, which is not the numeric order for little-endian integers (256 comes before 1) — a walk that assumes numeric order skips or '
                'misclassifies entries (live documents listed as tombstones) as soon as an id >= 256 is stored' % c['rel'])
    if not hits:
        ctx.ok(rule, 'order-assumed|none', '', '%d iteration(s) over little-endian-keyed databases; no ordering comparison between two ids obtained from them' % n_iter)


def check_B11(ctx, facts):
    """B11: one call of a bulk Storage method is ONE step of the reference model on the transactional backends: the write transaction that
    carries it is begun once per call — the hand-over to the LMDB worker (a call that passes a closure which opens a write transaction) and
    the SQLite `execute_many` are not inside a loop of the calling method.  (Round 7, C17g: bulk writes split into batches of 512, each its
    own transaction — a reader between two batches, or a crash, sees half of the call applied.)"""
    n = 0
    bad = []
    for b in facts.bodies.values():
        if b.crate not in ('datacake_lmdb', 'datacake_sqlite') or b.d['promoted'] or b.cfg is None:
            continue
        for blk, t in b.calls():
            cn = cname(t) or ''
            is_tx = False
            if b.crate == 'datacake_lmdb':
                # a closure handed over in this call opens a write transaction
                for _b, _s, cdef, _ops in closure_aggregates(b):
                    cb = facts.bodies.get(cdef)
                    if cb is not None and any((cname(t2) or '').endswith('::write_txn') for _x, t2 in cb.calls()):
                        fl = Flow(b)
                        if any(op_local(a) is not None and _s['lhs']['l'] in fl.backward([op_local(a)]) for a in t['args']) and cn.startswith('datacake_lmdb'):
                            is_tx = True
            else:
                is_tx = cn.endswith('::execute_many')
            if not is_tx:
                continue
            n += 1
            succ = b.succ(blk)
            if any(blk in b.reachable_from([s_]) for s_ in succ):
                bad.append((b, t))
    ctx.floor('C17.B11', 'bulk write hand-overs (LMDB task submissions that open a write transaction, SQLite execute_many)', n, 6)
    ctx.ob('C17.B11', 'bulk|one-transaction-per-call', not bad, site(bad[0][0], bad[0][1]['cs']) if bad else '',
           'every write transaction is begun once per Storage call (%d hand-over sites, none inside a loop)' % n if not bad else
           '%s begins a write transaction inside a loop: one bulk call is applied in several transactions — a concurrent reader (or a crash) between two of them sees part of '
           'the call applied, which no state of the reference key-value model matches' % last_seg(bad[0][0].name.replace('::{closure#0}', '')))
