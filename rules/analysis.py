"""Analysis primitives shared by the rule modules (DESIGN §4)."""
import re
from facts import (strip_generics, last_seg, op_place, op_local, op_const, const_int,
                   ty_head, ty_args, place_str, op_str)
import tables


def cname(t):
    """Canonical callee name of a Call terminator.
    Trait methods: `<trait path>::<method>` whatever the Self type;
    inherent / free functions: the generic-stripped def path."""
    if t.get('k') != 'call' or 'callee' not in t:
        return None
    if 'trait' in t:
        return '%s::%s' % (strip_generics(t['trait']), last_seg(t['callee']))
    return strip_generics(t['callee'])


def resolved(t):
    r = t.get('resolved')
    return strip_generics(r) if r else None


def call_sites(body, names=None, pred=None):
    """[(block, term)] for calls whose canonical name is in `names` (or satisfies pred)"""
    out = []
    for b, t in body.calls():
        n = cname(t)
        if n is None:
            continue
        if names is not None and n in names:
            out.append((b, t))
        elif pred is not None and pred(n, t):
            out.append((b, t))
    return out


# ---------------------------------------------------------------------------
# P-DERIVED
# ---------------------------------------------------------------------------

def rv_operands(rv):
    k = rv['k']
    if k in ('use', 'repeat', 'cast'):
        return [rv['op']]
    if k == 'bin':
        return [rv['a'], rv['b']]
    if k == 'un':
        return [rv['a']]
    if k == 'aggregate':
        return list(rv['ops'])
    return []


def rv_places(rv):
    k = rv['k']
    if k in ('ref', 'rawptr', 'discr', 'copyderef'):
        return [rv['pl']]
    return [op_place(o) for o in rv_operands(rv) if op_place(o)]


_MUTATOR = re.compile(r'^(alloc::vec::Vec|smallvec::SmallVec|alloc::collections::vec_deque::VecDeque|alloc::string::String)::'
                      r'(push|push_back|push_front|insert|extend_from_slice|append|push_str)$|^core::iter::traits::collect::Extend::extend$')


class Flow:
    """Flow-insensitive derived-from relation between the locals of one body.

    edge src -> dst when dst is assigned a value computed from src.  Calls
    propagate from arguments to destination when the callee is in the
    propagating table (tables.PROPAGATING) or when `all_calls` is set."""

    def __init__(self, body, all_calls=False, extra_prop=(), skip_deref_writes=False, only=None):
        self.body = body
        self.fwd = {}
        self.bwd = {}
        self.all_calls = all_calls
        extra = set(extra_prop)
        for _b, _j, s in body.assigns():
            dst = s['lhs']['l']
            if skip_deref_writes and s['lhs']['p'] and '*' in s['lhs']['p']:
                continue
            for pl in rv_places(s['rv']):
                self._edge(pl['l'], dst)
                for e in pl['p']:
                    if isinstance(e, dict) and 'i' in e:
                        pass
        for b, t in body.calls():
            dst = t['dest']['l']
            n = cname(t)
            prop = all_calls or (n in tables.PROPAGATING) or (n in extra) or tables.propagates(n)
            if only is not None:
                prop = n in only
            if prop:
                for a in t['args']:
                    l = op_local(a)
                    if l is not None:
                        self._edge(l, dst)
            # container mutators: what is pushed / inserted / appended flows into the container behind the receiver reference
            if only is None and n and _MUTATOR.search(n) and len(t['args']) >= 2:
                recv = op_local(t['args'][0])
                if recv is not None:
                    for root in referent_roots(body, recv):
                        for a in t['args'][1:]:
                            l = op_local(a)
                            if l is not None:
                                self._edge(l, root)
        for i, blk in enumerate(body.blocks):
            t = blk['t']
            if t['k'] == 'yield' and not blk['cleanup']:
                l = op_local(t['value'])
                if l is not None:
                    self._edge(l, t['resume_arg']['l'])

    def _edge(self, a, b):
        self.fwd.setdefault(a, set()).add(b)
        self.bwd.setdefault(b, set()).add(a)

    def forward(self, starts, stop=()):
        seen = set()
        work = list(starts)
        stop = set(stop)
        while work:
            x = work.pop()
            if x in seen:
                continue
            seen.add(x)
            if x in stop:
                continue
            work.extend(self.fwd.get(x, ()))
        return seen

    def backward(self, starts, stop=()):
        seen = set()
        work = list(starts)
        stop = set(stop)
        while work:
            x = work.pop()
            if x in seen:
                continue
            seen.add(x)
            if x in stop:
                continue
            work.extend(self.bwd.get(x, ()))
        return seen

    def derived(self, x, sources):
        """is local x derived from any local in `sources`"""
        return bool(self.backward([x]) & set(sources))


# ---------------------------------------------------------------------------
# P-RESULT-EDGES
# ---------------------------------------------------------------------------

RESULT_HEADS = {'core::result::Result': ('ok', 'err'),
                'core::ops::control_flow::ControlFlow': ('ok', 'err'),  # Continue / Break
                'core::option::Option': ('err', 'ok')}                  # None / Some


def switch_on(body, local):
    """[(block, term)] switches whose discriminant operand is `local`"""
    out = []
    for i, blk in enumerate(body.blocks):
        if blk['cleanup']:
            continue
        t = blk['t']
        if t['k'] == 'switch' and op_local(t['discr']) == local:
            out.append((i, t))
    return out


def discr_switches(body, local):
    """switches that test the enum discriminant of `local`: [(block, term)]"""
    out = []
    for b, j, s in body.assigns():
        if s['rv']['k'] == 'discr' and s['rv']['pl']['l'] == local and all(e == '*' for e in s['rv']['pl']['p']):
            out.extend(switch_on(body, s['lhs']['l']))
    return out


def is_unreachable(body, b):
    blk = body.blocks[b]
    return blk['t']['k'] == 'unreachable' and not blk['s']


def classify_switch(body, blk, t, variants):
    """edges of an enum switch -> {'ok': [(blk,target)], 'err': [...]} given the
    (variant0, variant1) meaning tuple"""
    res = {'ok': [], 'err': []}
    seen_vals = set()
    for v, tgt in t['targets']:
        v = int(v)
        seen_vals.add(v)
        if v in (0, 1):
            res[variants[v]].append((blk, tgt))
    if not is_unreachable(body, t['otherwise']):
        rest = {0, 1} - seen_vals
        if len(rest) == 1:
            res[variants[rest.pop()]].append((blk, t['otherwise']))
        elif len(rest) == 2:
            # a switch that does not separate the variants
            pass
    return res


class ResultEdges:
    """Success / failure edges of a call whose (awaited) output is a Result (or Option)."""

    def __init__(self, body, flow, call_block, include_option=False):
        self.body = body
        t = body.term(call_block)
        self.call_block = call_block
        dest = t['dest']['l']
        self.ok = []
        self.err = []
        self.switches = []
        # forward closure, but do not run through the function's return place
        fwd = flow.forward([dest], stop=[0])
        self.fwd = fwd
        reach = body.reachable_from([call_block])
        for l in sorted(fwd):
            if l == 0:
                continue
            lty = body.local_ty(l)
            while lty.startswith('&'):          # a reference to the result (e.g. handed to a helper): `discriminant(*r)`
                lty = lty[1:].lstrip()
                if lty.startswith('mut '):
                    lty = lty[4:]
                if lty.startswith("'") and ' ' in lty:
                    lty = lty.split(' ', 1)[1]
            head = ty_head(lty)
            if head not in RESULT_HEADS:
                continue
            if head == 'core::option::Option' and not include_option:
                continue
            for sb, st in discr_switches(body, l):
                if sb not in reach:
                    continue
                c = classify_switch(body, sb, st, RESULT_HEADS[head])
                self.ok.extend(c['ok'])
                self.err.extend(c['err'])
                self.switches.append((sb, l, head))
        self.inspected = bool(self.switches)

    def ok_dominates(self, b):
        """every feasible path entry -> b crosses a success edge (path-sensitive for re-wrapped results)"""
        if any(self.body.edge_dominates(e, b) for e in self.ok):
            return True
        return b not in refined_reach(self.body, [0], blocked_edges=self.ok)

    def err_dominates(self, b):
        if any(self.body.edge_dominates(e, b) for e in self.err):
            return True
        return b not in refined_reach(self.body, [0], blocked_edges=self.err)

    def reachable_from_err(self):
        out = set()
        # a new execution of the call produces a new result: do not run through the call block again
        blocked = [(p, self.call_block) for p in self.body.pred(self.call_block)]
        for (_a, s) in self.err:
            out |= refined_reach(self.body, [s], blocked_edges=blocked)
        return out


def refined_reach(body, starts, blocked_edges=()):
    """Blocks reachable from `starts`, following only feasible edges at switches over Result / ControlFlow values whose
    variant is known on the path: `L = Result::Ok{..}` / `Err{..}` fixes L's variant, `X = Try::branch(L)` carries it over
    (Continue for Ok, Break for Err), `d = discriminant(X)` fixes d.  Facts are merged at joins by agreement."""
    blocked = set(blocked_edges)
    states = {}
    work = [(s, {}) for s in starts]
    guard = 0
    while work:
        guard += 1
        if guard > 40 * max(1, len(body.blocks)):
            return set(body.reachable_from(starts))
        b, st = work.pop()
        old = states.get(b)
        if old is not None:
            merged = {k: v for k, v in old.items() if st.get(k) == v}
            if merged == old:
                continue
            st = merged
        states[b] = dict(st)
        st = dict(st)
        blk = body.blocks[b]
        for s in blk['s']:
            if s['k'] != 'assign' or s['lhs']['p']:
                continue
            dst, rv = s['lhs']['l'], s['rv']
            st.pop(dst, None)
            if rv['k'] == 'aggregate' and rv.get('agg') == 'adt' and strip_generics(rv['adt']) in ('core::result::Result', 'core::ops::control_flow::ControlFlow'):
                st[dst] = 0 if rv['vname'] in ('Ok', 'Continue') else 1
            elif rv['k'] == 'aggregate' and rv.get('agg') == 'adt' and strip_generics(rv['adt']) == 'core::task::poll::Poll' and rv.get('vname') == 'Ready' and rv['ops']:
                # the output of an await-inlined helper (inline.inline_awaits) carries the helper's result through Poll::Ready
                y = op_local(rv['ops'][0])
                if y in st and st[y] in (0, 1):
                    st[dst] = ('poll', st[y])
            elif rv['k'] == 'use' and op_const(rv['op']) is not None and op_const(rv['op']).get('ty') == 'bool' and 'val' in op_const(rv['op']):
                st[dst] = ('b', int(op_const(rv['op'])['val']))       # a flag set on this path (`break true` / `done = false`)
            elif rv['k'] == 'use':
                pl = op_place(rv['op'])
                if pl and not pl['p'] and pl['l'] in st:
                    st[dst] = st[pl['l']]
                elif pl and len(pl['p']) == 2 and isinstance(pl['p'][0], dict) and pl['p'][0].get('n') == 'Ready' and isinstance(pl['p'][1], dict) and pl['p'][1].get('f') == 0 \
                        and isinstance(st.get(pl['l']), tuple) and st[pl['l']][0] == 'poll':
                    st[dst] = st[pl['l']][1]
            elif rv['k'] == 'discr' and not rv['pl']['p'] and st.get(rv['pl']['l']) in (0, 1):
                st[dst] = ('d', st[rv['pl']['l']])
        t = blk['t']
        succs = list(body.succ(b))
        if t['k'] == 'call' and not t['dest']['p']:
            d = t['dest']['l']
            st.pop(d, None)
            if cname(t) == 'core::ops::try_trait::Try::branch' and t['args']:
                l = op_local(t['args'][0])
                if l in st and st[l] in (0, 1):
                    st[d] = st[l]
            elif cname(t) == 'core::ops::try_trait::FromResidual::from_residual':
                st[d] = 1          # `?` re-wraps the failure: the result built here is an Err / Break
        elif t['k'] == 'switch':
            l = op_local(t['discr'])
            v = st.get(l) if l is not None else None
            if isinstance(v, tuple) and v[0] in ('d', 'b'):
                tgt = t['otherwise']
                for val, tb in t['targets']:
                    if int(val) == v[1]:
                        tgt = tb
                succs = [tgt]
        for s_ in succs:
            if (b, s_) in blocked:
                continue
            work.append((s_, st))
    return set(states)


# ---------------------------------------------------------------------------
# awaits
# ---------------------------------------------------------------------------

def awaited_output_local(body, flow, call_block):
    """the local that receives the output of awaiting the future returned by the call
    in `call_block` (the `(poll as Ready).0` move), or None."""
    t = body.term(call_block)
    fwd = flow.forward([t['dest']['l']], stop=[0])
    cands = []
    for b, j, s in body.assigns():
        rv = s['rv']
        if rv['k'] == 'use':
            pl = op_place(rv['op'])
            if pl and pl['l'] in fwd and any(isinstance(e, dict) and e.get('n') == 'Ready' for e in pl['p']):
                cands.append((b, s['lhs']['l']))
    if len(cands) > 1:
        # the call sits inside an await-inlined helper: the helper's own output flows on into the caller's await.  The output of THIS
        # await is the one every other candidate is reached through.
        for b, l in cands:
            if all(b == b2 or body.dominates(b, b2) for b2, _l in cands):
                return l
    return cands[0][1] if cands else None


def yields_between(body, a_blocks, b_block):
    """is there a Yield terminator on some path from any block in a_blocks to b_block"""
    ys = [i for i, blk in enumerate(body.blocks) if blk['t']['k'] == 'yield' and not blk['cleanup']]
    for y in ys:
        if y in body.reachable_from(a_blocks) and b_block in body.reachable_from([y]):
            return True
    return False


# ---------------------------------------------------------------------------
# closures
# ---------------------------------------------------------------------------

def closure_aggregates(body):
    """[(block, stmt, closure def path, operand list)] closures / coroutines created in this body"""
    out = []
    for b, j, s in body.assigns():
        rv = s['rv']
        if rv['k'] == 'aggregate' and rv['agg'] in ('closure', 'coroutine', 'coroutine_closure'):
            out.append((b, s, rv['def'], rv['ops']))
    return out


def _return_locals(body):
    """locals whose value is moved/copied (possibly through several temporaries) into the return place"""
    out = {0}
    changed = True
    while changed:
        changed = False
        for _b, _j, s in body.assigns():
            if s['lhs']['l'] in out and not s['lhs']['p'] and s['rv']['k'] == 'use':
                pl = op_place(s['rv']['op'])
                if pl and not pl['p'] and pl['l'] not in out:
                    out.add(pl['l'])
                    changed = True
                # the output of an await-inlined helper: `x = (p as Ready).0` with `p = Poll::Ready(y)` (inline.inline_awaits)
                elif pl and len(pl['p']) == 2 and isinstance(pl['p'][0], dict) and pl['p'][0].get('n') == 'Ready' and isinstance(pl['p'][1], dict) and pl['p'][1].get('f') == 0:
                    for _b2, _j2, s2 in body.assigns():
                        if s2['lhs']['l'] == pl['l'] and not s2['lhs']['p'] and s2['rv']['k'] == 'aggregate' and s2['rv'].get('agg') == 'adt' \
                                and strip_generics(s2['rv']['adt']) == 'core::task::poll::Poll' and s2.get('inl'):
                            y = op_local(s2['rv']['ops'][0])
                            if y is not None and y not in out:
                                out.add(y)
                                changed = True
    return out


def return_value_blocks(body):
    """blocks producing the value that is returned: [(block, stmt-or-term)] (assignments / calls whose destination
    is the return place or a temporary that is moved into it)"""
    rl = _return_locals(body)
    out = []
    for b, j, s in body.assigns():
        if s['lhs']['l'] in rl and not s['lhs']['p']:
            if s['rv']['k'] == 'use' and op_place(s['rv']['op']) and not op_place(s['rv']['op'])['p'] and op_place(s['rv']['op'])['l'] in rl:
                continue   # a plain forwarding move between return temporaries
            out.append((b, s))
    for b, t in body.calls():
        if t['dest']['l'] in rl and not t['dest']['p']:
            out.append((b, t))
    return out


def ok_return_blocks(body):
    """blocks where the returned `Result::Ok(..)` is constructed"""
    out = []
    for b, s in return_value_blocks(body):
        rv = s.get('rv')
        if rv and rv['k'] == 'aggregate' and rv.get('agg') == 'adt' and \
                strip_generics(rv['adt']) == 'core::result::Result' and rv['vname'] == 'Ok':
            out.append(b)
    return out


def err_return_blocks(body):
    out = []
    for b, s in return_value_blocks(body):
        rv = s.get('rv')
        if rv and rv['k'] == 'aggregate' and rv.get('agg') == 'adt' and \
                strip_generics(rv['adt']) == 'core::result::Result' and rv['vname'] == 'Err':
            out.append(b)
        if s.get('k') == 'call' and cname(s) == 'core::ops::try_trait::FromResidual::from_residual':
            out.append(b)
    return out


# ---------------------------------------------------------------------------
# P-POLARITY: boolean constant propagation under an assumption
# ---------------------------------------------------------------------------

TOP = 'T'


def bool_eval(body, assume, max_iter=200):
    """Abstractly execute `body` with boolean locals over {True, False, TOP}.
    `assume(block, term)` may return a bool for a call's result.
    Returns the set of possible values of _0 at return: subset of {True, False, TOP}."""
    results = set()
    # state: dict local->value ; worklist over (block, frozen state) with merging by block
    states = {}
    work = [(0, {})]
    n = 0
    while work:
        n += 1
        if n > max_iter * max(1, len(body.blocks)):
            return {TOP}
        b, st = work.pop()
        key = b
        old = states.get(key)
        if old is not None:
            merged = {}
            for k in set(old) | set(st):
                va, vb = old.get(k, None), st.get(k, None)
                merged[k] = va if va == vb else TOP
            if merged == old:
                continue
            st = merged
        states[key] = dict(st)
        st = dict(st)
        blk = body.blocks[b]
        for s in blk['s']:
            if s['k'] != 'assign' or s['lhs']['p']:
                continue
            dst = s['lhs']['l']
            st[dst] = _bool_rv(s['rv'], st)
        t = blk['t']
        k = t['k']
        if k == 'return':
            results.add(st.get(0, TOP))
        elif k == 'call':
            v = assume(b, t)
            if not t['dest']['p']:
                st[t['dest']['l']] = v if v is not None else TOP
            if t['target'] is not None:
                work.append((t['target'], st))
        elif k == 'switch':
            l = op_local(t['discr'])
            v = st.get(l, TOP) if l is not None else TOP
            c = const_int(t['discr'])
            if c is not None:
                v = bool(c)
            if v is True or v is False:
                iv = 1 if v else 0
                tgt = t['otherwise']
                for val, tb in t['targets']:
                    if int(val) == iv:
                        tgt = tb
                work.append((tgt, st))
            else:
                for s_ in body.succ(b):
                    work.append((s_, st))
        else:
            for s_ in body.succ(b):
                work.append((s_, st))
    return results or {TOP}


def _bool_op(op, st):
    c = op_const(op)
    if c is not None:
        if 'val' in c and c['ty'] == 'bool':
            return bool(int(c['val']))
        return TOP
    pl = op_place(op)
    if pl is None or pl['p']:
        return TOP
    return st.get(pl['l'], TOP)


def _bool_rv(rv, st):
    k = rv['k']
    if k == 'use':
        return _bool_op(rv['op'], st)
    if k == 'un' and rv['op'] == 'Not':
        v = _bool_op(rv['a'], st)
        return (not v) if v in (True, False) else TOP
    return TOP


# ---------------------------------------------------------------------------
# P-ORDGUARD
# ---------------------------------------------------------------------------

CMP_METHODS = {'lt': '<', 'le': '<=', 'gt': '>', 'ge': '>=', 'eq': '==', 'ne': '!='}
CMP_BINOPS = {'Lt': '<', 'Le': '<=', 'Gt': '>', 'Ge': '>=', 'Eq': '==', 'Ne': '!='}
NEG = {'<': '>=', '<=': '>', '>': '<=', '>=': '<', '==': '!=', '!=': '=='}
FLIP = {'<': '>', '<=': '>=', '>': '<', '>=': '<=', '==': '==', '!=': '!='}


def comparisons(body):
    """Every ordering test in the body whose boolean result feeds a switch:
    [{'block': b of the test, 'lhs': local, 'rhs': local, 'rel': REL,
      'true_edge': (blk, tgt), 'false_edge': (blk, tgt), 'line': n}]
    Operands are reported as locals (None for constants, with 'lhs_const'/'rhs_const')."""
    out = []

    def add(res_local, lhs_op, rhs_op, rel, b, line):
        # follow `Not` and copies of the result to the switch
        pol = True
        cur = res_local
        for _ in range(6):
            sw = switch_on(body, cur)
            if sw:
                sb, st = sw[0]
                tmap = {int(v): tb for v, tb in st['targets']}
                f_t = tmap.get(0)
                t_t = st['otherwise'] if 0 in tmap else None
                if f_t is None:
                    # `switch x -> 1:bbT otherwise bbF`
                    t_t = tmap.get(1)
                    f_t = st['otherwise']
                te, fe = (sb, t_t), (sb, f_t)
                if not pol:
                    te, fe = fe, te
                out.append({'block': b, 'lhs': op_local(lhs_op), 'rhs': op_local(rhs_op),
                            'lhs_op': lhs_op, 'rhs_op': rhs_op, 'rel': rel,
                            'true_edge': te, 'false_edge': fe, 'line': line, 'switch_block': sb})
                return
            nxt = None
            for _b, _j, s in body.assigns():
                rv = s['rv']
                if rv['k'] == 'un' and rv['op'] == 'Not' and op_local(rv['a']) == cur and not s['lhs']['p']:
                    nxt = s['lhs']['l']
                    pol = not pol
                    break
                if rv['k'] == 'use' and op_local(rv['op']) == cur and not s['lhs']['p'] \
                        and not op_place(rv['op'])['p']:
                    nxt = s['lhs']['l']
                    break
            if nxt is None:
                return
            cur = nxt

    for b, t in body.calls():
        n = cname(t)
        if n is None:
            continue
        m = re.match(r'core::cmp::(PartialOrd|PartialEq)::(lt|le|gt|ge|eq|ne)$', n)
        if m and len(t['args']) == 2 and not t['dest']['p']:
            add(t['dest']['l'], t['args'][0], t['args'][1], CMP_METHODS[m.group(2)], b, t['cs'])
    for b, j, s in body.assigns():
        rv = s['rv']
        if rv['k'] == 'bin' and rv['op'] in CMP_BINOPS and not s['lhs']['p']:
            add(s['lhs']['l'], rv['a'], rv['b'], CMP_BINOPS[rv['op']], b, s['cs'])
    return out


def normal_form(cmp_, edge_kind, role_of):
    """normalised guard on the true/false edge: (roleA, REL, roleB) with roles ordered
    alphabetically so equal guards compare equal."""
    rel = cmp_['rel'] if edge_kind == 'true' else NEG[cmp_['rel']]
    a, b = role_of(cmp_['lhs'], cmp_['lhs_op']), role_of(cmp_['rhs'], cmp_['rhs_op'])
    if a is None or b is None:
        return None
    if a > b:
        a, b = b, a
        rel = FLIP[rel]
    return (a, rel, b)


# ---------------------------------------------------------------------------
# call graph
# ---------------------------------------------------------------------------

class CallGraph:
    def __init__(self, facts):
        self.facts = facts
        self.edges = {}   # body defp -> set(body defp)
        self.trait_impls = {}  # 'trait::method' -> [body]
        for im in facts.impls:
            if im.get('trait_def'):
                for item in im['items']:
                    name = '%s::%s' % (strip_generics(im['trait_def']), last_seg(item))
                    for b in facts.by_name.get(strip_generics(item), []):
                        self.trait_impls.setdefault(name, []).append(b)
        for b in facts.bodies.values():
            if b.d['promoted']:
                continue
            tgt = set()
            for _blk, t in b.calls():
                for c in self.targets(t):
                    tgt.add(c.defp)
            for _b, _s, cdef, _ops in closure_aggregates(b):
                if cdef in facts.bodies:
                    tgt.add(cdef)
            # a workspace function named as a VALUE (`stream.fold(clock, advance)`, `.map(Replay::from)`): whoever receives it may call it
            for blk in b.blocks:
                ops_ = []
                for s_ in blk['s']:
                    if s_['k'] == 'assign':
                        ops_ += rv_operands(s_['rv'])
                if blk['t']['k'] == 'call':
                    ops_ += list(blk['t'].get('args') or [])
                for o_ in ops_:
                    c_ = op_const(o_) if isinstance(o_, dict) else None
                    fn_ = (c_ or {}).get('fn_resolved') or (c_ or {}).get('fn')
                    if fn_:
                        for fb in facts.by_name.get(strip_generics(fn_), []):
                            if not fb.d['promoted']:
                                tgt.add(fb.defp)
                                # (an async fn: its coroutine is what runs)
                                cb_ = facts.bodies.get(fb.defp + '::{closure#0}')
                                if cb_ is not None:
                                    tgt.add(cb_.defp)
            self.edges[b.defp] = tgt

    def targets(self, t):
        """workspace bodies a call may enter"""
        facts = self.facts
        out = []
        r = t.get('resolved')
        if r:
            out.extend(facts.by_name.get(strip_generics(r), []))
            if out:
                return [b for b in out if not b.d['promoted']]
        c = t.get('callee')
        if c:
            bs = [b for b in facts.by_name.get(strip_generics(c), []) if not b.d['promoted']]
            if bs:
                return bs
            if 'trait' in t:
                impls = self.trait_impls.get(cname(t), [])
                self_ty = (t.get('gargs') or [''])[0]
                head = ty_head(self_ty)
                if '::' not in head and not self_ty.startswith(('[', '(')):
                    return impls          # a type parameter: any workspace impl
                if self_ty.startswith('dyn ') or head.startswith('dyn'):
                    return impls
                out = []
                for b in impls:
                    ih = ty_head(b.impl.split(' as ')[0].lstrip('<')) if b.impl else ''
                    if ih == head or '::' not in ih:
                        out.append(b)
                return out
        return []

    def channel_edges(self):
        """message passing inside the workspace: a body that SENDS a value of a workspace type T on a channel may cause whatever a body
        that RECEIVES from a channel of T does (a request enum handed to a worker thread / task).  Coarse (any variant, any receiver of
        that type): used only where a may-reach answer is wanted, never for who-may-call prohibitions."""
        if hasattr(self, '_chan_edges'):
            return self._chan_edges

        def payload(ty, what):
            i = ty.find(what + '<')
            if i < 0:
                return None
            inner = ty[i + len(what) + 1:]
            depth = 1
            for k, ch in enumerate(inner):
                if ch == '<':
                    depth += 1
                elif ch == '>':
                    depth -= 1
                    if depth == 0:
                        return strip_generics(inner[:k]).strip()
            return None
        senders, receivers = {}, {}
        for b in self.facts.bodies.values():
            if b.d['promoted']:
                continue
            for _blk, t in b.calls():
                n = cname(t) or ''
                seg = last_seg(n)
                if not t.get('args'):
                    continue
                l = op_local(t['args'][0])
                if l is None:
                    continue
                ty = b.local_ty(l)
                if seg in ('send', 'send_async', 'try_send', 'blocking_send', 'send_timeout') and 'Sender<' in ty:
                    p_ = payload(ty, 'Sender')
                    if p_ and p_.startswith('datacake'):
                        senders.setdefault(p_, set()).add(b.defp)
                if seg in ('recv', 'recv_async', 'try_recv', 'blocking_recv', 'iter', 'into_iter', 'try_iter', 'next', 'recv_timeout', 'into_stream', 'stream') and 'Receiver<' in ty:
                    p_ = payload(ty, 'Receiver')
                    if p_ and p_.startswith('datacake'):
                        receivers.setdefault(p_, set()).add(b.defp)
        out = {}
        for p_, ss in senders.items():
            for s_ in ss:
                out.setdefault(s_, set()).update(receivers.get(p_, ()))
        self._chan_edges = out
        return out

    def reach(self, start_bodies, bound=None, channels=False):
        seen = {}
        work = [(b.defp, 0) for b in start_bodies]
        ch = self.channel_edges() if channels else {}
        while work:
            d, depth = work.pop()
            if d in seen and seen[d] <= depth:
                continue
            seen[d] = depth
            if bound is not None and depth >= bound:
                continue
            for n in self.edges.get(d, ()):
                work.append((n, depth + 1))
            for n in ch.get(d, ()):
                work.append((n, depth + 1))
        return [self.facts.bodies[d] for d in seen if d in self.facts.bodies]

    def callers_of(self, name_pred):
        """[(body, block, term)] over the workspace for calls matching name_pred(cname, term)"""
        out = []
        for b in self.facts.bodies.values():
            if b.d['promoted']:
                continue
            for blk, t in b.calls():
                n = cname(t)
                if n and name_pred(n, t):
                    out.append((b, blk, t))
        return out


# ---------------------------------------------------------------------------
# all comparisons (whether or not they feed a switch)
# ---------------------------------------------------------------------------

def all_comparisons(body):
    """[{'dest': local, 'lhs_op','rhs_op','lhs','rhs','rel','block','line'}]"""
    out = []
    for b, t in body.calls():
        n = cname(t)
        if n is None:
            continue
        m = re.match(r'core::cmp::(PartialOrd|PartialEq)::(lt|le|gt|ge|eq|ne)$', n)
        if m and len(t['args']) == 2:
            out.append({'dest': t['dest']['l'], 'lhs_op': t['args'][0], 'rhs_op': t['args'][1],
                        'lhs': op_local(t['args'][0]), 'rhs': op_local(t['args'][1]),
                        'rel': CMP_METHODS[m.group(2)], 'block': b, 'line': t['cs']})
    for b, j, s in body.assigns():
        rv = s['rv']
        if rv['k'] == 'bin' and rv['op'] in CMP_BINOPS:
            out.append({'dest': s['lhs']['l'], 'lhs_op': rv['a'], 'rhs_op': rv['b'],
                        'lhs': op_local(rv['a']), 'rhs': op_local(rv['b']),
                        'rel': CMP_BINOPS[rv['op']], 'block': b, 'line': s['cs']})
    return out


# ---------------------------------------------------------------------------
# P-EFFECT: which fields of *self a method mutates
# ---------------------------------------------------------------------------

def self_field_effects(facts, cg, root, depth=3):
    """{field index: [line,...]} for fields of *self (local _1 of `root`) that are assigned or mutably
    borrowed in root's body, plus 'whole' when &mut *self is handed to something we cannot follow.
    Workspace callees receiving the whole of self are followed up to `depth`."""
    out = {}

    def note(f, line):
        out.setdefault(f, []).append(line)

    def visit(body, d):
        for _b, _j, s in body.assigns():
            lhs = s['lhs']
            if lhs['l'] == 1 and len(lhs['p']) >= 2 and lhs['p'][0] == '*' and isinstance(lhs['p'][1], dict) and 'f' in lhs['p'][1]:
                note(lhs['p'][1]['f'], s['cs'])
            rv = s['rv']
            if rv['k'] in ('ref', 'rawptr') and rv['mut']:
                pl = rv['pl']
                if pl['l'] == 1 and pl['p'] and pl['p'][0] == '*':
                    if len(pl['p']) >= 2 and isinstance(pl['p'][1], dict) and 'f' in pl['p'][1]:
                        note(pl['p'][1]['f'], s['cs'])
                    elif len(pl['p']) == 1:
                        # reborrow of the whole of self: find the call that consumes it
                        tgt = s['lhs']['l']
                        followed = False
                        for _bb, t in body.calls():
                            if any(op_local(a) == tgt for a in t['args'][:1]):
                                cbs = cg.targets(t)
                                if cbs and d < depth:
                                    for cb in cbs:
                                        visit(cb, d + 1)
                                    followed = True
                        if not followed:
                            note('whole', s['cs'])
        for _bb, t in body.calls():
            if t['args'] and op_local(t['args'][0]) == 1 and not op_place(t['args'][0])['p'] \
                    and body.local_ty(1).startswith('&mut'):
                cbs = cg.targets(t)
                if cbs and d < depth:
                    for cb in cbs:
                        visit(cb, d + 1)
                elif not cbs:
                    note('whole', t['cs'])
    visit(root, 0)
    return out


def const_fold_reachable(body):
    """blocks reachable from entry when switches on constant-valued locals are folded"""
    consts = {}
    for _b, _j, s in body.assigns():
        if not s['lhs']['p'] and s['rv']['k'] == 'use':
            c = const_int(s['rv']['op'])
            if c is not None:
                consts.setdefault(s['lhs']['l'], set()).add(c)
            else:
                consts.setdefault(s['lhs']['l'], set()).add(None)
        elif not s['lhs']['p']:
            consts.setdefault(s['lhs']['l'], set()).add(None)
    seen = set()
    work = [0]
    while work:
        b = work.pop()
        if b in seen:
            continue
        seen.add(b)
        t = body.term(b)
        if t['k'] == 'switch':
            l = op_local(t['discr'])
            v = const_int(t['discr'])
            if v is None and l is not None and consts.get(l) and len(consts[l]) == 1 and None not in consts[l]:
                v = next(iter(consts[l]))
            if v is not None:
                tgt = t['otherwise']
                for val, tb in t['targets']:
                    if int(val) == v:
                        tgt = tb
                work.append(tgt)
                continue
        work.extend(body.succ(b))
    return seen


# ---------------------------------------------------------------------------
# named constants
# ---------------------------------------------------------------------------

def named_consts_of(facts, body, local, flow=None):
    """def paths of the named `const` items the value of `local` may come from (through copies,
    references and promoted constants)"""
    flow = flow or Flow(body)
    out = set()
    back = flow.backward([local])
    for _b, _j, s in body.assigns():
        if s['lhs']['l'] not in back:
            continue
        for o in rv_operands(s['rv']):
            c = op_const(o)
            if not c or 'uneval' not in c:
                continue
            if 'promoted' in c:
                pb = facts.bodies.get('%s::{promoted#%d}' % (body.defp, c['promoted']))
                if pb is None:
                    # promoted of the root item
                    for k, v in facts.bodies.items():
                        if k.endswith('::{promoted#%d}' % c['promoted']) and strip_generics(k).startswith(strip_generics(c['uneval'])):
                            pb = v
                if pb is not None:
                    for _b2, _j2, s2 in pb.assigns():
                        for o2 in rv_operands(s2['rv']):
                            c2 = op_const(o2)
                            if c2 and 'uneval' in c2 and 'promoted' not in c2:
                                out.add(strip_generics(c2['uneval']))
            else:
                out.add(strip_generics(c['uneval']))
    for _b, t in body.calls():
        if t['dest']['l'] in back:
            for a in t['args']:
                c = op_const(a)
                if c and 'uneval' in c and 'promoted' not in c:
                    out.add(strip_generics(c['uneval']))
    return out


def referent_roots(body, local, depth=0, seen=None):
    """the non-reference locals a reference-typed local may point into (follows &/&mut borrows, copies of
    references, reborrows and Deref::deref calls; does NOT follow moves of values between owners)"""
    seen = seen if seen is not None else set()
    if local in seen or depth > 12:
        return set()
    seen.add(local)
    ty = body.local_ty(local)
    if not (ty.startswith('&') or ty.startswith('*')):
        return {local}
    out = set()
    for _b, _j, s in body.assigns():
        if s['lhs']['l'] != local or s['lhs']['p']:
            continue
        rv = s['rv']
        if rv['k'] in ('ref', 'rawptr', 'copyderef'):
            out |= referent_roots(body, rv['pl']['l'], depth + 1, seen) if (body.local_ty(rv['pl']['l']).startswith(('&', '*'))) else {rv['pl']['l']}
        elif rv['k'] in ('use', 'cast'):
            l = op_local(rv['op'])
            if l is not None:
                out |= referent_roots(body, l, depth + 1, seen)
    for _b, t in body.calls():
        if t['dest']['l'] == local and not t['dest']['p'] and cname(t) in (
                'core::ops::deref::Deref::deref', 'core::ops::deref::DerefMut::deref_mut', 'core::borrow::Borrow::borrow',
                'core::convert::AsRef::as_ref', 'core::borrow::BorrowMut::borrow_mut'):
            l = op_local(t['args'][0])
            if l is not None:
                out |= referent_roots(body, l, depth + 1, seen)
    return out


# ---------------------------------------------------------------------------
# channel reliability
# ---------------------------------------------------------------------------

def lossy_sends(body):
    """channel sends in `body` that can drop the value when the queue is full / closed without the caller waiting:
    [(line, callee)] — try_send*, send_timeout, and sends on a watch channel are not considered here"""
    out = []
    for _b, t in body.calls():
        n = cname(t)
        if not n:
            continue
        seg = last_seg(n)
        if re.match(r'^(flume|crossbeam_channel|tokio::sync::mpsc|std::sync::mpsc|async_channel)', n) and \
                (seg.startswith('try_send') or seg in ('send_timeout', 'send_deadline', 'try_reserve')):
            out.append((t['cs'], n))
    return out


def channel_ctor_bounded(facts, body):
    """constructors of bounded channels called in body: [(line, callee, capacity)]"""
    out = []
    for _b, t in body.calls():
        n = cname(t)
        if n and re.match(r'^(flume|crossbeam_channel|tokio::sync::mpsc|async_channel)', n) and last_seg(n) in ('bounded', 'channel', 'sync_channel'):
            out.append((t['cs'], n, const_int(t['args'][0]) if t['args'] else None))
    return out
