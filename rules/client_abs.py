"""C14.SEM / C12.F4 (client side): one request / response exchange of the RPC client, interpreted (P-TRACE).

`RpcContext::send_inner` — the real MIR, with whatever helpers, enums and conversions the exchange is written with — is interpreted
for a client with and without a configured timeout against every outcome of the network: the request cannot be delivered; the
server answers OK and the reply decodes / is refused by the decoder; the server answers with an error status whose body cannot be
read / is not a valid frame / decodes; and, with a timeout configured, the time bound elapses.  Sending the request, draining a body,
the guarded decoder (`DataView::using`, `RequestContents::from_body` of the reply type), `deserialize_view` and
`tokio::time::timeout` are modelled effects recorded in a trace.  Decided per scenario:

  * the caller gets the reply decoded from THIS response's body, or the status decoded from THIS response's body, or a locally
    built status of the right kind (connection / invalid payload / timeout) — never anything else;
  * with a timeout configured, EVERY network effect of the exchange (send, reading either body) happens inside ONE
    `tokio::time::timeout` whose duration is the configured one, and an elapsed bound is reported as a timeout status;
    without one, no bound is applied;
  * the request is sent exactly once."""
import absint
from absint import Interp, Order, Cell, Unmodelled, UNIT, mk_option, mk_bool
from facts import strip_generics, last_seg, ty_head
import actor_abs
from actor_abs import World, ok, err, upvar_types

RPC = 'datacake_rpc'

# (transport ok?, response code OK?, decoder outcome, label)
OUTCOMES = [
    ('transport-error', 'the request cannot be delivered'),
    ('ok-reply', 'the server answers OK and the reply decodes'),
    ('ok-reply-refused', 'the server answers OK and the reply frame is refused by the decoder'),
    ('err-status', 'the server answers with an error status that decodes'),
    ('err-drain-fails', 'the server answers with an error status whose body cannot be read'),
    ('err-frame-refused', 'the server answers with an error status whose body is not a valid frame'),
    ('err-deserialise-fails', 'the server answers with an error status whose frame does not deserialise'),
    ('elapsed', 'the time bound elapses before the exchange completes'),
]


CODES = {'OK': 200, 'BAD_REQUEST': 400, 'INTERNAL_SERVER_ERROR': 500, 'NOT_FOUND': 404}


def mk_code(name):
    # http::StatusCode is a struct around a non-zero u16: matching on a constant pattern reads the number
    n = CODES[name.rsplit('::', 1)[-1]]
    inner = ('adt', 'core::num::niche_types::NonZeroU16Inner', 0, [Cell(('int', n))])
    return ('adt', 'http::status::StatusCode', 0, [Cell(('adt', 'core::num::nonzero::NonZero', 0, [Cell(inner)]))])


def code_int(v):
    d = 0
    while v is not None and v[0] == 'adt' and v[3] and d < 5:
        v = v[3][0].v
        d += 1
    if v is not None and v[0] == 'int':
        return v[1]
    if v is not None and v[0] == 'const':
        return CODES.get(str(v[1]).rsplit('::', 1)[-1])
    return None


class ClientWorld(World):
    def __init__(self, facts, outcome):
        World.__init__(self, hooks=[self.hook])
        self.facts = facts
        self.outcome = outcome
        self.depth = 0         # nesting of timeout scopes

    def net(self, what):
        self.trace.append(('net', what, self.depth))

    def hook(self, world, interp, name, args, t, body):
        seg = last_seg(name)
        if name.startswith(RPC) and seg == 'send_parts' and 'Channel' in name:
            return ('future', 'send')
        if name.startswith(RPC) and name.endswith('::utils::to_aligned') and args:
            return ('future', 'drain', interp.deref_all(args[0]))
        if name.startswith(RPC) and name.endswith('RequestContents::from_body') and args:
            b = interp.deref_all(args[0])
            while b is not None and b[0] == 'adt' and b[3]:
                b = interp.deref_all(b[3][0].v)
            return ('future', 'from_body', b)
        if name.startswith(RPC) and seg == 'using' and 'DataView' in name and args:
            fr = interp.deref_all(args[0])
            self.trace.append(('using', fr))
            if self.outcome == 'err-frame-refused':
                return err(('opaque', 'invalid-view'))
            return ok(('view', fr))
        if name.startswith(RPC) and seg in ('deserialize_view', 'to_owned') and 'DataView' in name and args:
            v = interp.deref_all(args[0])
            self.trace.append(('deserialise', v))
            if self.outcome == 'err-deserialise-fails':
                return err(('opaque', 'deserialise-error'))
            return ok(('status', 'remote', v))
        if name in ('tokio::time::timeout::timeout', 'tokio::time::timeout') and len(args) == 2:
            return ('future', 'timeout', interp.deref_all(args[0]), args[1])
        if name in ('tokio::time::timeout::timeout_at', 'tokio::time::timeout_at', 'tokio::time::sleep::sleep', 'tokio::time::sleep'):
            raise Unmodelled('a time bound built from %s' % seg)
        if name == 'http::response::Response::into_parts' and args:
            r = interp.deref_all(args[0])
            if r is not None and r[0] == 'response':
                parts = ('adt', 'http::response::Parts', 0, [Cell(mk_code(r[1])), Cell(('opaque', 'version')), Cell(('opaque', 'headers')), Cell(('opaque', 'extensions')), Cell(UNIT)])
                return ('tuple', [Cell(parts), Cell(('hbody', 'response'))])
        if name in ('http::response::Response::status',) and args:
            r = interp.deref_all(args[0])
            if r is not None and r[0] == 'response':
                return mk_code(r[1])
        if name in ('http::response::Response::into_body', 'http::response::Response::body') and args:
            r = interp.deref_all(args[0])
            if r is not None and r[0] == 'response':
                return ('hbody', 'response')
        if name in ('core::cmp::PartialEq::eq', 'core::cmp::PartialEq::ne') and len(args) == 2:
            a, b = interp.deref_all(args[0]), interp.deref_all(args[1])
            def is_code(x):
                return x is not None and ((x[0] == 'adt' and x[1] == 'http::status::StatusCode') or (x[0] == 'const' and 'StatusCode' in str(x[1])))
            if is_code(a) and is_code(b):
                na, nb = code_int(a), code_int(b)
                if na is None or nb is None:
                    raise Unmodelled('comparison with an HTTP status code outside the model')
                return mk_bool((na == nb) == (seg == 'eq'))
        if name.startswith('http::status::StatusCode::') and seg in ('is_success', 'as_u16', 'is_client_error', 'is_server_error') and args:
            n_ = code_int(interp.deref_all(args[0]))
            if n_ is None:
                raise Unmodelled('an HTTP status code outside the model')
            return {'is_success': mk_bool(200 <= n_ < 300), 'as_u16': ('int', n_), 'is_client_error': mk_bool(400 <= n_ < 500), 'is_server_error': mk_bool(500 <= n_ < 600)}[seg]
        if name.startswith('core::num::nonzero::NonZero') and seg == 'get' and args:
            a = interp.deref_all(args[0])
            if a is not None and a[0] == 'adt' and a[3]:
                return a[3][0].v
        if name in ('alloc::fmt::format', 'alloc::fmt::format::format_inner') or name.startswith('core::fmt::') or name in ('alloc::string::ToString::to_string',):
            return ('opaque', 'string')
        if name.startswith('hyper::error::Error::') or name.startswith('<hyper::error::Error'):
            return ('opaque', 'string')
        return None

    def poll(self, interp, pin, f):
        if f is not None and f[0] == 'future':
            k = f[1]
            if k == 'send':
                self.net('send')
                if self.outcome == 'transport-error':
                    return err(('opaque', 'transport-error'))
                code = 'OK' if self.outcome.startswith('ok-') or self.outcome == 'elapsed' else 'BAD_REQUEST'
                return ok(('response', 'http::status::StatusCode::' + code))
            if k == 'drain':
                self.net('drain')
                if self.outcome == 'err-drain-fails':
                    return err(('opaque', 'hyper-error'))
                return ok(('frame', f[2][1] if f[2] is not None and f[2][0] == 'hbody' else str(f[2])))
            if k == 'from_body':
                self.net('from_body')
                self.trace.append(('reply-decoded-from', f[2]))
                if self.outcome == 'ok-reply-refused':
                    return err(('status', 'decoder-refusal'))
                return ok(('view', ('frame', f[2][1] if f[2] is not None and f[2][0] == 'hbody' else str(f[2]))))
            if k == 'timeout':
                self.trace.append(('timeout-begin', f[2]))
                if self.outcome == 'elapsed':
                    self.trace.append(('timeout-elapsed',))
                    return err(('opaque', 'elapsed'))
                self.depth += 1
                out = self.resolve(interp, f[3])
                self.depth -= 1
                self.trace.append(('timeout-end',))
                return ok(out)
        return World.poll(self, interp, pin, f)


def status_kind(facts, v):
    """what an error value is: a status decoded from the response, the decoder's own refusal, or one built locally (its code)"""
    if v is None:
        return None
    if v[0] == 'status':
        return v[1]
    if v[0] == 'adt' and v[1].endswith('::Status') and v[3]:
        code = v[3][0].v
        if code is not None and code[0] == 'adt':
            a = facts.adts.get(code[1])
            return 'built:' + (a['variants'][code[2]]['name'] if a else str(code[2]))
    return 'other:%s' % (v[0],)


def find_entry(facts):
    out = [b for b in facts.bodies.values() if b.crate == RPC and b.kind == 'coroutine' and b.cfg is not None and not b.d['promoted']
           and b.name.endswith('::RpcContext::send_inner::{closure#0}')]
    return out


def check_exchange(ctx, facts, rule, cfg_label=''):
    from orswot_abs import _fallback
    try:
        ents = find_entry(facts)
        if len(ents) != 1:
            raise Unmodelled('RpcContext::send_inner not found (%d candidates)' % len(ents))
        entry = ents[0]
        ups = upvar_types(entry)
        cl = [n for n in facts.adts if n.startswith(RPC + '::') and n.endswith('::RpcClient')]
        cx = [n for n in facts.adts if n.startswith(RPC + '::') and n.endswith('::RpcContext')]
        if len(cl) != 1 or len(cx) != 1:
            raise Unmodelled('RpcClient / RpcContext not found')
        out = {}
        for timeout in (True, False):
            for oc, label in OUTCOMES:
                if oc == 'elapsed' and not timeout:
                    continue

                def run(choices, timeout=timeout, oc=oc):
                    world = ClientWorld(facts, oc)
                    it = Interp(facts, Order({}), opaque_call=world.call, step_limit=300000)
                    it.poll_hook = world.poll
                    it.unknown_call = actor_abs.lenient_unknown
                    it.opaque_fields = True
                    it.choices = list(choices)
                    cells = []
                    for f in facts.adts[cl[0]]['variants'][0]['fields']:
                        if 'Duration' in f['ty'] and f['ty'].startswith('core::option::Option'):
                            cells.append(Cell(mk_option(('dur', 'configured')) if timeout else mk_option(None)))
                        elif 'Duration' in f['ty']:
                            raise Unmodelled('the configured timeout is not an Option<Duration>')
                        else:
                            # a private two-variant enum of the crate standing for Option<Duration> (Unbounded | Within(Duration))
                            ea = facts.adts.get(ty_head(f['ty']))
                            vs = ea['variants'] if ea is not None and ea['kind'] == 'enum' and ea['def'].startswith(RPC) else []
                            with_d = [i for i, v_ in enumerate(vs) if len(v_['fields']) == 1 and 'Duration' in v_['fields'][0]['ty']]
                            bare = [i for i, v_ in enumerate(vs) if not v_['fields']]
                            if len(vs) == 2 and len(with_d) == 1 and len(bare) == 1:
                                cells.append(Cell(('adt', ty_head(f['ty']), with_d[0], [Cell(('dur', 'configured'))]) if timeout else ('adt', ty_head(f['ty']), bare[0], [])))
                            else:
                                cells.append(Cell(('opaque', 'client-field:' + f['name'])))
                    client = ('adt', cl[0], 0, cells)
                    ccells = []
                    for f in facts.adts[cx[0]]['variants'][0]['fields']:
                        if 'RpcClient' in f['ty']:
                            ccells.append(Cell(('ref', Cell(client)) if f['ty'].startswith('&') else client))
                        else:
                            ccells.append(Cell(('opaque', 'ctx-field:' + f['name'])))
                    context = ('adt', cx[0], 0, ccells)
                    upv = {}
                    for i, ty in ups.items():
                        if 'RpcContext' in ty:
                            upv[i] = ('ref', Cell(context)) if ty.startswith('&') else context
                        elif ty.endswith('::Body') and ty.startswith(RPC):
                            upv[i] = ('adt', ty, 0, [Cell(('hbody', 'request'))])
                        else:
                            upv[i] = ('opaque', 'arg:' + ty)
                    n = max(upv) + 1
                    st = ('closure', entry.defp, [Cell(upv.get(i, ('opaque', 'u'))) for i in range(n)])
                    r = it.deref_all(it.run_body(entry, [st, ('opaque', 'cx')]))
                    return it.oracle_log, (r, list(world.trace))
                out[(timeout, oc)] = absint.explore(run)
    except (Unmodelled, absint.NeedChoice, absint.PanicPath, IndexError, TypeError, KeyError, AttributeError, RecursionError) as e:
        return _fallback(ctx, rule, e)
    site_ = '%s:%s' % (entry.file, entry.line)
    labels = dict(OUTCOMES)
    WANT = {'transport-error': ('err', 'built:ConnectionError'), 'ok-reply': ('ok', ('view', ('frame', 'response'))), 'ok-reply-refused': ('err', 'decoder-refusal'),
            'err-status': ('err', 'remote'), 'err-drain-fails': ('err', 'built:InternalError'), 'err-frame-refused': ('err', 'built:InvalidPayload'),
            'err-deserialise-fails': ('err', 'built:InvalidPayload'), 'elapsed': ('err', 'built:Timeout')}
    for (timeout, oc), results in out.items():
        bad = []
        seen = 0
        for log, res in results:
            if res and res[0] == 'panic':
                bad.append('a path panics')
                continue
            r, trace = res
            if r is None or r[0] != 'adt' or r[1] != 'core::result::Result':
                bad.append('the exchange does not return a Result')
                continue
            seen += 1
            payload = r[3][0].v if r[3] else None
            p_ = payload
            while p_ is not None and p_[0] == 'ref':
                p_ = p_[1].v
            got = ('ok', p_) if r[2] == 0 else ('err', status_kind(facts, p_))
            if r[2] == 0:
                # unwrap newtypes around the reply view
                while p_ is not None and p_[0] == 'adt' and p_[3] and len(p_[3]) >= 1 and p_[1].startswith(RPC):
                    p_ = p_[3][0].v
                got = ('ok', p_)
            want = WANT[oc]
            nets = [e for e in trace if e[0] == 'net']
            sends = [e for e in nets if e[1] == 'send']
            begins = [e for e in trace if e[0] == 'timeout-begin']
            if oc != 'elapsed' and len(sends) != 1:
                bad.append('the request is sent %d times' % len(sends))
            elif got != want:
                bad.append('the caller gets %s, expected %s' % ('Ok(%s)' % (got[1],) if got[0] == 'ok' else 'the error `%s`' % (got[1],),
                                                               'Ok(the reply decoded from this response)' if want[0] == 'ok' else 'the error `%s`' % want[1]))
            elif timeout:
                if len(begins) != 1:
                    bad.append('%d time bounds are applied to the exchange although a timeout is configured (exactly one is expected)' % len(begins))
                elif begins[0][1] != ('dur', 'configured'):
                    bad.append('the time bound is %s, not the configured timeout' % (begins[0][1],))
                elif any(e[2] < 1 for e in nets):
                    bad.append('%s happens OUTSIDE the time bound: on a held link the caller waits for ever although a timeout is configured'
                               % {'send': 'sending the request', 'drain': 'reading the error body', 'from_body': 'reading the reply body'}[[e for e in nets if e[2] < 1][0][1]])
            elif begins:
                bad.append('a time bound is applied although no timeout is configured')
            if oc == 'ok-reply' and not any(e[0] == 'reply-decoded-from' and e[1] == ('hbody', 'response') for e in trace):
                bad.append('the reply is not decoded from the body of this response')
            if oc == 'err-status' and not any(e[0] == 'using' and e[1] == ('frame', 'response') for e in trace):
                bad.append('the error status is not decoded through the guarded decoder from the body of this response')
        good = seen > 0 and not bad
        key = '%sexchange|%s|%s' % (cfg_label, 'timeout configured' if timeout else 'no timeout', labels[oc])
        ctx.ob(rule, key, good, site_,
               '%s, %s: answered as specified%s' % ('timeout configured' if timeout else 'no timeout', labels[oc], ', everything inside the one time bound' if timeout else '') if good else
               '%s, %s: %s' % ('timeout configured' if timeout else 'no timeout', labels[oc], bad[0] if bad else 'no path'))
    return True


# ---------------------------------------------------------------------------------------------------------------------
# C12.F3: the generic request decoder — content comes only through the guarded doorway
# ---------------------------------------------------------------------------------------------------------------------
class DecodeWorld(World):
    def __init__(self, outcome):
        World.__init__(self, hooks=[self.hook])
        self.outcome = outcome

    def hook(self, world, interp, name, args, t, body):
        seg = last_seg(name)
        if name.startswith(RPC) and name.endswith('::utils::to_aligned') and args:
            return ('future', 'drain', interp.deref_all(args[0]))
        if name.startswith(RPC) and seg == 'using' and 'DataView' in name and args:
            fr = interp.deref_all(args[0])
            self.trace.append(('using', fr))
            if self.outcome == 'frame-refused':
                return err(('opaque', 'invalid-view'))
            return ok(('view', fr))
        if name.startswith('rkyv::') and seg in ('archived_root', 'archived_root_mut', 'archived_value', 'check_archived_root', 'check_archived_value', 'from_bytes', 'from_bytes_unchecked',
                                                 'archived_unsized_root', 'archived_unsized_value'):
            self.trace.append(('other-decode', name))
            return ok(('view', 'other')) if 'check' in seg or seg == 'from_bytes' else ('view', 'other')
        if name in ('alloc::fmt::format', 'alloc::fmt::format::format_inner') or name.startswith('core::fmt::') or name in ('alloc::string::ToString::to_string',):
            return ('opaque', 'string')
        if name.startswith('hyper::error::Error::') or name.startswith('<hyper::error::Error'):
            return ('opaque', 'string')
        return None

    def poll(self, interp, pin, f):
        if f is not None and f[0] == 'future' and f[1] == 'drain':
            self.trace.append(('drain', f[2]))
            if self.outcome == 'drain-fails':
                return err(('opaque', 'hyper-error'))
            return ok(('frame', f[2][1] if f[2] is not None and f[2][0] == 'hbody' else str(f[2])))
        return World.poll(self, interp, pin, f)


def check_from_body(ctx, facts, rule, cfg_label=''):
    """the blanket `RequestContents::from_body`: the body is drained, the buffer goes through `DataView::using` and nothing else;
    a refusal becomes Status::invalid, a view of THIS buffer is what the caller gets"""
    from orswot_abs import _fallback
    try:
        fbs = [b for b in facts.bodies.values() if b.crate == RPC and b.kind == 'coroutine' and b.cfg is not None and 'RequestContents>::from_body' in b.name and '<Msg as' in b.name
               and b.name.endswith('::{closure#0}')]
        if len(fbs) != 1:
            raise Unmodelled('the generic RequestContents::from_body not found (%d candidates)' % len(fbs))
        entry = fbs[0]
        ups = upvar_types(entry)
        out = {}
        for oc in ('decodes', 'frame-refused', 'drain-fails'):
            def run(choices, oc=oc):
                world = DecodeWorld(oc)
                it = Interp(facts, Order({}), opaque_call=world.call, step_limit=200000)
                it.poll_hook = world.poll
                it.unknown_call = actor_abs.lenient_unknown
                it.opaque_fields = True
                it.choices = list(choices)
                upv = {}
                for i, ty in ups.items():
                    if ty.endswith('::Body') and ty.startswith(RPC):
                        upv[i] = ('adt', ty, 0, [Cell(('hbody', 'request'))])
                    else:
                        upv[i] = ('opaque', 'arg:' + ty)
                n = max(upv) + 1 if upv else 1
                st = ('closure', entry.defp, [Cell(upv.get(i, ('opaque', 'u'))) for i in range(n)])
                r = it.deref_all(it.run_body(entry, [st, ('opaque', 'cx')]))
                return it.oracle_log, (r, list(world.trace))
            out[oc] = absint.explore(run)
    except (Unmodelled, absint.NeedChoice, absint.PanicPath, IndexError, TypeError, KeyError, AttributeError, RecursionError) as e:
        return _fallback(ctx, rule, e)
    site_ = '%s:%s' % (entry.file, entry.line)
    LAB = {'decodes': 'the frame is admitted', 'frame-refused': 'the frame is refused by the guarded decoder', 'drain-fails': 'the body cannot be read'}
    for oc, results in out.items():
        bad = []
        seen = 0
        for log, res in results:
            if res and res[0] == 'panic':
                bad.append('a path panics')
                continue
            r, trace = res
            if r is None or r[0] != 'adt' or r[1] != 'core::result::Result':
                bad.append('from_body does not return a Result')
                continue
            seen += 1
            p_ = r[3][0].v if r[3] else None
            while p_ is not None and p_[0] == 'ref':
                p_ = p_[1].v
            usings = [e for e in trace if e[0] == 'using']
            others = [e for e in trace if e[0] == 'other-decode']
            if others:
                bad.append('the content is also read through %s, which does not check the frame' % others[0][1])
            elif oc == 'decodes':
                if r[2] != 0 or p_ != ('view', ('frame', 'request')) or usings != [('using', ('frame', 'request'))]:
                    bad.append('an admitted frame gives %s (expected Ok(the view DataView::using returned for this body))' % (('Ok(%s)' % (p_,)) if r[2] == 0 else 'an error'))
            elif oc == 'frame-refused':
                if r[2] != 1 or status_kind(facts, p_) != 'built:InvalidPayload':
                    bad.append('a refused frame gives %s (expected the invalid-payload status)' % ('Ok(%s)' % (p_,) if r[2] == 0 else 'the error `%s`' % status_kind(facts, p_)))
            elif oc == 'drain-fails':
                if r[2] != 1 or usings:
                    bad.append('an unreadable body gives %s' % ('Ok' if r[2] == 0 else 'an error after the decoder was asked anyway'))
        good = seen > 0 and not bad
        ctx.ob(rule, '%sfrom_body|%s' % (cfg_label, LAB[oc]), good, site_,
               'generic from_body, %s: handled through the single guarded doorway' % LAB[oc] if good else 'generic from_body, %s: %s' % (LAB[oc], bad[0] if bad else 'no path'))
    return True
