"""C12 — RPC delivers exactly the bytes sent; damaged or short frames are refused.  DESIGN §5 C12."""
from analysis import *  # noqa
from facts import strip_generics, op_local, op_const, const_int, last_seg
from engine import site
import tables

CONFIGS = ['prod', 'sim']
THOROUGH_CONFIGS = ['release']
EXPLANATION = (
    'SEM (primary): DataView::using summarised over the three length classes x checksum match (cast reached exactly for long-enough frames whose crc32(body'
    ') equals the little-endian trailer, applied to the body only, no class panics); one request through the server interpreted (reply unchanged with OK; e'
    'rror / unknown-service status sent as the serialisation of that status, non-OK); one exchange of the client and the generic request decoder interpreted (the reply / the status is '
    'decoded from THIS response through from_body / DataView::using; an admitted frame gives the view using returned, a refused frame the invalid-payload status). Structural fallback / remaining clauses: '
    'Decided clauses (datacake-rpc, default and simulation feature sets): F1 every unchecked rkyv cast in the frame layer is '
    'dominated by (a) the equal edge of CRC(body) == trailer and (b) the not-shorter edge of len(body) < size_of::<Archived<T>>(), '
    'both failure edges returning Err; F2 trailer writer/reader agreement (same hash function, same width, same endianness, reader '
    'hashes exactly the bytes before the trailer, writer appends after serialisation finished); F3 the generic request decoder obtains '
    'its content only from that doorway and maps its error to an invalid-payload status, and no handler runs on a refused frame; '
    'F5.SEM the body collector (utils::to_aligned) interpreted against scripted bodies of 0..5 chunks and a body whose third read fails: Ok carries exactly the chunks delivered, each once, in order; a failed read is an error (F5, the structural form, is the fallback: every chunk read from the HTTP body is appended to the buffer that is decoded); F4 status transport routing (handler Err -> serialised status + non-OK code -> client Err of the decoded status). '
    'NOT decided: equality of observed and sent values (rkyv round trip), CRC-32 error-detection strength, hyper framing.')
ASSUMPTIONS = ['rkyv/bytecheck validation is sound where used', 'CRC-32 detects all single-bit errors (property of the code, not checked)']

RK = 'datacake_rpc::rkyv_tooling::'


def derives_from_call(body, flow, local, names):
    if local is None:
        return []
    back = flow.backward([local])
    return [(b, t) for b, t in body.calls() if t['dest']['l'] in back and cname(t) in names]


def check_F1(ctx, facts, cfg, sem_decided=()):
    n = len(sem_decided)
    for body in facts.bodies.values():
        if body.crate != 'datacake_rpc' or body.d['promoted'] or body.name in sem_decided:
            continue
        for ub, ut in body.calls():
            if cname(ut) not in tables.RKYV_UNCHECKED:
                continue
            n += 1
            flow = Flow(body)
            key = '%s|%s|%s' % (cfg, body.name.replace('datacake_rpc::', ''), last_seg(cname(ut)))
            arg = op_local(ut['args'][0])
            arg_back = flow.backward([arg])
            errs = set(err_return_blocks(body))
            crc_ok = len_ok = False
            crc_why = 'no comparison between crc32(body) and the trailer dominates the cast'
            len_why = ('no test `len(body) < size_of::<Archived<T>>()` dominates the cast: a frame with a valid checksum but a body shorter '
                       'than the archived root (e.g. the 4-byte frame 00 00 00 00) reaches archived_root, which computes len - size_of '
                       '(panic in debug, out-of-bounds reference in release)')
            for c in comparisons(body):
                # --- checksum guard
                if c['rel'] in ('==', '!='):
                    l_hash = derives_from_call(body, flow, c['lhs'], {'crc32fast::hash'})
                    r_hash = derives_from_call(body, flow, c['rhs'], {'crc32fast::hash'})
                    l_tr = derives_from_call(body, flow, c['lhs'], {'core::num::<impl u32>::from_le_bytes', 'core::num::<impl u32>::from_be_bytes'})
                    r_tr = derives_from_call(body, flow, c['rhs'], {'core::num::<impl u32>::from_le_bytes', 'core::num::<impl u32>::from_be_bytes'})
                    if (l_hash and r_tr and not l_tr) or (r_hash and l_tr and not r_tr):
                        eq_edge = c['true_edge'] if c['rel'] == '==' else c['false_edge']
                        ne_edge = c['false_edge'] if c['rel'] == '==' else c['true_edge']
                        hb, ht = (l_hash or r_hash)[0]
                        # hash is over the slice handed to the cast
                        same_slice = bool(flow.backward([op_local(ht['args'][0])]) & _slice_roots(body, flow, arg))
                        if body.edge_dominates(eq_edge, ub) and ub not in body.reachable_from([ne_edge[1]]) \
                                and errs & body.reachable_from([ne_edge[1]]) and same_slice:
                            crc_ok = True
                        elif not same_slice:
                            crc_why = 'checksum is computed over a different slice than the one cast'
                        else:
                            crc_why = 'checksum comparison does not guard the cast (cast reachable on mismatch)'
                # --- length guard
                if c['rel'] in ('<', '<=', '>', '>='):
                    for side, other in (('lhs', 'rhs'), ('rhs', 'lhs')):
                        sz = derives_from_call(body, flow, c[other], {'core::mem::size_of'})
                        ln = derives_from_call(body, flow, c[side], {'core::slice::<impl [T]>::len'})
                        if not sz or not ln:
                            continue
                        szt = (sz[0][1].get('gargs') or [''])[0]
                        cast_t = (ut.get('gargs') or [''])[0]
                        ty_ok = 'Archived' in szt and cast_t in szt
                        lb, lt = ln[0]
                        same_slice = bool(flow.backward([op_local(lt['args'][0])]) & _slice_roots(body, flow, arg))
                        rel = c['rel'] if side == 'lhs' else FLIP[c['rel']]   # len REL size
                        short_edge = c['true_edge'] if rel in ('<', '<=') else c['false_edge']
                        long_edge = c['false_edge'] if rel in ('<', '<=') else c['true_edge']
                        if not ty_ok:
                            len_why = 'length is compared with size_of::<%s>, not the archived form of the cast type %s' % (szt, cast_t)
                        elif not same_slice:
                            len_why = 'the length tested is not the length of the slice handed to the cast (the trailer is still included)'
                        elif rel not in ('<', '>='):
                            len_why = 'length guard is `len %s size`: a body exactly one byte short still passes' % rel if rel == '<=' and False else len_why
                            if rel in ('<=', '>'):
                                # len <= size refused: stricter than needed but safe
                                if body.edge_dominates(long_edge, ub) and errs & body.reachable_from([short_edge[1]]):
                                    len_ok = True
                        elif body.edge_dominates(long_edge, ub) and ub not in body.reachable_from([short_edge[1]]) \
                                and errs & body.reachable_from([short_edge[1]]):
                            len_ok = True
            ctx.ob('C12.F1', key + '|checksum-guard', crc_ok, site(body, ut['cs']),
                   'unchecked cast dominated by the equal edge of crc32(body) == trailer; mismatch returns Err' if crc_ok else crc_why)
            ctx.ob('C12.F1', key + '|length-guard', len_ok, site(body, ut['cs']),
                   'unchecked cast dominated by the not-shorter edge of len(body) < size_of::<Archived<T>>(); short body returns Err' if len_ok else len_why)
    # validating doorways count too
    nchecked = 0
    for body in facts.bodies.values():
        if body.crate == 'datacake_rpc' and not body.d['promoted']:
            nchecked += len([1 for _b, t in body.calls() if cname(t) in tables.RKYV_CHECKED])
    ctx.floor('C12.F1', cfg + ' decode doorways (guarded unchecked casts or validating accessors)', n + nchecked, 1)


def _slice_roots(body, flow, arg):
    """locals that denote the very slice handed to the cast (results of an Index::index on the chain)"""
    back = flow.backward([arg])
    roots = set()
    for b, t in body.calls():
        if t['dest']['l'] in back and cname(t) == 'core::ops::index::Index::index':
            roots.add(t['dest']['l'])
    if not roots:
        roots = {arg}
    return roots


def check_F2(ctx, facts, cfg, reader_sem=False):
    w = facts.body(RK + 'to_view_bytes')
    r = facts.body(RK + 'view::DataView::using')
    if w is None or r is None:
        ctx.bad('C12.F2', cfg + '|anchors', '', 'to_view_bytes / DataView::using not found (fail closed)')
        return
    wf, rf = Flow(w), Flow(r)
    wc, rc = list(w.calls()), list(r.calls())
    w_hash = [(b, t) for b, t in wc if cname(t) and cname(t).endswith('::hash') and 'crc' in cname(t) or cname(t) == 'crc32fast::hash']
    r_hash = [(b, t) for b, t in rc if cname(t) == 'crc32fast::hash' or (cname(t) and cname(t).endswith('::hash') and 'crc' in cname(t))]
    w_enc = [(b, t) for b, t in wc if cname(t) and re.match(r'core::num::<impl u\d+>::to_(le|be|ne)_bytes$', cname(t))]
    r_dec = [(b, t) for b, t in rc if cname(t) and re.match(r'core::num::<impl u\d+>::from_(le|be|ne)_bytes$', cname(t))]
    if reader_sem and (len(r_hash) != 1 or len(r_dec) != 1) and len(w_hash) == 1 and len(w_enc) == 1:
        # the reader was decided semantically (crc32fast::hash of the body against u32::from_le_bytes of the trailer): the writer must match that
        wname, ename = cname(w_hash[0][1]), cname(w_enc[0][1])
        ctx.ob('C12.F2', cfg + '|same-hash', wname == 'crc32fast::hash', site(w, w_hash[0][1]['cs']), 'writer hashes with %s, the reader with crc32fast::hash' % wname)
        ctx.ob('C12.F2', cfg + '|codec', ename == 'core::num::<impl u32>::to_le_bytes', site(w, w_enc[0][1]['cs']), 'trailer written with %s, read as u32 little-endian' % last_seg(ename))
        r_hash = r_dec = None
    ok = len(w_hash) == 1 and len(w_enc) == 1 and (r_hash is None or (len(r_hash) == 1 and len(r_dec) == 1))
    if not ok:
        ctx.bad('C12.F2', cfg + '|shape', site(w), 'writer/reader do not each use one hash and one integer codec (writer %d/%d, reader %d/%d): unrecognised idiom, fail closed'
                % (len(w_hash), len(w_enc), len(r_hash), len(r_dec)))
        return
    we = re.match(r'core::num::<impl (u\d+)>::to_(le|be|ne)_bytes$', cname(w_enc[0][1]))
    if r_hash is not None:
        same_hash = cname(w_hash[0][1]) == cname(r_hash[0][1])
        ctx.ob('C12.F2', cfg + '|same-hash', same_hash, site(r, r_hash[0][1]['cs']),
               'writer and reader hash with %s / %s' % (cname(w_hash[0][1]), cname(r_hash[0][1])))
        rd = re.match(r'core::num::<impl (u\d+)>::from_(le|be|ne)_bytes$', cname(r_dec[0][1]))
        ctx.ob('C12.F2', cfg + '|codec', we.groups() == rd.groups(), site(r, r_dec[0][1]['cs']),
               'trailer written as %s %s-endian, read as %s %s-endian' % (we.group(1), we.group(2), rd.group(1), rd.group(2)))
    width = int(we.group(1)[1:]) // 8
    # writer: the encoded checksum derives from the hash; append happens after into_inner; hash over the buffer appended to
    ext = [(b, t) for b, t in wc if cname(t) and cname(t).endswith('::extend_from_slice')]
    inner = [(b, t) for b, t in wc if cname(t) and cname(t).endswith('::into_inner')]
    good = bool(ext) and bool(inner)
    why = ''
    if good:
        eb, et = ext[0]
        good = w_hash[0][1]['dest']['l'] in wf.backward([op_local(et['args'][1])]) and w.dominates(inner[0][0], eb) \
            and w.dominates(w_hash[0][0], eb) and inner[0][1]['dest']['l'] in wf.backward([op_local(w_hash[0][1]['args'][0])]) \
            and inner[0][1]['dest']['l'] in wf.backward([op_local(et['args'][0])])
        # nothing else is appended after the trailer
        later = [t for b, t in wc if b in w.reachable_from([eb]) and b != eb and cname(t) and ('extend' in cname(t) or 'push' in cname(t))]
        good = good and not later
    if ext and inner:
        buf = inner[0][1]['dest']['l']
        muts = []
        for b, t in wc:
            if cname(t) and re.search(r'AlignedVec::(extend_from_slice|push|resize|reserve_exact|set_len|extend|truncate|clear|insert)$|Extend::extend$', cname(t)) \
                    and t['args'] and buf in (referent_roots(w, op_local(t['args'][0])) | wf.backward([op_local(t['args'][0])])) and w.dominates(inner[0][0], b):
                muts.append((t['cs'], last_seg(cname(t))))
        ctx.ob('C12.F2', cfg + '|writer-only-appends-trailer', len(muts) == 1, site(w),
               'after serialisation the buffer is modified exactly once: the trailer append' if len(muts) == 1 else
               'after serialisation the buffer is modified %d times (%s): bytes other than the trailer follow the archived root, but the reader takes the root '
               'from the end of everything before the trailer — the value observed differs from the one sent' % (len(muts), muts))
    ctx.ob('C12.F2', cfg + '|writer-order', bool(good), site(w),
           'writer: serialise -> into_inner -> hash(buffer) -> append encoded hash, nothing appended afterwards' if good else
           'writer does not append exactly hash(finished buffer) as the last bytes')
    if reader_sem:
        return
    # reader: both ranges cut at len - width; hash over RangeTo, trailer from RangeFrom
    subs = []
    for b, j, s in r.assigns():
        if s['rv']['k'] == 'bin' and s['rv']['op'].startswith('Sub'):
            subs.append(const_int(s['rv']['b']))
    rng = {}
    for b, j, s in r.assigns():
        if s['rv']['k'] == 'aggregate' and s['rv'].get('agg') == 'adt' and strip_generics(s['rv']['adt']).startswith('core::ops::range::Range'):
            rng[s['lhs']['l']] = last_seg(s['rv']['adt'])
    idx = [(b, t) for b, t in rc if cname(t) == 'core::ops::index::Index::index']
    hash_range = dec_range = None
    for b, t in idx:
        kind = rng.get(op_local(t['args'][1]))
        fw = rf.forward([t['dest']['l']], stop=[0])
        if op_local(r_hash[0][1]['args'][0]) in fw:
            hash_range = kind
        if op_local(r_dec[0][1]['args'][0]) in fw:
            dec_range = kind
    good = hash_range == 'RangeTo' and dec_range == 'RangeFrom' and subs and all(x == width for x in subs)
    ctx.ob('C12.F2', cfg + '|reader-ranges', bool(good), site(r),
           'reader hashes [..len-%d] and decodes the trailer from [len-%d..]' % (width, width) if good else
           'reader ranges: hash over %s, trailer from %s, offsets %s (expected RangeTo / RangeFrom at len-%d)' % (hash_range, dec_range, subs, width))
    # reader refuses frames shorter than the trailer before slicing
    short = False
    for c in comparisons(r):
        rhs_min = const_int(c['rhs_op'])
        if rhs_min is None and c['rhs'] is not None:
            for _b, mt in rc:
                if mt['dest']['l'] in rf.backward([c['rhs']]) and cname(mt) in ('core::cmp::max', 'core::cmp::Ord::max'):
                    ks = [const_int(a) for a in mt['args'] if const_int(a) is not None]
                    if ks:
                        rhs_min = max(ks)
        if c['rel'] in ('<', '<=') and rhs_min is not None and rhs_min >= width and c['lhs'] is not None \
                and derives_from_call(r, rf, c['lhs'], {'core::slice::<impl [T]>::len'}):
            if all(r.edge_dominates(c['false_edge'], b) for b, t in idx):
                short = True
    ctx.ob('C12.F2', cfg + '|reader-short-frame', short, site(r),
           'frames shorter than the trailer are refused before the buffer is sliced' if short else 'no length test dominates the slicing of the trailer')


def check_F3(ctx, facts, cfg):
    # generic from_body
    fbs = [b for b in facts.bodies.values() if b.crate == 'datacake_rpc' and b.kind == 'coroutine'
           and 'RequestContents>::from_body' in b.name and '<Msg as' in b.name]
    # SEM: the generic decoder interpreted against an admitted frame, a refused frame and an unreadable body (client_abs.check_from_body);
    # the structural clause below is the fallback
    import client_abs
    fb_sem = client_abs.check_from_body(ctx, facts, 'C12.SEM', cfg + '|')
    if not fbs and not fb_sem:
        ctx.bad('C12.F3', cfg + '|from_body', '', 'generic RequestContents::from_body not found (fail closed)')
    for fb in ([] if fb_sem else fbs):
        calls = list(fb.calls())
        using = [(b, t) for b, t in calls if cname(t) == RK + 'view::DataView::using']
        other = [(b, t) for b, t in calls if cname(t) in tables.RKYV_UNCHECKED or cname(t) in tables.RKYV_CHECKED]
        flow = Flow(fb)
        good = len(using) == 1 and not other
        if good:
            ub, ut = using[0]
            # error mapped: map_err on the result, whose closure returns Status::invalid()
            me = [(b, t) for b, t in calls if cname(t) == 'core::result::Result::map_err' and ut['dest']['l'] in flow.backward([op_local(t['args'][0])])]
            good = bool(me)
            if me:
                cl = op_local(me[0][1]['args'][1])
                cdef = None
                for _b, _j, s in fb.assigns():
                    if s['lhs']['l'] == cl and s['rv']['k'] == 'aggregate':
                        cdef = s['rv']['def']
                cb = facts.bodies.get(cdef) if cdef else None
                fn_item = (op_const(me[0][1]['args'][1]) or {}).get('fn')
                if cb is None and fn_item:
                    # a named function instead of a closure: Status::invalid itself (taking the error) or a function that returns it
                    cb = facts.body(strip_generics(fn_item))
                good = cb is not None and any(cname(t) == 'datacake_rpc::net::status::Status::invalid' for _b, t in cb.calls())
            else:
                # explicit match on the result: every failure return reached from its Err edge is built from Status::invalid()
                re_u = ResultEdges(fb, flow, ub)
                inv = [b for b, t in calls if cname(t) == 'datacake_rpc::net::status::Status::invalid']
                region = re_u.reachable_from_err() if re_u.inspected else set()
                errs = [b for b in err_return_blocks(fb) if b in region]
                starts = [e[1] for e in re_u.err]
                good = bool(inv) and bool(errs) and fb.must_pass(starts, inv, errs)
        ctx.ob('C12.F3', cfg + '|from_body', bool(good), site(fb),
               'request content comes only from DataView::using; its error becomes Status::invalid' if good else
               'generic from_body does not decode through the single guarded doorway / does not map the refusal to Status::invalid')
    # try_handle: on_message only on the success edge of from_body
    FB = 'datacake_rpc::request::RequestContents::from_body'
    OM = 'datacake_rpc::handler::Handler::on_message'
    ths = [b for b in facts.bodies.values() if b.crate == 'datacake_rpc' and b.kind == 'coroutine' and 'OpaqueMessageHandler>::try_handle' in b.name]
    if ths and not any(cname(t) == OM for th in ths for _b, t in th.calls()):
        # the typed dispatch lives elsewhere (a type-erasing closure, a helper): by role — the bodies of the crate that call Handler::on_message
        ths = [b for b in facts.bodies.values() if b.crate == 'datacake_rpc' and b.kind in ('coroutine', 'closure', 'fn', 'method') and not b.d['promoted'] and b.cfg is not None
               and any(cname(t) == OM for _b, t in b.calls())]
    # decoders: async functions of the crate every Ok return of which lies behind the success edge of from_body (the decode wrapped in a helper)
    decoders = set()
    for b in facts.bodies.values():
        if b.crate != 'datacake_rpc' or b.kind != 'coroutine' or not b.name.endswith('::{closure#0}') or b.cfg is None:
            continue
        fbc = [(bb, t) for bb, t in b.calls() if cname(t) == FB]
        oks_ = ok_return_blocks(b)
        if len(fbc) == 1 and oks_ and not any(cname(t) == OM for _b, t in b.calls()):
            re_d = ResultEdges(b, Flow(b), fbc[0][0])
            if re_d.inspected and all(re_d.ok_dominates(o) for o in oks_) and not any(o in re_d.reachable_from_err() for o in oks_):
                decoders.add(b.name[:-len('::{closure#0}')])
    if not ths:
        ctx.bad('C12.F3', cfg + '|try_handle', '', 'PhantomHandler::try_handle not found (fail closed)')
    for th in ths:
        flow = Flow(th)
        calls = list(th.calls())
        fb = [(b, t) for b, t in calls if cname(t) == FB or (cname(t) and strip_generics(cname(t)) in decoders)]
        om = [(b, t) for b, t in calls if cname(t) == OM]
        good = len(fb) == 1 and len(om) >= 1
        if good:
            re_ = ResultEdges(th, flow, fb[0][0])
            good = re_.inspected and all(re_.ok_dominates(b) for b, t in om) and not any(b in re_.reachable_from_err() for b, t in om)
        ctx.ob('C12.F3', cfg + '|try_handle', bool(good), site(th),
               'on_message is called only on the success edge of from_body (no handler runs on a refused frame)' if good else
               'a handler can run although the frame was refused')


def check_F4(ctx, facts, cfg):
    # the server half, by interpretation of one request (server_abs): reply unchanged with OK, error status / unknown-service status sent
    # as the serialisation of that very status with a non-OK code; the structural clauses below are the fallback
    import server_abs
    server_sem = server_abs.check_dispatch(ctx, facts, 'C12.SEM', cfg + '|')
    hm = [] if server_sem else [b for b in facts.bodies.values() if b.crate == 'datacake_rpc' and b.kind == 'coroutine' and b.name.startswith('datacake_rpc::net::server::handle_message')]
    for b in hm:
        flow = Flow(b)
        calls = list(b.calls())
        th = [(bb, t) for bb, t in calls if cname(t) == 'datacake_rpc::net::server::try_handle_request']
        cbr = [(bb, t) for bb, t in calls if cname(t) == 'datacake_rpc::net::server::create_bad_request']
        good = len(th) == 1 and len(cbr) == 1
        if good:
            re_ = ResultEdges(b, flow, th[0][0])
            good = re_.inspected and re_.err_dominates(cbr[0][0]) and not re_.ok_dominates(cbr[0][0])
        ctx.ob('C12.F4', cfg + '|server-error-to-status-frame', bool(good), site(b),
               'handler Err(status) is answered with create_bad_request(&status) on the error edge only' if good else 'handler errors are not turned into a status frame')
    cb = facts.body('datacake_rpc::net::server::create_bad_request')
    if cb is not None and not server_sem:
        calls = list(cb.calls())
        ser = any(cname(t) == RK + 'to_view_bytes' for _b, t in calls)
        # non-OK status code constant
        code_ok = False
        for _b, _j, s in cb.assigns():
            for o in rv_operands(s['rv']):
                c = op_const(o)
                if c and c.get('uneval', '').startswith('http::status::StatusCode::') and not c['uneval'].endswith('::OK'):
                    code_ok = True
        ctx.ob('C12.F4', cfg + '|status-frame', ser and code_ok, site(cb),
               'status is serialised with to_view_bytes and sent with a non-OK code' if ser and code_ok else 'status frame is not serialised through to_view_bytes / carries the OK code')
        # the frame sent is the serialisation of THIS status, on every path: no path reaches the response without serialising it, and
        # the body does not come out of a `static` (a frame cached across requests carries another request's code / message)
        sers = [b_ for b_, t in calls if cname(t) == RK + 'to_view_bytes']
        resp = [(b_, t) for b_, t in calls if cname(t) and re.search(r'http::response::(Response::new|Builder::body)$', cname(t))]
        flow_cb = Flow(cb, all_calls=True)
        from_static = []
        for b_, t in resp:
            back = flow_cb.backward([op_local(a) for a in t['args'] if op_local(a) is not None])
            for _b2, _j2, s2 in cb.assigns():
                if s2['lhs']['l'] in back:
                    for o in rv_operands(s2['rv']):
                        c = op_const(o)
                        if c and c.get('static'):
                            from_static.append(strip_generics(c['static']))
        every = bool(sers) and bool(resp) and cb.must_pass([0], sers, [b_ for b_, t in resp])
        ctx.ob('C12.F4', cfg + '|frame-is-this-status', every and not from_static, site(cb),
               'every error reply carries the serialisation of the status it was asked to send' if every and not from_static else
               'an error reply can be built without serialising the status at hand%s: the client receives another request\'s code / message' % (
                   ' (the body comes out of the static %s)' % sorted(set(from_static)) if from_static else ''))
    si = [b for b in facts.bodies.values() if b.crate == 'datacake_rpc' and b.kind == 'coroutine' and 'RpcContext' in b.name and 'send_inner' in b.name]
    # SEM: the client's exchange interpreted (client_abs.check_exchange): the reply is decoded by from_body from this response's body, an
    # error status through DataView::using from this response's body; the structural clause below is the fallback
    import client_abs
    if client_abs.check_exchange(ctx, facts, 'C12.SEM', cfg + '|client-'):
        si = []
    for b in si:
        grp = facts.group(facts.root_of(b))
        allcalls = [(g, bb, t) for g in grp for bb, t in g.calls()]
        using = [x for x in allcalls if cname(x[2]) == RK + 'view::DataView::using']
        fb = [x for x in allcalls if cname(x[2]) == 'datacake_rpc::request::RequestContents::from_body']
        good = bool(using) and bool(fb)
        ctx.ob('C12.F4', cfg + '|client-decodes-status', good, site(b),
               'client decodes the reply through from_body and a non-OK reply through DataView::<Status>::using' if good else 'client does not decode status frames through the guarded doorway')
        break


def check_F5(ctx, facts, cfg):
    """body collection: every chunk read from the HTTP body is appended to the buffer that is decoded"""
    bs = [b for b in facts.bodies.values() if b.crate == 'datacake_rpc' and b.kind == 'coroutine' and b.name.startswith(R_ + 'utils::to_aligned')]
    if not bs:
        ctx.bad('C12.F5', cfg + '|to_aligned', '', 'utils::to_aligned not found (fail closed)')
        return
    body = bs[0]
    flow = Flow(body)
    calls = list(body.calls())
    datas = [(b, t) for b, t in calls if cname(t) and (cname(t).endswith('HttpBody::data') or cname(t) == 'http_body::Body::data')]
    exts = [(b, t) for b, t in calls if cname(t) and cname(t).endswith('AlignedVec::extend_from_slice')]
    oks = ok_return_blocks(body)
    ctx.floor('C12.F5', cfg + ' chunk reads', len(datas), 3)
    for i, (db, dt) in enumerate(datas):
        fw = flow.forward([dt['dest']['l']], stop=[0])
        # the chunk payload: Continue payload of the `?` applied to the Some payload
        payload = set()
        starts = []
        for b, t in calls:
            if cname(t) == 'core::ops::try_trait::Try::branch' and op_local(t['args'][0]) in fw and body.dominates(db, b):
                re_ = ResultEdges(body, flow, b)
                for b2, j2, s2 in body.assigns():
                    if s2['rv']['k'] == 'use':
                        pl = op_place(s2['rv']['op'])
                        if pl and pl['l'] == t['dest']['l'] and any(isinstance(e, dict) and e.get('n') == 'Continue' for e in pl['p']):
                            payload |= flow.forward([s2['lhs']['l']], stop=[0])
                            starts.append(b2)
        E = [eb for eb, et in exts if op_local(et['args'][1]) in payload]
        good = bool(starts) and bool(E) and body.must_pass(starts, E, [o for o in oks if any(o in body.reachable_from([s]) for s in starts)])
        ctx.ob('C12.F5', '%s|chunk#%d-appended' % (cfg, i), good, site(body, dt['cs']),
               'a chunk read here is appended to the buffer on every path to Ok' if good else
               'a chunk read here can be left out of the buffer that is decoded (or is never appended): the handler / client observes a value '
               'different from the one sent, or a valid frame is refused')


R_ = 'datacake_rpc::'


def check(ctx):
    import frame_abs
    for cfg in CONFIGS:
        facts = ctx.facts(cfg)
        # SEM: the frame guard summarised over the three length classes x checksum match (frame_abs); subsumes F1 for that doorway
        # and the reader half of F2
        sem = frame_abs.check_frame(ctx, facts, 'C12.SEM', cfg + '|')
        using = [b.name for b in facts.bodies.values() if b.crate == 'datacake_rpc' and not b.d['promoted'] and b.name.endswith('::DataView::using')]
        check_F1(ctx, facts, cfg, sem_decided=using if sem else ())
        check_F2(ctx, facts, cfg, reader_sem=bool(sem))
        check_F3(ctx, facts, cfg)
        check_F4(ctx, facts, cfg)
        # F5.SEM: the body collector interpreted against bodies of 0..5 chunks and a failing read (body_abs); subsumes F5
        import body_abs
        if not body_abs.check_collector(ctx, facts, 'C12.F5.SEM', cfg + '|'):
            check_F5(ctx, facts, cfg)
    if ctx.tier == 'thorough':
        facts = ctx.facts('release')
        check_F1(ctx, facts, 'release')
        check_F3(ctx, facts, 'release')
