"""C14 — under network faults an RPC answers correctly or fails, never twice.  DESIGN §5 C14.
Only two necessary clauses are decided (X1, X2); the schedule-level statement is not."""
from analysis import *  # noqa
from facts import strip_generics, op_local, op_const, const_int, last_seg, ty_head
from engine import site
import c02

CONFIGS = ['prod', 'sim']
EXPLANATION = (
    'The property quantifies over fault schedules and is NOT decided as a whole. SEM (primary for the timeout clause; abstract interpretation of the MIR, no code runs): one '
    'exchange of the client interpreted with and without a configured timeout against eight outcomes of the network: the request is sent once, the caller gets what THIS response '
    'carries or a locally built status of the right kind, every network effect lies inside ONE tokio timeout of the configured duration, an elapsed bound becomes the timeout status. '
    'Decided, for both transports (hyper and the turmoil '
    'simulation feature): X1 no client-side resend — the transport call and each layer above it (send_parts, send_inner) is issued once '
    'per request: exactly one site, not inside any CFG cycle, so a failed attempt is never re-issued; X2 when a timeout is configured, '
    'every await of the exchange (request, reply body, status body — and any other await send_inner performs on that path, e.g. connection '
    'readiness) lies inside the future handed to tokio::time::timeout, and expiry maps to Status::timeout. X4 a cloned client handle keeps the configured timeout; X3 the lazily initialised shared connection is initialised atomically (get_or_init) or a lost '
    'initialisation race is handled, never unwrapped (concurrent first requests). NOT decided: reply/request pairing, exactly-once at the handler, timing.')
ASSUMPTIONS = ['hyper / h2 do not resend a request on their own for POST over HTTP/2 (retry of idempotent requests only)']

R = 'datacake_rpc::'
TRANSPORT = {'hyper::client::client::Client::request', 'hyper::client::conn::SendRequest::send_request'}
NET = {R + 'net::client::Channel::send_parts', R + 'request::RequestContents::from_body', R + 'utils::to_aligned'}


def json_key(x):
    import json
    return json.dumps(x, sort_keys=True)


def in_cycle(body, b):
    return any(b in body.reachable_from([s]) for s in body.succ(b))


def check_X1(ctx, facts, cfg):
    sp = [b for b in facts.bodies.values() if b.crate == 'datacake_rpc' and b.kind == 'coroutine' and b.name.startswith(R + 'net::client::Channel::send_parts')]
    if not sp:
        ctx.bad('C14.X1', cfg + '|send_parts', '', 'Channel::send_parts not found (fail closed)')
        return
    cg = CallGraph(facts)
    for body in sp:
        tc = [(b, t) for b, t in body.calls() if cname(t) in TRANSPORT]
        cyc = [b for b, t in tc if in_cycle(body, b)]
        if not tc:
            # the wire call behind a private transport trait / helper: every workspace body send_parts reaches (a few levels) is
            # searched, and the chain of calls leading there must not sit in a loop either
            reach = [rb for rb in cg.reach([body], bound=4) if rb.crate == 'datacake_rpc' and rb is not body]
            for rb in reach:
                for b2, t2 in rb.calls():
                    if cname(t2) in TRANSPORT:
                        tc.append((b2, t2))
                        if in_cycle(rb, b2):
                            cyc.append(b2)
            # calls from send_parts into that region must themselves not be in a loop
            names_ = {rb.name for rb in reach if any(cname(t2) in TRANSPORT for _b2, t2 in rb.calls())}
            for b1, t1 in body.calls():
                res_ = strip_generics(t1.get('resolved') or t1.get('callee') or '')
                if (res_ in names_ or res_ + '::{closure#0}' in names_) and in_cycle(body, b1):
                    cyc.append(b1)
        good = len(tc) == 1 and not cyc
        ctx.ob('C14.X1', cfg + '|transport-call', good, site(body, tc[0][1]['cs'] if tc else None),
               'one transport call (%s), outside any loop' % cname(tc[0][1]) if good else
               '%d transport call site(s), %d inside a loop: a request can be put on the wire more than once' % (len(tc), len(cyc)))
    layers = [('send_inner', R + 'net::client::Channel::send_parts'), ('send', None), ('send_owned', None)]
    for lname, callee in layers:
        bodies = [b for b in facts.bodies.values() if b.crate == 'datacake_rpc' and b.kind == 'coroutine'
                  and re.match(re.escape(R) + r'client::RpcContext::%s::\{closure#0\}$' % lname, b.name)]
        if not bodies:
            ctx.bad('C14.X1', '%s|%s' % (cfg, lname), '', 'RpcContext::%s not found (fail closed)' % lname)
            continue
        for body in bodies:
            grp = facts.group(body)
            want = callee or (R + 'client::RpcContext::send_inner')
            sites = [(g, b, t) for g in grp for b, t in g.calls() if cname(t) == want]
            cyc = [1 for g, b, t in sites if in_cycle(g, b)]
            good = len(sites) == 1 and not cyc
            ctx.ob('C14.X1', '%s|%s' % (cfg, lname), good, site(body),
                   '%s issues %s exactly once, outside any loop' % (lname, last_seg(want)) if good else
                   '%s has %d call site(s) of %s, %d inside a loop: the request can be re-issued after a failure' % (lname, len(sites), last_seg(want), len(cyc)))


def check_X2(ctx, facts, cfg):
    roots = [b for b in facts.bodies.values() if b.crate == 'datacake_rpc' and b.kind == 'coroutine'
             and re.match(re.escape(R) + r'client::RpcContext::send_inner::\{closure#0\}$', b.name)]
    if not roots:
        ctx.bad('C14.X2', cfg + '|send_inner', '', 'send_inner not found (fail closed)')
        return
    root = roots[0]
    grp = facts.group(root)
    # the timeout call and the future it bounds
    touts = [(g, b, t) for g in grp for b, t in g.calls() if cname(t) == 'tokio::time::timeout::timeout']
    if not touts:
        ctx.bad('C14.X2', cfg + '|timeout-call', site(root), 'no tokio::time::timeout in send_inner: a configured timeout bounds nothing')
        return
    tg, tb, tt = touts[0]
    tflow = Flow(tg)
    fut_back = tflow.backward([op_local(tt['args'][1])])
    # nested async blocks whose aggregate is the timed future
    timed_bodies = set()
    for blk, s, cdef, ops in closure_aggregates(tg):
        if s['lhs']['l'] in fut_back:
            cb = facts.bodies.get(cdef)
            if cb is not None:
                for x in facts.group(cb):
                    timed_bodies.add(x.defp)
    # the Some edge of the configured timeout
    some_reach = None

    def proj_key(p):
        return json_key(p)
    dur_back = tflow.backward([op_local(tt['args'][0])])
    for _b, _j, s in tg.assigns():
        if s['lhs']['l'] not in dur_back or s['rv']['k'] != 'use':
            continue
        pl = op_place(s['rv']['op'])
        if not pl:
            continue
        base = None
        for i, e in enumerate(pl['p']):
            if isinstance(e, dict) and e.get('n') == 'Some':
                base = {'l': pl['l'], 'p': pl['p'][:i]}
        if base is None:
            continue
        for b2, j2, s2 in tg.assigns():
            if s2['rv']['k'] == 'discr' and json_key(s2['rv']['pl']) == json_key(base):
                for sb, st in switch_on(tg, s2['lhs']['l']):
                    c = classify_switch(tg, sb, st, RESULT_HEADS['core::option::Option'])
                    for e in c['ok']:
                        if tg.edge_dominates(e, tb):
                            some_reach = (e, tg.reachable_from([e[1]]), sb)
    if some_reach is None:
        ctx.bad('C14.X2', cfg + '|some-edge', site(tg, tt['cs']), 'cannot relate the timeout call to the Some edge of the configured timeout (unrecognised idiom, fail closed)')
        return
    some_edge, some_blocks, switch_block = some_reach
    n = 0
    for g in grp:
        for b, t in g.calls():
            if cname(t) not in NET:
                continue
            n += 1
            what = last_seg(cname(t))
            key = '%s|%s|%s' % (cfg, what, 'in-timed-block' if g.defp in timed_bodies else 'outer')
            if g.defp in timed_bodies:
                ctx.ok('C14.X2', key, site(g, t['cs']), '%s is awaited inside the async block handed to tokio::time::timeout' % what)
                continue
            if g is tg and t['dest']['l'] in fut_back:
                ctx.ok('C14.X2', key, site(g, t['cs']), 'the future returned by %s is the one handed to tokio::time::timeout' % what)
                continue
            if g is tg:
                on_some_path = (b in some_blocks) or tg.dominates(b, switch_block) or (switch_block in tg.reachable_from([b])) \
                    or (b in tg.reachable_from([tb]))
                # reachable after the timed branch joined again also counts: it runs when a timeout is configured
                if not on_some_path:
                    ctx.ok('C14.X2', key, site(g, t['cs']), '%s is only on the no-timeout path' % what)
                    continue
            ctx.bad('C14.X2', key, site(g, t['cs']),
                    '%s is awaited outside the future given to tokio::time::timeout although a timeout is configured: if the peer stalls '
                    'after the response head (held link), the call neither answers nor times out within the bound' % what)
    ctx.floor('C14.X2', cfg + ' network awaits in the exchange', n, 3)
    # nothing else is awaited outside the timed future on a path where a timeout is configured
    for b, t in tg.calls():
        if cname(t) != 'core::future::into_future::IntoFuture::into_future':
            continue
        src = tflow.backward([op_local(t['args'][0])])
        if tt['dest']['l'] in src:
            continue            # the await of the timed future itself
        producer = [x for _b, x in tg.calls() if x['dest']['l'] in src and cname(x) and cname(x).startswith(R) and x['dest']['l'] != tt['dest']['l']]
        if any(cname(x) in NET for x in producer):
            continue            # already judged above
        only_none = not (b in some_blocks or tg.dominates(b, switch_block) or switch_block in tg.reachable_from([b]) or b in tg.reachable_from([tb]))
        if only_none:
            continue
        what = last_seg(cname(producer[0])) if producer else 'a future'
        ctx.bad('C14.X2', '%s|await-outside|%s' % (cfg, what), site(tg, t['cs']),
                '%s is awaited outside the future given to tokio::time::timeout although a timeout is configured: this wait (connection '
                'establishment, readiness, …) is not bounded by the caller\'s timeout' % what)
    # expiry -> Status::timeout
    mapped = False
    fw = tflow.forward([tt['dest']['l']], stop=[0])
    for b, t in tg.calls():
        if cname(t) == 'core::result::Result::map_err' and op_local(t['args'][0]) in fw:
            cdef, _ = c02.closure_def_of_local(tg, op_local(t['args'][1]))
            cb = facts.bodies.get(cdef) if cdef else None
            if cb and any(cname(x) == R + 'net::status::Status::timeout' for _b, x in cb.calls()):
                mapped = True
    if not mapped:
        # explicit match on the timed result: the Elapsed edge constructs Status::timeout
        aw_blocks = [b for b, t in tg.calls() if cname(t) == 'core::future::into_future::IntoFuture::into_future' and tt['dest']['l'] in tflow.backward([op_local(t['args'][0])])]
        for ab in aw_blocks:
            re_ = ResultEdges(tg, tflow, ab)
            for e in re_.err:
                region = tg.reachable_from([e[1]])
                if any(cname(x) == R + 'net::status::Status::timeout' and b in region and tg.edge_dominates(e, b) for b, x in tg.calls()):
                    mapped = True
    ctx.ob('C14.X2', cfg + '|elapsed-to-timeout-status', mapped, site(tg, tt['cs']),
           'expiry is reported as Status::timeout' if mapped else 'expiry of the timeout is not mapped to Status::timeout')


def check_X3(ctx, facts, cfg):
    """lazily initialised shared connection: initialisation is atomic (get_or_init / get_or_try_init), or a check-then-set whose
    `set` failure is handled — never check, await, set().unwrap(): two concurrent first requests would both pass the check and
    the loser's unwrap panics (neither an answer nor an error)"""
    import tables
    n = 0
    for body in facts.bodies.values():
        if body.crate != 'datacake_rpc' or body.d['promoted']:
            continue
        calls = list(body.calls())
        sets = [(b, t) for b, t in calls if cname(t) and re.search(r'once_cell::OnceCell::set$|OnceLock::set$|OnceCell::set$', cname(t))]
        inits = [(b, t) for b, t in calls if cname(t) and re.search(r'(OnceCell|OnceLock)::(get_or_init|get_or_try_init)$', cname(t))]
        n += len(sets) + len(inits)
        if not sets:
            continue
        flow = Flow(body)
        where = body.name.replace(R, '').replace('::{closure#0}', '')
        for sb, st in sets:
            fw = flow.forward([st['dest']['l']], stop=[0])
            unw = [cname(x) for _b, x in calls if cname(x) in tables.MAY_PANIC and x['args'] and op_local(x['args'][0]) in fw]
            gets = [b for b, t in calls if cname(t) and re.search(r'(OnceCell|OnceLock)::get$', cname(t)) and body.dominates(b, sb)]
            ys = [i for i, blk in enumerate(body.blocks) if blk['t']['k'] == 'yield' and not blk['cleanup']]
            awaited_between = any(y in body.reachable_from(gets or [0]) and sb in body.reachable_from([y]) for y in ys)
            good = not unw
            ctx.ob('C14.X3', '%s|%s|lazy-init' % (cfg, where), good, site(body, st['cs']),
                   'a lost initialisation race is handled (the set() result is not unwrapped)' if good else
                   'the shared connection cell is filled by check%s-then-set().%s: two requests issued concurrently on a channel that has not connected '
                   'yet both pass the check, and the second set() fails — its unwrap panics the requesting task instead of yielding a reply or an error'
                   % (' + await' if awaited_between else '', last_seg(unw[0])))
    if cfg == 'sim':
        ctx.floor('C14.X3', cfg + ' lazy connection initialisation sites', n, 1)


def check_X4(ctx, facts, cfg):
    """a configured timeout survives cloning the client handle: every field of the clone comes from the same field of the source"""
    cl = [b for b in facts.bodies.values() if b.crate == 'datacake_rpc' and not b.d['promoted'] and b.impl and 'RpcClient' in b.impl
          and 'core::clone::Clone' in b.impl and b.name.endswith('::clone')]
    adt = facts.adts.get(R + 'client::RpcClient')
    if not cl or not adt:
        ctx.bad('C14.X4', cfg + '|clone', '', 'Clone for RpcClient not found (fail closed)')
        return
    fnames = [f['name'] for f in adt['variants'][0]['fields']]
    cg = CallGraph(facts)
    body = cl[0]
    # the aggregate that builds the clone: in clone itself or in a constructor it delegates to
    found = None
    for b in cg.reach([body], bound=2):
        if b.crate != 'datacake_rpc':
            continue
        for _blk, _j, s in b.assigns():
            rv = s['rv']
            if rv['k'] == 'aggregate' and rv.get('agg') == 'adt' and strip_generics(rv['adt']) == R + 'client::RpcClient':
                found = (b, s)
    if found is None:
        ctx.bad('C14.X4', cfg + '|clone', site(body), 'cannot see how the clone is built (fail closed)')
        return
    b, s = found
    flow = Flow(b)
    fl = dict(zip(s['rv']['fields'], s['rv']['ops']))
    op = fl.get('timeout')
    src_ok = False
    l = op_local(op)
    if l is not None:
        for _blk, _j, s2 in b.assigns():
            if s2['lhs']['l'] in flow.backward([l]):
                for pl in rv_places(s2['rv']):
                    fs = [e['f'] for e in pl['p'] if isinstance(e, dict) and 'f' in e]
                    if pl['l'] == 1 and fs and fnames[fs[0]] == 'timeout':
                        src_ok = True
    ctx.ob('C14.X4', cfg + '|clone-keeps-timeout', src_ok and b is body or (src_ok and b is not body), site(b, s['cs']),
           'a cloned client keeps the configured timeout' if src_ok else
           'a cloned client does not inherit the configured timeout (the clone is built with %s): requests sent through the clone wait for ever on a held link'
           % ('a constant' if op_const(op) is not None or l is None else 'another value'))


def check(ctx):
    for cfg in CONFIGS:
        facts = ctx.facts(cfg)
        check_X1(ctx, facts, cfg)
        # SEM: one exchange of the client interpreted against every outcome of the network, with and without a configured timeout
        # (client_abs): every network effect inside the one time bound, the configured duration, elapsed -> timeout status, the request
        # sent once, the caller gets what THIS response carries.  Subsumes X2, which is evaluated only when a construct is not modelled.
        import client_abs
        if not client_abs.check_exchange(ctx, facts, 'C14.SEM', cfg + '|'):
            check_X2(ctx, facts, cfg)
        check_X3(ctx, facts, cfg)
        check_X4(ctx, facts, cfg)
