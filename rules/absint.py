"""P-ORDER — order-type abstract interpretation of MIR (DESIGN §4, added in phase 2).

The CRDT code touches timestamps ONLY through comparisons, copies and max/min.  Its behaviour on one key is therefore a
function of a finite abstract input: which of the two maps holds the key, and how the held stamp is ordered against the
incoming one (<, =, >).  This module evaluates a MIR body over that finite domain: timestamps are symbols with a given
order relation, maps hold at most the keys of a small symbolic key universe, every std container / Option / Entry
operation used on them is modelled explicitly (MODELS), calls into the workspace are evaluated recursively, and calls
whose receiver is an opaque component (the version vectors) are oracles whose boolean results are enumerated.

It is an abstract interpreter, not an execution of the program: no Rust code runs, values are order types, and anything
that is not modelled raises `Unmodelled` so that the calling rule can fall back (it never guesses).
"""
import itertools
from analysis import cname
from facts import strip_generics, last_seg, ty_head


class Unmodelled(Exception):
    pass


class NeedChoice(Exception):
    pass


class BitOverlap(Unmodelled):
    """two different field bits are OR-ed into one bit of a packed word"""


class PanicPath(Exception):
    """the interpreted path ends in a panic (assertion); the path is reported to the caller, not followed"""


class Cell:
    __slots__ = ('v',)

    def __init__(self, v=None):
        self.v = v

    def __repr__(self):
        return 'Cell(%r)' % (self.v,)


# ---- values ----------------------------------------------------------------------------------------------------------
# ('ts', sym) ('key', sym) ('bool', b) ('int', n|None) ('unit',) ('opaque', tag) ('ref', Cell)
# ('adt', name, variant_idx, [Cell]) ('tuple', [Cell]) ('closure', def, [Cell]) ('map', MapObj) ('vec', list[Cell-values])
# ('iter', IterObj) ('occ', MapObj, key) ('vac', MapObj, key) ('fnptr', name)

UNIT = ('unit',)


class MapObj:
    def __init__(self, kind, items=None):
        self.kind = kind            # 'btree' / 'hash'
        self.items = dict(items or {})   # key sym -> Cell(value)

    def clone(self):
        return MapObj(self.kind, {k: Cell(clone_value(c.v)) for k, c in self.items.items()})


class IterObj:
    """a lazily transformed sequence: base list of values + pending stages"""

    def __init__(self, items, stages=None):
        self.items = list(items)
        self.stages = list(stages or [])
        self.count = 0


def clone_value(v):
    t = v[0]
    if t == 'adt':
        return ('adt', v[1], v[2], [Cell(clone_value(c.v)) for c in v[3]])
    if t == 'tuple':
        return ('tuple', [Cell(clone_value(c.v)) for c in v[1]])
    if t == 'closure':
        return ('closure', v[1], [Cell(clone_value(c.v)) for c in v[2]])
    if t == 'map':
        return ('map', v[1].clone())
    if t == 'vec':
        return ('vec', [clone_value(x) for x in v[1]])
    if t == 'arr':
        return ('arr', [Cell(clone_value(c.v)) for c in v[1]])
    if t == 'set':
        return ('set', set(v[1]))
    return v


def ty_args_of_tuple(ty):
    """component types of a tuple type string `(A, B)` (top-level commas only)"""
    ty = ty.strip()
    if not (ty.startswith('(') and ty.endswith(')')):
        return []
    out, depth, cur = [], 0, ''
    for ch in ty[1:-1]:
        if ch in '<([':
            depth += 1
        elif ch in '>)]':
            depth -= 1
        if ch == ',' and depth == 0:
            out.append(cur.strip())
            cur = ''
        else:
            cur += ch
    if cur.strip():
        out.append(cur.strip())
    return out


def unkey(k):
    """the value a stored map / set key stands for (composite keys are encoded by Interp.key_of)"""
    if isinstance(k, str) and k.startswith('TS\x1f'):
        return ('ts', k[3:])
    if isinstance(k, str) and k.startswith('EN\x1f'):
        _t, nm, vi = k.split('\x1f')
        return ('adt', nm, int(vi), [])
    if isinstance(k, str) and k.startswith('T\x1f'):
        out = []
        for e in k.split('\x1f')[1:]:
            out.append(Cell(('addr', e[1:]) if e[0] == 'a' else ('int', int(e[1:])) if e[0] == 'i' else ('key', e[1:])))
        return ('tuple', out)
    return ('key', k)


def mk_option(val):
    if val is None:
        return ('adt', 'core::option::Option', 0, [])
    return ('adt', 'core::option::Option', 1, [Cell(val)])


class LenInt(int):
    """the length of an abstract collection under symbolic_len == 'bounded': the scenario's collection stands for collections of
    that shape and ANY size from the shown one upwards, so a comparison with a constant above the shown size is not decided"""
    pass


def mk_bool(b):
    return ('bool', bool(b))


INT_WIDTH = {'u8': 8, 'u16': 16, 'u32': 32, 'u64': 64, 'usize': 64, 'i8': 8, 'i16': 16, 'i32': 32, 'i64': 64, 'isize': 64, 'u128': 64, 'i128': 64}


def bv_const(n):
    return ('bv', tuple((n >> i) & 1 for i in range(64)))


def bv_field(name, width):
    return ('bv', tuple((name, i) for i in range(width)) + (0,) * (64 - width))


VARIANTS = {
    'core::option::Option': ['None', 'Some'],
    'core::result::Result': ['Ok', 'Err'],
    'alloc::collections::btree::map::entry::Entry': ['Vacant', 'Occupied'],
    'std::collections::hash::map::Entry': ['Occupied', 'Vacant'],
    'core::cmp::Ordering': ['Less', 'Equal', 'Greater'],
    'core::ops::control_flow::ControlFlow': ['Continue', 'Break'],
    'core::task::poll::Poll': ['Ready', 'Pending'],
}
ORDERING_DISCR = {0: -1, 1: 0, 2: 1}


class Order:
    """a total preorder on timestamp symbols given as {(a, b): '<' | '=' | '>'}; unknown pairs are incomparable"""

    def __init__(self, rel):
        self.rel = {}
        for (a, b), r in rel.items():
            self.rel[(a, b)] = r
            self.rel[(b, a)] = {'<': '>', '>': '<', '=': '='}[r]

    def cmp(self, a, b):
        if a == b:
            return '='
        r = self.rel.get((a, b))
        if r is None:
            raise Unmodelled('timestamps %s and %s are compared but their order is not part of the abstract input' % (a, b))
        return r


class Interp:
    def __init__(self, facts, order, oracle=None, step_limit=20000, opaque_call=None):
        self.facts = facts
        self.order = order
        self.choices = []
        self.choice_ix = 0
        self.steps = 0
        self.step_limit = step_limit
        self.oracle_log = []
        self.opaque_call = opaque_call     # fn(interp, name, args, term) -> value or None (not handled)
        self.poll_hook = None              # fn(interp, pin, future_value) -> output value or None
        self.bv_arith = None               # fn(interp, op, a, b) -> value or None (arithmetic on bit vectors)
        self.unknown_call = None           # fn(interp, name, args, term) -> value or None: last resort for calls without a model
        self.ext_binop = None              # (interp, op, a, b) -> value | None : arithmetic on a caller's own abstract values
        self.ext_cast = None               # (interp, value, target type) -> value | None
        self.assert_log = None             # {(file, line, kind): {'ok' | 'fail' | 'unknown'}} when a caller audits rustc-emitted checks
        self.bv_cmp = None                 # (a_bits, b_bits) -> '<' | '=' | '>' : an order on bit vectors supplied by the caller (hand-written Ord of a packed word)
        self.symbolic_len = False          # Vec::len of a non-empty abstract collection is an unknown number
        self.callable_hook = None          # fn(interp, callee_value, args) -> value or None: calling a value that is not a closure
        self.trace = []

    # ---- nondeterminism --------------------------------------------------------------------------------------------
    def choose(self, label):
        if self.choice_ix < len(self.choices):
            v = self.choices[self.choice_ix]
        else:
            raise NeedChoice(label)
        self.choice_ix += 1
        self.oracle_log.append((label, v))
        return v

    # ---- places ----------------------------------------------------------------------------------------------------
    def place_cell(self, frame, pl, create=True):
        c = frame[pl['l']]
        for e in pl['p']:
            v = c.v
            if e == '*':
                if v is None or v[0] != 'ref':
                    if v is not None and v[0] == 'adt' and v[1].endswith('Box'):
                        c = v[3][0]
                        continue
                    if v is not None and v[0] == 'opaque' and getattr(self, 'opaque_fields', False):
                        # (P-TRACE only) what an unknown value refers to is unknown
                        c = Cell(('opaque', str(v[1]) + '.*'))
                        continue
                    raise Unmodelled('deref of non-reference %r' % (v,))
                c = v[1]
            elif isinstance(e, dict) and 'f' in e:
                if v is None and create:
                    # writing a field of storage that is being initialised piecewise (MaybeUninit behind a fresh Box: `vec![x]`)
                    c.v = ('adt', '<uninit>', 0, [])
                    v = c.v
                if v is None:
                    raise Unmodelled('field of uninitialised value')
                if v[0] == 'adt':
                    fields = v[3]
                elif v[0] == 'tuple':
                    fields = v[1]
                elif v[0] == 'closure':
                    fields = v[2]
                elif v[0] in ('occ', 'vac'):
                    raise Unmodelled('field access into an entry handle')
                elif v[0] == 'ref' and e['f'] == 0:
                    continue       # Pin<&mut T> is modelled as the reference itself: `.0` (its pointer field) is transparent
                elif v[0] == 'opaque' and getattr(self, 'opaque_fields', False):
                    c = Cell(('opaque', '%s.%s' % (v[1], e['f'])))      # (P-TRACE) a field of an unknown value is unknown
                    continue
                elif v[0] == 'ts' and e['f'] == 0:
                    # the packed word of a stamp the domain keeps atomic: it orders like the stamp (C04.T1 / C10 decide that), so the
                    # word of a stamp is the stamp's own order symbol
                    c = Cell(('ts', v[1]))
                    continue
                else:
                    raise Unmodelled('field %s of %r' % (e['f'], v[0]))
                while len(fields) <= e['f']:
                    fields.append(Cell(None))
                c = fields[e['f']]
            elif isinstance(e, dict) and 'd' in e:
                pass          # downcast: same cell
            elif isinstance(e, dict) and 'i' in e:
                iv = frame[e['i']].v
                if v is None or v[0] != 'arr' or iv is None or iv[0] != 'int' or iv[1] is None or not (0 <= iv[1] < len(v[1])):
                    raise Unmodelled('indexing %r with %r' % (v[0] if v else None, iv))
                c = v[1][iv[1]]
            elif isinstance(e, dict) and 'ci' in e:
                if v is not None and v[0] == 'slice':
                    c = Cell(('byte', v[1], v[2], e['ci'], bool(e.get('end'))))
                    continue
                if v is not None and v[0] == 'vec':
                    # a slice pattern / constant index on a vector of known elements (read access)
                    i = (len(v[1]) - e['ci']) if e.get('end') else e['ci']
                    if not (0 <= i < len(v[1])):
                        raise Unmodelled('constant index out of range')
                    x_ = v[1][i]
                    c = x_ if isinstance(x_, Cell) else Cell(x_)
                    continue
                if v is None or v[0] != 'arr':
                    raise Unmodelled('constant index into %r' % (v[0] if v else None,))
                i = (len(v[1]) - e['ci']) if e.get('end') else e['ci']
                if not (0 <= i < len(v[1])):
                    raise Unmodelled('constant index out of range')
                c = v[1][i]
            else:
                raise Unmodelled('projection %r' % (e,))
        return c

    def operand(self, frame, op):
        if op['k'] == 'const':
            c = op['c']
            ty = c.get('ty', '')
            if ty == 'bool' and 'val' in c:
                return mk_bool(c['val'] != '0')
            if 'val' in c:
                try:
                    sc_ = getattr(self, 'scale_consts', None)
                    if sc_ and c.get('uneval') and str(c['uneval']).startswith('datacake') and ty in ('usize', 'u32', 'u64') and int(c['val']) >= 3:
                        # LIMIT SCALING: a NAMED size limit of the workspace (a batch / chunk / page / request size) is small next to the
                        # collection the scenario shows — the shown three elements stand for "more than the limit, and not a multiple of it"
                        self.trace.append(('scaled-const', strip_generics(c['uneval']), int(c['val']), sc_))
                        return ('int', sc_)
                    return ('int', int(c['val']))
                except ValueError:
                    return ('int', None)
            if ty == '()':
                return UNIT
            if ty in ('usize', 'u8', 'u16', 'u32', 'u64', 'u128', 'isize', 'i8', 'i16', 'i32', 'i64', 'i128'):
                return ('int', None)
            if 'fn' in c:
                return ('fnptr', strip_generics(c.get('fn_resolved') or c['fn']))
            if 'str' in c:
                if getattr(self, 'literal_strings', False):
                    return ('ref', Cell(('sstr', [('lit', ord(ch)) for ch in c['str']])))      # (names_abs: text as a sequence of characters)
                return ('ref', Cell(('opaque', 'str')))
            if c.get('uneval'):
                nm = strip_generics(c['uneval'])
                # a constant whose (small, pure) defining body is in the facts: evaluate it — `&Observation::Fresh`, a lookup
                # table of (offset, width) pairs — rather than treating it as an unknown
                cb_name = ('%s::{promoted#%d}' % (c['uneval'], c['promoted'])) if c.get('promoted') is not None else c['uneval']
                cb = self.facts.bodies.get(cb_name) or (self.facts.body(nm) if c.get('promoted') is None else None)
                if cb is not None and len(cb.blocks) <= 12 and getattr(cb, 'owner_kind', cb.kind) in ('fn', 'method', 'const', 'static', 'anonconst', 'coroutine', 'closure', 'promoted') \
                        and (c.get('promoted') is not None or cb.kind in ('const', 'anonconst')):
                    cache = self.__dict__.setdefault('const_cache', {})
                    if cb_name not in cache:
                        try:
                            saved = (self.cur if hasattr(self, 'cur') else None)
                            cache[cb_name] = self.run_body(cb, [], 1)
                            if saved is not None:
                                self.cur = saved
                        except (Unmodelled, PanicPath, NeedChoice, IndexError, KeyError, TypeError):
                            cache[cb_name] = None
                    if cache[cb_name] is not None:
                        cv = cache[cb_name]
                        dv_ = self.deref_all(cv)
                        if dv_ is not None and dv_[0] in ('adt', 'arr', 'tuple', 'int', 'bool'):
                            return clone_value(cv) if cv[0] != 'ref' else ('ref', Cell(clone_value(dv_)))
                if c.get('promoted') is not None:
                    # a promoted constant of this body: what it refers to (e.g. a named constant of the crate)
                    pb = self.facts.bodies.get('%s::{promoted#%d}' % (c['uneval'], c['promoted']))
                    if pb is not None:
                        for _b, _j, s_ in pb.assigns():
                            o = s_['rv'].get('op') if s_['rv']['k'] == 'use' else None
                            if o and o.get('k') == 'const' and o['c'].get('uneval'):
                                nm = strip_generics(o['c']['uneval'])
                v = ('const', nm, ty)
                return ('ref', Cell(v)) if ty.startswith('&') else v
            if ty.startswith('&'):
                return ('ref', Cell(('opaque', 'const:' + ty)))
            return ('opaque', 'const:' + ty)
        cell = self.place_cell(frame, op['pl'])
        v = cell.v
        if v is None:
            raise Unmodelled('read of uninitialised place')
        if op['k'] == 'copy':
            return clone_value(v) if v[0] in ('tuple', 'adt') else v
        return v      # move

    def deref_all(self, v):
        while v is not None and v[0] == 'ref':
            v = v[1].v
        return v

    # ---- rvalues ---------------------------------------------------------------------------------------------------
    def rvalue(self, frame, rv):
        k = rv['k']
        if k == 'use':
            return self.operand(frame, rv['op'])
        if k in ('ref', 'rawptr'):
            return ('ref', self.place_cell(frame, rv['pl']))
        if k == 'copyderef':
            v = self.place_cell(frame, rv['pl']).v
            return v
        if k == 'cast':
            v = self.operand(frame, rv['op'])
            if self.ext_cast is not None:
                r_ = self.ext_cast(self, v, rv.get('ty'))
                if r_ is not None:
                    return r_
            if v[0] == 'bv':
                w = INT_WIDTH.get(rv.get('ty'))
                if w is None:
                    raise Unmodelled('cast of a bit vector to %s' % rv.get('ty'))
                return ('bv', tuple(v[1][:w]) + (0,) * (64 - w))
            return v
        if k == 'discr':
            v = self.place_cell(frame, rv['pl']).v
            if v is None or v[0] != 'adt':
                raise Unmodelled('discriminant of %r' % (v,))
            if v[1] == 'core::cmp::Ordering':
                return ('int', ORDERING_DISCR[v[2]])
            return ('int', v[2])
        if k == 'aggregate':
            ops = [Cell(self.operand(frame, o)) for o in rv['ops']]
            a = rv['agg']
            if a == 'tuple':
                return ('tuple', ops) if ops else UNIT
            if a == 'adt':
                hk_ = getattr(self, 'adt_hook', None)      # (interp, adt, variant, cells) -> value | None : a caller's atomic domain (a stamp built from its word)
                if hk_ is not None:
                    r_ = hk_(self, strip_generics(rv['adt']), rv['variant'], ops)
                    if r_ is not None:
                        return r_
                return ('adt', strip_generics(rv['adt']), rv['variant'], ops)
            if a in ('closure', 'coroutine', 'coroutine_closure'):
                return ('closure', rv['def'], ops)
            if a == 'array':
                return ('arr', ops)
            raise Unmodelled('aggregate %s' % a)
        if k == 'bin':
            a, b = self.operand(frame, rv['a']), self.operand(frame, rv['b'])
            return self.binop(rv['op'], a, b)
        if k == 'un':
            a = self.operand(frame, rv['a'])
            if rv['op'] == 'Not' and a[0] == 'bool':
                return ('bool', None) if a[1] is None else mk_bool(not a[1])
            if rv['op'] == 'PtrMetadata':
                d = self.deref_all(a)
                if d is not None and d[0] == 'slice':
                    return ('lenv', d[2][1] - d[1][1], d[2][2] - d[1][2])
                if d is not None and d[0] == 'vec':
                    return ('int', None)
                if d is not None and d[0] == 'arr':
                    return ('int', len(d[1]))
            if a[0] == 'int':
                return ('int', None)
            raise Unmodelled('unary %s on %r' % (rv['op'], a))
        if k == 'len':
            return ('int', None)
        raise Unmodelled('rvalue %s' % k)

    def binop(self, op, a, b):
        if self.ext_binop is not None:
            r_ = self.ext_binop(self, op, a, b)
            if r_ is not None:
                return r_
        if a[0] == 'bv' or b[0] == 'bv' or (self.bv_arith is not None and (a[0] == 'sym' or b[0] == 'sym')):
            return self.bv_binop(op, a, b)
        if a[0] == 'ts' and b[0] == 'ts' and op in ('Lt', 'Le', 'Gt', 'Ge', 'Eq', 'Ne'):
            return mk_bool(self.ts_rel({'Lt': 'lt', 'Le': 'le', 'Gt': 'gt', 'Ge': 'ge', 'Eq': 'eq', 'Ne': 'ne'}[op], a, b))
        if a[0] == 'bool' and b[0] == 'bool':
            f = {'Eq': lambda x, y: x == y, 'Ne': lambda x, y: x != y, 'BitAnd': lambda x, y: x and y,
                 'BitOr': lambda x, y: x or y, 'BitXor': lambda x, y: x != y}.get(op)
            if f:
                return mk_bool(f(a[1], b[1]))
        if a[0] == 'int' and b[0] == 'bool' and b[1] is not None:
            b = ('int', 1 if b[1] else 0)
        if a[0] == 'bool' and b[0] == 'int' and a[1] is not None:
            a = ('int', 1 if a[1] else 0)
        if a[0] == 'int' and b[0] == 'int':
            if a[1] is None or b[1] is None:
                if op in ('Lt', 'Le', 'Gt', 'Ge', 'Eq', 'Ne'):
                    return ('bool', None)        # unknown; only resolved (by enumeration) if control flow depends on it
                if op.endswith('WithOverflow'):
                    return ('tuple', [Cell(('int', None)), Cell(mk_bool(False))])
                return ('int', None)
            x, y = a[1], b[1]
            if op in ('Lt', 'Le', 'Gt', 'Ge', 'Eq', 'Ne') and (isinstance(x, LenInt) != isinstance(y, LenInt)):
                ln, k = (x, y) if isinstance(x, LenInt) else (y, x)
                if k > ln:
                    return ('bool', None)        # a real collection of this shape may be as large as the constant (a batch limit, a threshold)
            if op in ('Lt', 'Le', 'Gt', 'Ge', 'Eq', 'Ne'):
                return mk_bool({'Lt': x < y, 'Le': x <= y, 'Gt': x > y, 'Ge': x >= y, 'Eq': x == y, 'Ne': x != y}[op])
            if op.endswith('WithOverflow'):
                v = {'AddWithOverflow': x + y, 'SubWithOverflow': x - y, 'MulWithOverflow': x * y}.get(op)
                return ('tuple', [Cell(('int', v)), Cell(mk_bool(v is not None and v < 0))])
            if op in ('Div', 'Rem') and x is not None and y is not None:
                if y == 0:
                    raise PanicPath('division by zero')
                return ('int', x // y if op == 'Div' else x % y)
            if op in ('Shl', 'ShlUnchecked', 'Shr', 'ShrUnchecked', 'BitAnd', 'BitOr', 'BitXor') and x >= 0 and y >= 0:
                if op.startswith('Shl'):
                    return ('int', (x << y) & ((1 << 64) - 1) if y < 128 else None)
                if op.startswith('Shr'):
                    return ('int', x >> y)
                return ('int', {'BitAnd': x & y, 'BitOr': x | y, 'BitXor': x ^ y}[op])
            try:
                return ('int', {'Add': x + y, 'Sub': x - y, 'Mul': x * y}[op])
            except KeyError:
                return ('int', None)
        if a[0] in ('ts', 'dur') and b[0] == a[0] and op in ('Lt', 'Le', 'Gt', 'Ge', 'Eq', 'Ne'):
            return mk_bool(self.ts_rel(op, a, b))
        if a[0] == 'sym' or b[0] == 'sym':
            if op in ('Lt', 'Le', 'Gt', 'Ge', 'Eq', 'Ne'):
                return ('bool', None)
            return ('sym', (op, a, b))
        if a[0] in ('key', 'node') and b[0] == a[0] and op in ('Eq', 'Ne'):
            return mk_bool((a[1] == b[1]) == (op == 'Eq'))
        raise Unmodelled('binary %s on %s, %s' % (op, a[0], b[0]))

    def bv_binop(self, op, a, b):
        if op in ('Lt', 'Le', 'Gt', 'Ge', 'Eq', 'Ne') and self.bv_cmp is not None and a[0] == 'bv' and b[0] == 'bv':
            r = self.bv_cmp(a[1], b[1])
            return mk_bool({'Lt': r == '<', 'Le': r in '<=', 'Gt': r == '>', 'Ge': r in '>=', 'Eq': r == '=', 'Ne': r != '='}[op])
        if op in ('Lt', 'Le', 'Gt', 'Ge', 'Eq', 'Ne'):
            def desc(v):
                if v[0] == 'int' and v[1] is not None:
                    return ('const', v[1])
                if v[0] == 'bv':
                    names = {x[0] for x in v[1] if isinstance(x, tuple)}
                    if not names and all(x in (0, 1) for x in v[1]):
                        return ('const', sum(bit << i for i, bit in enumerate(v[1])))
                    if len(names) == 1 and not any(x == 1 for x in v[1]):
                        return ('field', next(iter(names)))
                return ('other',)
            self.trace.append(('bv-cmp', op, desc(a), desc(b)))      # a range check on a field: which field, against which constant
            return ('bool', None)
        if op in ('Shl', 'ShlUnchecked', 'Shr', 'ShrUnchecked'):
            if a[0] != 'bv' or b[0] != 'int' or b[1] is None:
                raise Unmodelled('shift by a non-constant')
            n = b[1]
            bits = a[1]
            if op.startswith('Shl'):
                return ('bv', ((0,) * n + tuple(bits))[:64])
            return ('bv', tuple(bits[n:]) + (0,) * min(n, 64))
        if a[0] == 'int' and a[1] is not None:
            a = bv_const(a[1])
        if b[0] == 'int' and b[1] is not None:
            b = bv_const(b[1])
        if op in ('Div', 'Mul', 'Rem', 'Add', 'Sub', 'MulWithOverflow', 'AddWithOverflow') and self.bv_arith is not None:
            r = self.bv_arith(self, op, a, b)
            if r is not None:
                return r
        if a[0] != 'bv' or b[0] != 'bv':
            raise Unmodelled('binary %s on %s, %s' % (op, a[0], b[0]))
        out = []
        for i, (x, y) in enumerate(zip(a[1], b[1])):
            if op == 'BitAnd':
                if x == 0 or y == 0:
                    out.append(0)
                elif x == 1:
                    out.append(y)
                elif y == 1:
                    out.append(x)
                elif x == y:
                    out.append(x)
                else:
                    raise Unmodelled('bit %d is the AND of two different symbolic bits' % i)
            elif op == 'BitOr':
                if x == 0:
                    out.append(y)
                elif y == 0:
                    out.append(x)
                elif x == 1 or y == 1:
                    out.append(1)
                elif x == y:
                    out.append(x)
                else:
                    raise BitOverlap('bit %d of the word is the OR of %s bit %d and %s bit %d: two fields overlap' % (i, x[0], x[1], y[0], y[1]))
            elif op == 'BitXor':
                if x == 0:
                    out.append(y)
                elif y == 0:
                    out.append(x)
                else:
                    raise Unmodelled('xor of symbolic bits')
            else:
                raise Unmodelled('binary %s on bit vectors' % op)
        return ('bv', tuple(out))

    def ts_rel(self, op, a, b):
        r = self.order.cmp(a[1], b[1])
        return {'Lt': r == '<', 'Le': r in '<=', 'Gt': r == '>', 'Ge': r in '>=', 'Eq': r == '=', 'Ne': r != '=',
                'lt': r == '<', 'le': r in '<=', 'gt': r == '>', 'ge': r in '>=', 'eq': r == '=', 'ne': r != '='}[op]

    # ---- execution -------------------------------------------------------------------------------------------------
    def run_body(self, body, args, depth=0, mono=None):
        # `mono`: how the calls of a GENERIC body resolve under the concrete type arguments of this activation (extractor `mono`)
        if not hasattr(self, 'mono_by_def'):
            self.mono_by_def = {}
        if mono is None:
            mono = self.mono_by_def.get(body.defp)
        mono_map = {}
        for ent_ in mono or ():
            if ent_[0] == 'c':
                self.mono_by_def[ent_[1]] = ent_[2]
            else:
                mono_map[ent_[0]] = ent_
        if depth > 12:
            raise Unmodelled('call depth')
        body = getattr(self.facts, 'pristine', {}).get(body.defp, body)
        frame = [Cell(None) for _ in body.locals]
        for i, a in enumerate(args):
            frame[i + 1].v = a
        b = 0
        while True:
            self.steps += 1
            if self.steps > self.step_limit:
                raise Unmodelled('step limit (unbounded loop over abstract state?) in %s' % body.name)
            blk = body.blocks[b]
            self.where = (body.name, b)
            for s in blk['s']:
                if s['k'] == 'assign':
                    if s['rv']['k'] == 'repeat' and not s['lhs']['p']:
                        import re as _re
                        m = _re.search(r';\s*(\d+)\]\s*$', body.local_ty(s['lhs']['l']))
                        if not m:
                            raise Unmodelled('array repeat of unknown length')
                        e = self.operand(frame, s['rv']['op'])
                        frame[s['lhs']['l']].v = ('arr', [Cell(clone_value(e)) for _ in range(int(m.group(1)))])
                        continue
                    v = self.rvalue(frame, s['rv'])
                    self.place_cell(frame, s['lhs']).v = v
                elif s['k'] == 'setdiscr':
                    raise Unmodelled('set discriminant')
            t = blk['t']
            k = t['k']
            if k == 'goto':
                b = t['target']
            elif k == 'return':
                return frame[0].v if frame[0].v is not None else UNIT
            elif k == 'drop':
                dh = getattr(self, 'drop_hook', None)
                if dh is not None and not t['pl']['p']:
                    dh(self, body, t['pl']['l'])
                b = t['target']
            elif k == 'assert':
                # (rustc's own checks are not followed to their panic edge; what the check saw is recorded for audits of may-panic sites)
                if self.assert_log is not None:
                    try:
                        cv = self.operand(frame, t['cond'])
                    except (Unmodelled, KeyError, IndexError, TypeError):
                        cv = None
                    if cv is not None and cv[0] == 'int' and cv[1] in (0, 1):
                        cv = mk_bool(bool(cv[1]))
                    res_ = 'unknown' if cv is None or cv[0] != 'bool' or cv[1] is None else ('ok' if bool(cv[1]) == bool(t['expected']) else 'fail')
                    self.assert_log.setdefault((body.file, t['cs'], t['msg']), set()).add(res_)
                b = t['target']
            elif k == 'switch':
                v = self.operand(frame, t['discr'])
                if v[0] == 'bool':
                    if v[1] is None:
                        v = mk_bool(self.choose('int-compare'))
                    n = 1 if v[1] else 0
                elif v[0] == 'int' and v[1] is not None:
                    n = v[1]
                elif getattr(self, 'ext_switch', None) is not None:
                    n = self.ext_switch(self, v, [int(val) for val, _bb in t['targets']])      # (a summary's own abstract values: the target it takes, or -1 for `otherwise`)
                else:
                    raise Unmodelled('switch on %r in %s' % (v, body.name))
                tgt = None
                for val, bb in t['targets']:
                    iv = int(val)
                    if iv >= (1 << 127):
                        iv -= (1 << 128)
                    if iv == n or (n < 0 and iv == (n & ((1 << 64) - 1))) or (n < 0 and iv == (n & 0xff)):
                        tgt = bb
                b = tgt if tgt is not None else t['otherwise']
            elif k == 'call':
                args_v = [self.operand(frame, a) for a in t['args']]
                self.cur = (body, t)
                self.cur_func = None
                if 'callee' not in t and t.get('func') and t['func'].get('k') in ('copy', 'move'):
                    self.cur_func = self.operand(frame, t['func'])
                ent_ = mono_map.get(b)
                sub_ = t.get('mono')
                tc = t
                if ent_ is not None and not t.get('resolved'):
                    tc = dict(t)
                    if ent_[1]:
                        tc['resolved'] = ent_[1]
                    tc['gargs'] = ent_[2]
                    sub_ = ent_[3] if len(ent_) > 3 and ent_[3] else sub_
                    self.cur = (body, tc)
                r = self.call(body, tc, args_v, depth, sub_)
                if t['target'] is None:
                    raise Unmodelled('diverging call %s' % cname(t))
                self.place_cell(frame, t['dest']).v = r
                b = t['target']
            elif k == 'unreachable':
                raise Unmodelled('unreachable reached in %s' % body.name)
            else:
                raise Unmodelled('terminator %s' % k)

    def call_closure(self, clo, args, depth):
        clo = self.deref_all(clo)
        if clo[0] == 'fnptr':
            body = self.facts.body(clo[1])
            if body is None:
                # a tuple-variant / tuple-struct constructor used as a function (`.map_err(StoreError::ConsistencyError)`)
                nm_ = clo[1]
                if '::' in nm_:
                    an_, vn_ = nm_.rsplit('::', 1)
                    a_ = self.facts.adts.get(an_)
                    if a_ is not None:
                        for vi_, v_ in enumerate(a_['variants']):
                            if v_['name'] == vn_ and len(v_['fields']) == len(args):
                                return ('adt', an_, vi_, [Cell(x) for x in args])
                    a_ = self.facts.adts.get(nm_)
                    if a_ is not None and a_['kind'] == 'struct' and len(a_['variants'][0]['fields']) == len(args):
                        return ('adt', nm_, 0, [Cell(x) for x in args])
                return self.model_call(clo[1], args, None, depth)
            return self.run_body(body, args, depth + 1)
        if clo[0] != 'closure':
            if self.callable_hook is not None:
                r = self.callable_hook(self, clo, args)
                if r is not None:
                    return r
            raise Unmodelled('call of non-closure %r' % (clo[0],))
        body = self.facts.bodies.get(clo[1])
        if body is None:
            raise Unmodelled('closure body %s not found' % clo[1])
        # closure bodies take (self-or-ref-to-self, args...) ; captured variables are fields of _1 (possibly behind a ref)
        self_ty = body.local_ty(1)
        selfv = ('ref', Cell(clo)) if self_ty.startswith('&') else clo
        return self.run_body(body, [selfv] + list(args), depth + 1)

    def call(self, body, t, args, depth, mono=None):
        name = cname(t)
        if name is None:
            # indirect call through a local holding a function pointer / closure
            fv = getattr(self, 'cur_func', None)
            if fv is not None:
                fv = self.deref_all(fv)
                if fv is not None and fv[0] in ('fnptr', 'closure'):
                    return self.call_closure(fv, args, depth)
            raise Unmodelled('indirect call')
        if self.opaque_call is not None:
            r = self.opaque_call(self, name, args, t, body)
            if r is not None:
                return r
        res = strip_generics(t.get('resolved') or t.get('callee'))
        # (the exact path first: two impls of one trait for SmallVec<[A; 4]> and SmallVec<[B; 4]> share the stripped name)
        wb = self.facts.bodies.get(t.get('resolved')) if t.get('resolved') else None
        if wb is None:
            wb = self.facts.body(res) if res else None
        if wb is None and name != res:
            wb = self.facts.body(name)
        if wb is None and args and t.get('trait') and name.startswith('datacake'):
            # a required method of a workspace trait called on `self` inside a PROVIDED method that is interpreted on its own (no
            # instantiation to resolve it by): the implementation for the receiver's type
            rv_ = self.deref_all(args[0])
            import re as _re
            tr_, me_ = name.rsplit('::', 1)
            recv_ = None
            if rv_ is not None and rv_[0] == 'adt':
                recv_ = _re.escape(rv_[1])
            elif rv_ is not None and rv_[0] == 'map':
                recv_ = 'alloc::collections::btree::map::BTreeMap' if rv_[1].kind == 'btree' else 'std::collections::hash::map::HashMap'
                recv_ = _re.escape(recv_)
            elif rv_ is not None and rv_[0] == 'vec':
                recv_ = '(alloc::vec::Vec|smallvec::SmallVec)'
            if recv_ is not None:
                pat = _re.compile(r'^<%s(<.*>)? as %s(<.*>)?>::%s$' % (recv_, _re.escape(tr_), _re.escape(me_)))
                cands = [b_ for n_, b_ in self.facts.bodies.items() if n_.startswith('<') and pat.match(n_) and not b_.d['promoted']]
                if len(cands) == 1:
                    wb = cands[0]
            if wb is None:
                # a workspace trait method that cannot be resolved must never be taken for a std operation of the same name
                # (`StampMap::take` is not `Option::take`): decline
                raise Unmodelled('call to the workspace trait method %s could not be resolved to an implementation' % name)
        if wb is not None and wb.derived and args:
            # a derived impl (Ord / PartialEq / Clone / Hash ...) on a value the abstract domain keeps atomic (a stamp, a key):
            # the derived body would take the atom apart; its meaning is the trait operation on the atom
            a0_ = self.deref_all(args[0])
            if a0_ is not None and a0_[0] in ('ts', 'dur', 'key', 'sym', 'bv', 'addr', 'node'):
                return self.model_call(name, args, t, depth)
        if wb is not None and wb.kind in ('fn', 'method', 'assoc_fn', 'function') and wb.crate in self.facts.crates:
            return self.run_body(wb, args, depth + 1, mono)
        if wb is not None and wb.kind == 'coroutine' and wb.crate in self.facts.crates and len(args) == 2:
            # the poll of an awaited workspace `async fn` / async block: run its body to completion (awaited futures
            # resolve at once in this sequential model) on the pinned state
            return self.poll_coroutine(args[0], depth)
        return self.model_call(name, args, t, depth)

    def poll_coroutine(self, pin, depth):
        st = self.deref_all(pin)
        if st is not None and st[0] in ('future', 'orx') and self.poll_hook is not None:
            r = self.poll_hook(self, pin, st)
            if r is not None:
                return ('adt', 'core::task::poll::Poll', 0, [Cell(r)])
        if st is None or st[0] != 'closure':
            raise Unmodelled('poll of %r' % (st[0] if st else None,))
        kb = self.facts.bodies.get(st[1])
        if kb is None:
            raise Unmodelled('coroutine body %s not found' % st[1])
        r = self.run_body(kb, [st, ('opaque', 'cx')], depth + 1)
        return ('adt', 'core::task::poll::Poll', 0, [Cell(r)])

    # ---- models ----------------------------------------------------------------------------------------------------
    def map_of(self, v):
        v = self.deref_all(v)
        if v is None or v[0] != 'map':
            raise Unmodelled('expected a map, got %r' % (v[0] if v else None,))
        return v[1]

    def key_of(self, v):
        v = self.deref_all(v)
        if v is not None and v[0] == 'adt' and not v[3] and v[1] not in ('core::option::Option',):
            return 'EN\x1f%s\x1f%d' % (v[1], v[2])          # a field-less enum value (a consistency level, a kind) as a key
        if v is not None and v[0] == 'tuple':
            # a composite key (id, address): encoded so that keys stay hashable and ordered; unkey() rebuilds the tuple
            enc = []
            for c in v[1]:
                x = self.deref_all(c.v)
                if x is not None and x[0] == 'key' and '\x1f' not in str(x[1]):
                    enc.append('k' + str(x[1]))
                elif x is not None and x[0] == 'addr':
                    enc.append('a' + str(x[1]))
                elif x is not None and x[0] == 'int' and x[1] is not None:
                    enc.append('i%d' % x[1])
                else:
                    raise Unmodelled('map key is not a symbolic key: %r' % (v,))
            return 'T\x1f' + '\x1f'.join(enc)
        if v is not None and v[0] == 'adt' and v[1] == 'alloc::borrow::Cow' and len(v[3]) == 1:
            return self.key_of(v[3][0].v)
        if v is not None and v[0] == 'ts':
            return 'TS\x1f' + str(v[1])
        if v is None or v[0] != 'key':
            raise Unmodelled('map key is not a symbolic key: %r' % (v,))
        return v[1]

    def truthy(self, v):
        v = self.deref_all(v)
        if v[0] != 'bool':
            raise Unmodelled('expected bool')
        return v[1]

    def model_call(self, name, args, t, depth):
        seg = last_seg(name)
        A = args
        # --- comparisons ---------------------------------------------------------------------------------------
        if name in ('core::cmp::PartialOrd::lt', 'core::cmp::PartialOrd::le', 'core::cmp::PartialOrd::gt', 'core::cmp::PartialOrd::ge',
                    'core::cmp::PartialEq::eq', 'core::cmp::PartialEq::ne'):
            a, b = self.deref_all(A[0]), self.deref_all(A[1])
            return self.compare_values(seg, a, b)
        if name in ('core::cmp::Ord::cmp', 'core::cmp::PartialOrd::partial_cmp'):
            a, b = self.deref_all(A[0]), self.deref_all(A[1])
            if a[0] == b[0] and a[0] in ('key', 'int', 'addr') and a[1] is not None and b[1] is not None:
                # names and small integers: any fixed total order serves (only consistency matters to a sorted container)
                r_ = '<' if (str(a[1]) < str(b[1]) if a[0] != 'int' else a[1] < b[1]) else ('=' if a[1] == b[1] else '>')
                o_ = ('adt', 'core::cmp::Ordering', {'<': 0, '=': 1, '>': 2}[r_], [])
                return o_ if name.endswith('::cmp') else mk_option(o_)
            if a[0] == 'bv' and b[0] == 'bv' and self.bv_cmp is not None:
                r = self.bv_cmp(a[1], b[1])
                o = ('adt', 'core::cmp::Ordering', {'<': 0, '=': 1, '>': 2}[r], [])
                return o if name.endswith('::cmp') else mk_option(o)
            if a[0] not in ('ts', 'dur', 'ticks') or b[0] != a[0]:
                raise Unmodelled('cmp on %s' % a[0])
            r = self.order.cmp(a[1], b[1])
            o = ('adt', 'core::cmp::Ordering', {'<': 0, '=': 1, '>': 2}[r], [])
            return o if name.endswith('::cmp') else mk_option(o)
        if name.startswith('core::cmp::Ordering::') and A:
            o = self.deref_all(A[0])
            if o is not None and o[0] == 'adt' and o[1] == 'core::cmp::Ordering':
                if seg == 'then_with':
                    return self.call_closure(A[1], [], depth) if o[2] == 1 else o
                if seg == 'then':
                    return self.deref_all(A[1]) if o[2] == 1 else o
                if seg == 'reverse':
                    return ('adt', 'core::cmp::Ordering', 2 - o[2], [])
                if seg in ('is_eq', 'is_ne', 'is_lt', 'is_gt', 'is_le', 'is_ge'):
                    return mk_bool({'is_eq': o[2] == 1, 'is_ne': o[2] != 1, 'is_lt': o[2] == 0, 'is_gt': o[2] == 2, 'is_le': o[2] <= 1, 'is_ge': o[2] >= 1}[seg])
        if name in ('core::cmp::max', 'core::cmp::Ord::max', 'core::cmp::min', 'core::cmp::Ord::min'):
            a, b = A[0], A[1]
            if a[0] == 'int' and b[0] == 'int' and a[1] is not None and b[1] is not None:
                return ('int', max(a[1], b[1]) if seg == 'max' else min(a[1], b[1]))
            if a[0] == 'adt' and b[0] == 'adt' and a[1] == b[1]:
                # a workspace type: through its own Ord::cmp (derived or hand-written), with std's tie rule (max keeps the second, min the first)
                cb = self.facts.bodies.get('<%s as core::cmp::Ord>::cmp' % a[1]) or self.facts.body('<%s as core::cmp::Ord>::cmp' % a[1])
                if cb is None or cb.cfg is None:
                    raise Unmodelled('max/min on %s (no Ord::cmp body)' % a[1])
                o_ = self.deref_all(self.run_body(cb, [('ref', Cell(a)), ('ref', Cell(b))], depth + 1))
                if o_ is None or o_[0] != 'adt' or o_[1] != 'core::cmp::Ordering':
                    raise Unmodelled('Ord::cmp of %s does not return an Ordering' % a[1])
                gt = o_[2] == 2
                return (a if gt else b) if seg == 'max' else (b if gt else a)
            if a[0] == 'tuple' and b[0] == 'tuple' and len(a[1]) == len(b[1]) and a[1]:
                # lexicographic: decided on the first component that differs; when every leading component is equal and the LAST one cannot
                # be ordered (two symbolic counters), the result is (the common prefix, max / min of the last components)
                for i_, (ca, cb) in enumerate(zip(a[1], b[1])):
                    xa, xb = self.deref_all(ca.v), self.deref_all(cb.v)
                    last_ = i_ == len(a[1]) - 1
                    if xa is not None and xb is not None and xa[0] in ('ts', 'dur', 'ticks') and xb[0] == xa[0]:
                        r_ = self.order.cmp(xa[1], xb[1])
                    elif xa is not None and xb is not None and xa[0] == 'int' and xb[0] == 'int' and xa[1] is not None and xb[1] is not None:
                        r_ = '<' if xa[1] < xb[1] else ('>' if xa[1] > xb[1] else '=')
                    elif last_:
                        m_ = self.elem_extreme(name, seg, xa, xb, t, depth)
                        return ('tuple', [Cell(c_.v) for c_ in b[1][:-1]] + [Cell(m_)])
                    else:
                        raise Unmodelled('max/min on tuples whose component %d cannot be ordered' % i_)
                    if r_ == '=':
                        continue
                    gt_ = r_ == '>'
                    return (a if gt_ else b) if seg == 'max' else (b if gt_ else a)
                return b if seg == 'max' else a
            if a[0] == 'adt' and b[0] == 'adt' and a[1] == b[1] == 'core::option::Option':
                return self.elem_extreme(name, seg, a, b, t, depth)
            if a[0] not in ('ts', 'dur', 'ticks') or b[0] != a[0]:
                raise Unmodelled('max/min on %s' % a[0])
            r = self.order.cmp(a[1], b[1])
            if seg == 'max':
                return a if r == '>' else b
            return b if r == '>' else a
        if name in ('core::cmp::max_by_key', 'core::cmp::min_by_key'):
            raise Unmodelled(name)
        # --- trivial wrappers --------------------------------------------------------------------------------
        if name in ('core::clone::Clone::clone', 'alloc::borrow::ToOwned::to_owned'):
            return clone_value(self.deref_all(A[0]))
        if name in ('core::ops::deref::Deref::deref', 'core::ops::deref::DerefMut::deref_mut', 'core::borrow::Borrow::borrow',
                    'core::borrow::BorrowMut::borrow_mut', 'core::convert::AsRef::as_ref', 'core::convert::AsMut::as_mut'):
            v = A[0]
            inner = v[1].v if v[0] == 'ref' else None
            if inner is not None and inner[0] == 'ref':
                return inner
            return v
        if name in ('core::convert::TryInto::try_into', 'core::convert::TryFrom::try_from') and A and A[0][0] == 'bv':
            w = None
            for g in (t.get('gargs') or []) if t else []:
                if g in INT_WIDTH:
                    w = INT_WIDTH[g] if (w is None or name.endswith('try_into')) else w
            gl = [g for g in ((t.get('gargs') or []) if t else []) if g in INT_WIDTH]
            if len(gl) == 2:
                w = INT_WIDTH[gl[1]] if name.endswith('try_into') else INT_WIDTH[gl[0]]
            if w is None:
                raise Unmodelled('try_into: target width unknown')
            if any(x != 0 for x in A[0][1][w:]):
                if getattr(self, 'fallible_narrowing', False):
                    # a checked narrowing of a value whose upper bits are unknown: it fits (the upper bits were zero) or it is refused
                    names_ = {x[0] for x in A[0][1] if isinstance(x, tuple)}
                    if self.choose('narrowing-fits'):
                        self.trace.append(('bv-narrow', sorted(names_), w))
                        return ('adt', 'core::result::Result', 0, [Cell(('bv', tuple(A[0][1][:w]) + (0,) * (64 - w)))])
                    return ('adt', 'core::result::Result', 1, [Cell(('opaque', 'TryFromIntError'))])
                raise Unmodelled('try_into may fail: bits above the target width are not known to be zero')
            return ('adt', 'core::result::Result', 0, [Cell(A[0])])
        if name in ('core::convert::From::from', 'core::convert::Into::into', 'core::mem::drop', 'core::hint::black_box',
                    'core::convert::identity'):
            return A[0] if name != 'core::mem::drop' else UNIT
        if name == 'core::mem::take':
            cell = A[0][1]
            old = cell.v
            if old[0] == 'map':
                cell.v = ('map', MapObj(old[1].kind))
            elif old[0] == 'vec':
                cell.v = ('vec', [])
            elif old[0] == 'bool':
                cell.v = mk_bool(False)
            elif old[0] == 'adt' and old[1] == 'core::option::Option':
                cell.v = mk_option(None)
            else:
                raise Unmodelled('mem::take of %s' % old[0])
            return old
        if name == 'core::mem::replace':
            cell = A[0][1]
            old = cell.v
            cell.v = A[1]
            return old
        if name == 'core::mem::swap':
            a, b = A[0][1], A[1][1]
            a.v, b.v = b.v, a.v
            return UNIT
        if name.startswith('core::panicking::') or name == 'std::rt::begin_panic':
            raise PanicPath(name)
        if name in ('core::future::into_future::IntoFuture::into_future', 'core::pin::Pin::new_unchecked', 'core::pin::Pin::new',
                    'core::pin::Pin::as_mut', 'core::pin::Pin::get_mut', 'core::pin::Pin::into_inner', 'core::pin::Pin::get_unchecked_mut'):
            return A[0]
        if name == 'core::future::get_context':
            return ('ref', Cell(('opaque', 'cx')))
        if name == 'core::future::future::Future::poll':
            f = self.deref_all(A[0])
            if f is not None and f[0] == 'closure':
                return self.poll_coroutine(A[0], depth)
            if self.poll_hook is not None:
                r = self.poll_hook(self, A[0], f)
                if r is not None:
                    return ('adt', 'core::task::poll::Poll', 0, [Cell(r)])
            raise Unmodelled('poll of an unmodelled future %r' % (f,))
        if name.startswith('core::fmt::') or name.startswith('tracing') or name.startswith('log::'):
            return ('opaque', 'fmt')
        if name in ('core::ops::function::FnOnce::call_once', 'core::ops::function::FnMut::call_mut', 'core::ops::function::Fn::call'):
            argt = self.deref_all(A[1]) if len(A) > 1 else UNIT
            cargs = [c.v for c in argt[1]] if argt[0] == 'tuple' else ([] if argt == UNIT else [argt])
            return self.call_closure(A[0], cargs, depth)
        if name.startswith('core::bool::<impl bool>::') and A:
            b_ = self.deref_all(A[0])
            if b_ is not None and b_[0] == 'bool':
                bv_ = b_[1] if b_[1] is not None else self.choose('bool')
                if seg == 'then_some':
                    return mk_option(A[1]) if bv_ else mk_option(None)
                if seg == 'then':
                    return mk_option(self.call_closure(A[1], [], depth)) if bv_ else mk_option(None)
        # --- Option / Result ---------------------------------------------------------------------------------
        if name.startswith('core::option::Option::') or name.startswith('core::result::Result::'):
            return self.model_option(name, seg, A, depth)
        if name == 'core::ops::try_trait::Try::branch':
            v = A[0]
            if v[0] == 'adt' and v[1] == 'core::option::Option':
                if v[2] == 1:
                    return ('adt', 'core::ops::control_flow::ControlFlow', 0, [Cell(v[3][0].v)])
                return ('adt', 'core::ops::control_flow::ControlFlow', 1, [Cell(mk_option(None))])
            if v[0] == 'adt' and v[1] == 'core::result::Result':
                if v[2] == 0:
                    return ('adt', 'core::ops::control_flow::ControlFlow', 0, [Cell(v[3][0].v if v[3] else UNIT)])
                return ('adt', 'core::ops::control_flow::ControlFlow', 1, [Cell(('adt', 'core::result::Result', 1, [Cell(v[3][0].v)]))])
            raise Unmodelled('Try::branch on %r' % (v[1] if v[0] == 'adt' else v[0],))
        if name == 'core::ops::try_trait::FromResidual::from_residual':
            # `?` converts the error with From: a private error enum mapped to the public one by a workspace `impl From`
            r_ = self.deref_all(A[0])
            body_, t_ = getattr(self, 'cur', (None, None))
            if r_ is not None and r_[0] == 'adt' and r_[1] == 'core::result::Result' and r_[2] == 1 and r_[3] and body_ is not None and not t_['dest']['p']:
                ev = self.deref_all(r_[3][0].v)
                dty = body_.local_ty(t_['dest']['l'])
                src_ = ev[1] if (ev is not None and ev[0] == 'adt') else None
                if src_ is None and ev is not None:
                    # an abstract atom standing for a value of the error type of the operand (`Result<Infallible, Status>`)
                    al = t_['args'][0].get('pl', {}).get('l') if t_['args'] and t_['args'][0].get('k') in ('copy', 'move') else None
                    aty = body_.local_ty(al) if al is not None else ''
                    if ty_head(aty) == 'core::result::Result' and '<' in aty:
                        ap_ = ty_args_of_tuple('(' + aty[aty.index('<') + 1:-1] + ')')
                        src_ = ty_head(ap_[-1]) if ap_ else None
                if src_ and ty_head(dty) == 'core::result::Result':
                    parts_ = ty_args_of_tuple('(' + dty[dty.index('<') + 1:-1] + ')')
                    tgt_ = ty_head(parts_[-1]) if parts_ else ''
                    if tgt_ and tgt_ != src_:
                        for im in self.facts.impls:
                            if im.get('trait_def') and strip_generics(im['trait_def']) == 'core::convert::From' and ty_head(im['self']) == tgt_ and ('<' + src_) in im['trait'].replace(' ', ''):
                                for item in im['items']:
                                    fb = self.facts.bodies.get(item) or self.facts.body(strip_generics(item))
                                    if fb is not None and last_seg(item) == 'from':
                                        conv = self.run_body(fb, [ev], depth + 1)
                                        return ('adt', 'core::result::Result', 1, [Cell(conv)])
            return A[0]
        if name == 'core::ops::try_trait::Try::from_output':
            return mk_option(A[0])
        if name in ('core::ops::index::Index::index', 'core::ops::index::IndexMut::index_mut') and len(A) == 2:
            recv, ix = self.deref_all(A[0]), self.deref_all(A[1])
            if recv is not None and recv[0] == 'vec' and ix[0] == 'int' and ix[1] is not None:
                if ix[1] >= len(recv[1]):
                    raise PanicPath('index out of bounds')
                return ('ref', Cell(recv[1][ix[1]]))
            if recv is not None and recv[0] == 'map' and ix[0] == 'key':
                if ix[1] not in recv[1].items:
                    raise PanicPath('no entry for the key')
                return ('ref', recv[1].items[ix[1]])
        if name.startswith('core::num::') and A and all(self.deref_all(a)[0] == 'int' and self.deref_all(a)[1] is not None for a in A[:2]) and len(A) <= 2:
            x_ = self.deref_all(A[0])[1]
            y_ = self.deref_all(A[1])[1] if len(A) == 2 else None
            body_, t_ = getattr(self, 'cur', (None, None))
            uns = body_ is not None and not t_['dest']['p'] and ('usize' in body_.local_ty(t_['dest']['l']) or body_.local_ty(t_['dest']['l']).startswith(('u', 'core::option::Option<u')))
            if seg in ('checked_sub', 'checked_add', 'checked_mul', 'checked_div') and y_ is not None:
                if seg == 'checked_div' and y_ == 0:
                    return mk_option(None)
                r_ = {'checked_sub': x_ - y_, 'checked_add': x_ + y_, 'checked_mul': x_ * y_, 'checked_div': x_ // y_ if y_ else 0}[seg]
                return mk_option(None) if (r_ < 0 and uns) else mk_option(('int', r_))
            if seg in ('saturating_sub', 'saturating_add', 'wrapping_add', 'wrapping_sub', 'min', 'max', 'abs_diff', 'pow', 'div_ceil') and y_ is not None:
                r_ = {'saturating_sub': max(0, x_ - y_) if uns else x_ - y_, 'saturating_add': x_ + y_, 'wrapping_add': x_ + y_, 'wrapping_sub': x_ - y_, 'min': min(x_, y_), 'max': max(x_, y_),
                      'abs_diff': abs(x_ - y_), 'pow': x_ ** y_ if 0 <= y_ < 64 else 0, 'div_ceil': -(-x_ // y_) if y_ else 0}[seg]
                if seg == 'wrapping_sub' and r_ < 0:
                    raise Unmodelled('wrapping subtraction below zero')
                return ('int', r_)
        if name.startswith('alloc::boxed::Box::') and seg in ('new', 'pin', 'from', 'into_inner', 'into_pin') and A:
            return A[0]          # boxes are transparent
        if name.startswith('alloc::boxed::Box::') and seg in ('new_uninit', 'new_zeroed') and not A:
            return ('adt', 'alloc::boxed::Box', 0, [Cell(None)])
        if name in ('alloc::boxed::box_assume_init_into_vec_unsafe', 'alloc::slice::<impl [T]>::into_vec') and A:
            def dig(v, d=0):
                v = self.deref_all(v)
                if v is None or d > 8:
                    return None
                if v[0] == 'arr':
                    return v
                if v[0] == 'adt':
                    for c_ in v[3]:
                        r_ = dig(c_.v, d + 1)
                        if r_ is not None:
                            return r_
                return None
            arr_ = dig(A[0])
            if arr_ is None:
                raise Unmodelled('%s of something that is not an array' % seg)
            return ('vec', [c_.v for c_ in arr_[1]])
        if name in ('core::intrinsics::discriminant_value', 'core::mem::discriminant') and A:
            dv = self.deref_all(A[0])
            if dv is not None and dv[0] == 'adt':
                return ('int', dv[2])
            raise Unmodelled('discriminant of %r' % (dv,))
        if name == 'core::default::Default::default' and not A:
            body_, t_ = getattr(self, 'cur', (None, None))
            v_ = self.default_by_type(body_.local_ty(t_['dest']['l'])) if body_ is not None and not t_['dest']['p'] else None
            if v_ is not None:
                return v_
        # --- maps --------------------------------------------------------------------------------------------
        if name.startswith('alloc::collections::btree::map::') or name.startswith('std::collections::hash::map::') \
                or name.startswith('hashbrown::'):
            return self.model_map(name, seg, A, depth)
        if name.startswith('alloc::collections::btree::set::BTreeSet::') or name.startswith('std::collections::hash::set::HashSet::'):
            if seg in ('new', 'default', 'with_capacity'):
                return ('set', set())
            st = self.deref_all(A[0])
            if st[0] != 'set':
                raise Unmodelled('%s on %s' % (name, st[0]))
            if seg == 'insert':
                k = self.key_of(A[1])
                had = k in st[1]
                st[1].add(k)
                return mk_bool(not had)
            if seg == 'contains':
                return mk_bool(self.key_of(A[1]) in st[1])
            if seg == 'remove':
                k = self.key_of(A[1])
                had = k in st[1]
                st[1].discard(k)
                return mk_bool(had)
            if seg in ('iter', 'into_iter'):
                return ('iter', self.as_iter(A[0]))
            if seg == 'len':
                return ('int', LenInt(len(st[1])) if self.symbolic_len == 'bounded' else len(st[1]))
            if seg == 'is_empty':
                return mk_bool(not st[1])
            if seg == 'take':
                k = self.key_of(A[1])
                had = k in st[1]
                st[1].discard(k)
                return mk_option(unkey(k) if had else None)
            if seg == 'clear':
                st[1].clear()
                return UNIT
            if seg == 'drain':
                ks = sorted(st[1])
                st[1].clear()
                return ('iter', IterObj([unkey(k) for k in ks]))
            if seg in ('difference', 'intersection', 'union', 'symmetric_difference') and len(A) == 2:
                ot = self.deref_all(A[1])
                if ot[0] != 'set':
                    raise Unmodelled('%s with %s' % (name, ot[0]))
                a_, b_ = st[1], ot[1]
                ks = sorted(a_ - b_ if seg == 'difference' else a_ & b_ if seg == 'intersection' else a_ | b_ if seg == 'union' else a_ ^ b_)
                return ('iter', IterObj([('ref', Cell(unkey(k))) for k in ks]))
            if seg in ('is_subset', 'is_superset', 'is_disjoint') and len(A) == 2:
                ot = self.deref_all(A[1])
                if ot[0] != 'set':
                    raise Unmodelled('%s with %s' % (name, ot[0]))
                return mk_bool(st[1] <= ot[1] if seg == 'is_subset' else st[1] >= ot[1] if seg == 'is_superset' else not (st[1] & ot[1]))
            if seg == 'retain':
                keep = {k for k in st[1] if self.truthy(self.call_closure(A[1], [('ref', Cell(unkey(k)))], depth))}
                st[1].intersection_update(keep)
                return UNIT
            if seg == 'extend':
                for x in self.drain(self.as_iter(A[1]), depth):
                    st[1].add(self.key_of(x))
                return UNIT
            raise Unmodelled('%s is not modelled' % name)
        # --- Vec / slices / iterators ----------------------------------------------------------------------------
        r = self.model_seq(name, seg, A, depth)
        if r is not NotImplemented:
            return r
        if self.unknown_call is not None:
            r = self.unknown_call(self, name, A, t)
            if r is not None:
                return r
        raise Unmodelled('call to %s is not modelled' % name)

    def compare_values(self, seg, a, b):
        if a[0] == 'bv' and b[0] == 'bv' and self.bv_cmp is not None:
            r = self.bv_cmp(a[1], b[1])
            return mk_bool({'lt': r == '<', 'le': r in '<=', 'gt': r == '>', 'ge': r in '>=', 'eq': r == '=', 'ne': r != '='}[seg])
        if a[0] in ('ts', 'dur', 'ticks') and b[0] == a[0]:
            return mk_bool(self.ts_rel(seg, a, b))
        if a[0] in ('key', 'addr', 'node') and b[0] == a[0] and seg in ('eq', 'ne'):
            return mk_bool((a[1] == b[1]) == (seg == 'eq'))
        if a[0] == 'bool' and b[0] == 'bool' and seg in ('eq', 'ne'):
            return mk_bool((a[1] == b[1]) == (seg == 'eq'))
        if a[0] == 'adt' and b[0] == 'adt' and a[1] == b[1] == 'core::option::Option' and seg in ('eq', 'ne', 'lt', 'le', 'gt', 'ge'):
            # Option<T>: None < Some(_)
            if a[2] == 0 or b[2] == 0:
                x, y = a[2], b[2]
                r = {'eq': x == y, 'ne': x != y, 'lt': x < y, 'le': x <= y, 'gt': x > y, 'ge': x >= y}[seg]
                return mk_bool(r)
            return self.compare_values(seg, self.deref_all(a[3][0].v), self.deref_all(b[3][0].v))
        if a[0] == 'int' and b[0] == 'int' and a[1] is not None and b[1] is not None:
            x, y = a[1], b[1]
            return mk_bool({'eq': x == y, 'ne': x != y, 'lt': x < y, 'le': x <= y, 'gt': x > y, 'ge': x >= y}[seg])
        if a[0] in ('const', 'opaque') and b[0] in ('const', 'opaque'):
            if any(x[0] == 'const' and (x[1].startswith('tracing') or 'tracing_core' in x[1] or x[1].startswith('log::')) for x in (a, b)):
                return mk_bool(False)    # log-level gates: logging is not part of any trace
            return ('bool', None)        # named constants of other crates: unknown, explored both ways if it matters
        if a[0] == 'adt' and b[0] == 'adt' and a[1] == b[1] and not a[3] and not b[3] and seg in ('eq', 'ne'):
            # two field-less enum values (an Ordering compared with Ordering::Less, a private verdict enum)
            return mk_bool((a[2] == b[2]) == (seg == 'eq'))
        raise Unmodelled('comparison %s on %s / %s' % (seg, a[0], b[0]))

    def elem_extreme(self, name, seg, xa, xb, t, depth):
        """max / min of two values of one component type: Options (None below Some), the summary's own abstract values through its hook"""
        if xa is not None and xb is not None and xa[0] == 'adt' and xb[0] == 'adt' and xa[1] == xb[1] == 'core::option::Option':
            sa, sb = xa[2] == 1, xb[2] == 1
            if not sa and not sb:
                return xa
            if sa != sb:
                some_, none_ = (xa, xb) if sa else (xb, xa)
                return some_ if seg == 'max' else none_
            return mk_option(self.elem_extreme(name, seg, self.deref_all(xa[3][0].v), self.deref_all(xb[3][0].v), t, depth))
        if self.opaque_call is not None:
            body_ = getattr(self, 'cur', (None, None))[0]
            r_ = self.opaque_call(self, 'core::cmp::max' if seg == 'max' else 'core::cmp::min', [xa, xb], t, body_)
            if r_ is not None:
                return r_
        return self.model_call('core::cmp::max' if seg == 'max' else 'core::cmp::min', [xa, xb], t, depth)

    def model_option(self, name, seg, A, depth):
        v = A[0]
        is_ref = v[0] == 'ref'
        o = self.deref_all(v)
        if o[0] == 'opaque' and getattr(self, 'opaque_fields', False) and seg in ('unwrap', 'expect', 'unwrap_unchecked', 'unwrap_or_default'):
            return ('opaque', str(o[1]) + '.value')          # (P-TRACE only) the payload of an unknown Option / Result is unknown
        if o[0] != 'adt':
            raise Unmodelled('%s on %r' % (name, o[0]))
        some = o[2] == 1 if o[1] == 'core::option::Option' else o[2] == 0
        inner = (o[3][0].v if o[3] else UNIT) if some else None
        isopt = o[1] == 'core::option::Option'
        if seg in ('is_some', 'is_ok'):
            return mk_bool(some)
        if seg in ('is_none', 'is_err'):
            return mk_bool(not some)
        if seg in ('unwrap', 'expect', 'unwrap_unchecked'):
            if not some:
                raise Unmodelled('unwrap on None/Err reached')
            return inner
        if seg == 'unwrap_or':
            return inner if some else A[1]
        if seg == 'unwrap_or_default':
            if some:
                return inner
            return mk_bool(False)
        if seg == 'unwrap_or_else':
            return inner if some else self.call_closure(A[1], [], depth)
        if seg == 'map':
            if not some:
                return o if isopt else o
            r = self.call_closure(A[1], [inner], depth)
            return mk_option(r) if isopt else ('adt', o[1], 0, [Cell(r)])
        if seg == 'map_or':
            return self.call_closure(A[2], [inner], depth) if some else A[1]
        if seg == 'map_or_else':
            return self.call_closure(A[2], [inner], depth) if some else self.call_closure(A[1], [], depth)
        if seg in ('is_some_and', 'is_ok_and'):
            return self.call_closure(A[1], [inner], depth) if some else mk_bool(False)
        if seg == 'is_none_or':
            return self.call_closure(A[1], [inner], depth) if some else mk_bool(True)
        if seg == 'and_then':
            return self.call_closure(A[1], [inner], depth) if some else o
        if seg == 'filter':
            if not some:
                return o
            keep = self.truthy(self.call_closure(A[1], [('ref', Cell(inner))], depth))
            return o if keep else mk_option(None)
        if seg in ('copied', 'cloned'):
            return mk_option(clone_value(self.deref_all(inner))) if some else mk_option(None)
        if seg == 'as_ref' or seg == 'as_mut':
            if not is_ref:
                raise Unmodelled('as_ref on value')
            if not isopt:
                # Result<T, E>::as_ref -> Result<&T, &E>: the same variant, its payload by reference
                return ('adt', o[1], o[2], [Cell(('ref', o[3][0]))] if o[3] else [])
            return mk_option(('ref', o[3][0])) if some else mk_option(None)
        if seg == 'as_deref':
            return mk_option(inner) if some else mk_option(None)
        if seg == 'transpose':
            # Option<Result<T, E>> <-> Result<Option<T>, E>
            if isopt:
                if not some:
                    return ('adt', 'core::result::Result', 0, [Cell(mk_option(None))])
                r_ = self.deref_all(inner)
                if r_ is None or r_[0] != 'adt' or r_[1] != 'core::result::Result':
                    raise Unmodelled('transpose of Some(%r)' % (r_[:1] if r_ else r_,))
                if r_[2] == 0:
                    return ('adt', 'core::result::Result', 0, [Cell(mk_option(r_[3][0].v if r_[3] else UNIT))])
                return ('adt', 'core::result::Result', 1, [Cell(r_[3][0].v if r_[3] else UNIT)])
            if not some:
                return mk_option(('adt', 'core::result::Result', 1, [Cell(o[3][0].v if o[3] else UNIT)]))
            o_ = self.deref_all(inner)
            if o_ is None or o_[0] != 'adt' or o_[1] != 'core::option::Option':
                raise Unmodelled('transpose of Ok(%r)' % (o_[:1] if o_ else o_,))
            if o_[2] == 0:
                return mk_option(None)
            return mk_option(('adt', 'core::result::Result', 0, [Cell(o_[3][0].v if o_[3] else UNIT)]))
        if seg == 'flatten' and isopt:
            if not some:
                return mk_option(None)
            iv = self.deref_all(inner)
            if iv is None or iv[0] != 'adt' or iv[1] != 'core::option::Option':
                raise Unmodelled('flatten of a non-option')
            return iv
        if seg in ('ok', 'err') and not isopt:
            if seg == 'ok':
                return mk_option(inner) if some else mk_option(None)
            return mk_option(o[3][0].v if o[3] else UNIT) if not some else mk_option(None)
        if seg == 'transpose':
            raise Unmodelled('transpose')
        if seg == 'take':
            cell = v[1]
            old = cell.v
            cell.v = mk_option(None)
            return old
        if seg == 'or':
            return o if some else A[1]
        if seg == 'or_else':
            return o if some else self.call_closure(A[1], [], depth)
        if seg == 'and':
            return A[1] if some else o
        if seg == 'ok_or':
            return ('adt', 'core::result::Result', 0, [Cell(inner)]) if some else ('adt', 'core::result::Result', 1, [Cell(A[1])])
        if seg == 'ok_or_else':
            return ('adt', 'core::result::Result', 0, [Cell(inner)]) if some else ('adt', 'core::result::Result', 1, [Cell(self.call_closure(A[1], [], depth))])
        if seg == 'ok' and not isopt:
            return mk_option(inner) if some else mk_option(None)
        if seg == 'err' and not isopt:
            return mk_option(None) if some else mk_option(o[3][0].v)
        if seg == 'map_err' and not isopt:
            return o if some else ('adt', o[1], 1, [Cell(self.call_closure(A[1], [o[3][0].v], depth))])
        if seg == 'zip':
            o2 = A[1]
            if some and o2[2] == 1:
                return mk_option(('tuple', [Cell(inner), Cell(o2[3][0].v)]))
            return mk_option(None)
        if seg == 'into_iter' or seg == 'iter':
            return ('iter', IterObj([inner] if some else []))
        if seg == 'insert':
            cell = v[1]
            cell.v = mk_option(A[1])
            return ('ref', cell.v[3][0])
        if seg == 'get_or_insert_with':
            cell = v[1]
            if not some:
                cell.v = mk_option(self.call_closure(A[1], [], depth))
            return ('ref', cell.v[3][0])
        raise Unmodelled('%s is not modelled' % name)

    def default_by_type(self, ty, loose=False):
        """Default::default() of a std type, from the static type of the destination"""
        h = ty_head(ty)
        if h in ('alloc::collections::btree::set::BTreeSet', 'std::collections::hash::set::HashSet') or (loose and ('BTreeSet<' in ty or 'HashSet<' in ty)):
            return ('set', set())
        if h in ('alloc::collections::btree::map::BTreeMap', 'std::collections::hash::map::HashMap') or (loose and ('BTreeMap<' in ty or 'HashMap<' in ty)):
            return ('map', MapObj('btree' if 'BTreeMap' in (h if not loose else ty) else 'hash'))
        if h in ('alloc::vec::Vec', 'smallvec::SmallVec') or (loose and 'Vec<' in ty):
            return ('vec', [])
        if ty == 'bool':
            return ('bool', False)
        if ty in INT_WIDTH:
            return ('int', 0)
        if h == 'core::option::Option':
            return mk_option(None)
        if ty == '()':
            return UNIT
        return None

    def model_map(self, name, seg, A, depth):
        if '::entry::' in name or name.startswith('std::collections::hash::map::Entry') or name.startswith('std::collections::hash::map::OccupiedEntry') \
                or name.startswith('std::collections::hash::map::VacantEntry'):
            return self.model_entry(name, seg, A, depth)
        kind = 'btree' if 'btree' in name else 'hash'
        if seg in ('new', 'default', 'with_capacity'):
            return ('map', MapObj(kind))
        m = self.map_of(A[0])
        if seg in ('get', 'get_mut'):
            k = self.key_of(A[1])
            c = m.items.get(k)
            return mk_option(('ref', c)) if c is not None else mk_option(None)
        if seg == 'get_key_value':
            k = self.key_of(A[1])
            c = m.items.get(k)
            return mk_option(('tuple', [Cell(('ref', Cell(unkey(k)))), Cell(('ref', c))])) if c is not None else mk_option(None)
        if seg == 'contains_key':
            return mk_bool(self.key_of(A[1]) in m.items)
        if seg == 'remove':
            k = self.key_of(A[1])
            c = m.items.pop(k, None)
            return mk_option(c.v) if c is not None else mk_option(None)
        if seg == 'remove_entry':
            k = self.key_of(A[1])
            c = m.items.pop(k, None)
            return mk_option(('tuple', [Cell(unkey(k)), Cell(c.v)])) if c is not None else mk_option(None)
        if seg == 'insert':
            k = self.key_of(A[1])
            old = m.items.get(k)
            m.items[k] = Cell(A[2])
            return mk_option(old.v) if old is not None else mk_option(None)
        if seg == 'entry':
            k = self.key_of(A[1])
            ename = 'alloc::collections::btree::map::entry::Entry' if m.kind == 'btree' else 'std::collections::hash::map::Entry'
            occ = k in m.items
            vi = VARIANTS[ename].index('Occupied' if occ else 'Vacant')
            return ('adt', ename, vi, [Cell(('occ' if occ else 'vac', m, k))])
        if seg == 'len':
            return ('int', LenInt(len(m.items)) if self.symbolic_len == 'bounded' else len(m.items))
        if seg == 'is_empty':
            return mk_bool(not m.items)
        if seg == 'clear':
            m.items.clear()
            return UNIT
        if seg in ('iter', 'iter_mut'):
            return ('iter', IterObj([('tuple', [Cell(('ref', Cell(unkey(k)))), Cell(('ref', c))]) for k, c in self.ordered(m)]))
        if seg == 'into_iter':
            its = [('tuple', [Cell(unkey(k)), Cell(c.v)]) for k, c in self.ordered(m)]
            m.items = {}
            return ('iter', IterObj(its))
        if seg == 'keys':
            return ('iter', IterObj([('ref', Cell(unkey(k))) for k, c in self.ordered(m)]))
        if seg in ('values', 'values_mut'):
            return ('iter', IterObj([('ref', c) for k, c in self.ordered(m)]))
        if seg in ('into_keys',):
            its = [unkey(k) for k, c in self.ordered(m)]
            m.items = {}
            return ('iter', IterObj(its))
        if seg in ('into_values',):
            its = [c.v for k, c in self.ordered(m)]
            m.items = {}
            return ('iter', IterObj(its))
        if seg == 'drain':
            its = [('tuple', [Cell(unkey(k)), Cell(c.v)]) for k, c in self.ordered(m)]
            m.items = {}
            return ('iter', IterObj(its))
        if seg == 'retain':
            for k, c in list(self.ordered(m)):
                keep = self.truthy(self.call_closure(A[1], [('ref', Cell(unkey(k))), ('ref', c)], depth))
                if not keep:
                    del m.items[k]
            return UNIT
        if seg == 'extend':
            it = self.as_iter(A[1])
            while True:
                x = self.iter_next(it, depth)
                if x is None:
                    break
                x = self.deref_all(x)
                m.items[self.key_of(x[1][0].v)] = Cell(self.deref_all(x[1][1].v))
            return UNIT
        raise Unmodelled('%s is not modelled' % name)

    def ordered(self, m):
        ks = list(m.items)
        if any(isinstance(k, str) and k.startswith('TS\x1f') for k in ks):
            # stamp keys: a BTreeMap walks them in the order relation of the abstract input
            import functools
            def c(a, b):
                if a.startswith('TS\x1f') and b.startswith('TS\x1f'):
                    return {'<': -1, '=': 0, '>': 1}[self.order.cmp(a[3:], b[3:])]
                return (a > b) - (a < b)
            ks = sorted(ks, key=functools.cmp_to_key(c)) if m.kind == 'btree' else sorted(ks)
            return [(k, m.items[k]) for k in ks]
        return sorted(m.items.items())

    def model_entry(self, name, seg, A, depth):
        e = self.deref_all(A[0])
        if e[0] == 'adt':           # Entry enum
            h = e[3][0].v
            if seg == 'and_modify':
                if h[0] == 'occ':
                    self.call_closure(A[1], [('ref', h[1].items[h[2]])], depth)
                return e
            if seg in ('or_insert', 'or_insert_with', 'or_default', 'or_insert_with_key'):
                if h[0] == 'vac':
                    if seg == 'or_insert':
                        val = A[1]
                    elif seg == 'or_insert_with':
                        val = self.call_closure(A[1], [], depth)
                    elif seg == 'or_insert_with_key':
                        val = self.call_closure(A[1], [('ref', Cell(unkey(h[2])))], depth)
                    else:
                        body, t = getattr(self, 'cur', (None, None))
                        ty = body.local_ty(t['dest']['l']) if body is not None else ''
                        inner_ty = ty.lstrip('&').replace('mut ', '', 1).strip() if ty.startswith('&') else ty
                        wb = self.facts.bodies.get('<%s as core::default::Default>::default' % inner_ty)
                        if wb is not None and wb.cfg is not None:
                            val = self.run_body(wb, [], depth + 1)      # a workspace type: its own Default builds the slot
                        else:
                            val = self.default_by_type(inner_ty, loose=True)
                        if val is None:
                            raise Unmodelled('or_default on a slot of type %s' % ty)
                    h[1].items[h[2]] = Cell(val)
                return ('ref', h[1].items[h[2]])
            if seg == 'key':
                return ('ref', Cell(unkey(h[2])))
            if seg == 'insert_entry':
                h[1].items[h[2]] = Cell(A[1])
                return ('occ', h[1], h[2])
            raise Unmodelled('%s is not modelled' % name)
        if e[0] == 'occ':
            m, k = e[1], e[2]
            if seg in ('get', 'get_mut', 'into_mut'):
                return ('ref', m.items[k])
            if seg == 'insert':
                old = m.items[k].v
                m.items[k].v = A[1]
                return old
            if seg == 'remove':
                return m.items.pop(k).v
            if seg == 'remove_entry':
                return ('tuple', [Cell(unkey(k)), Cell(m.items.pop(k).v)])
            if seg == 'key':
                return ('ref', Cell(unkey(k)))
        if e[0] == 'vac':
            m, k = e[1], e[2]
            if seg == 'insert':
                m.items[k] = Cell(A[1])
                return ('ref', m.items[k])
            if seg == 'insert_entry':
                m.items[k] = Cell(A[1])
                return ('occ', m, k)
            if seg in ('key', 'into_key'):
                return ('ref', Cell(unkey(k))) if seg == 'key' else unkey(k)
        raise Unmodelled('%s is not modelled' % name)

    # ---- sequences ---------------------------------------------------------------------------------------------------
    def as_iter(self, v):
        is_ref = v[0] == 'ref'
        d = self.deref_all(v)
        if d[0] == 'iter':
            return d[1]
        if d[0] == 'vec':
            if is_ref:
                return IterObj([('ref', Cell(x)) for x in d[1]])
            return IterObj(list(d[1]))
        if d[0] == 'map':
            m = d[1]
            if is_ref:
                return IterObj([('tuple', [Cell(('ref', Cell(unkey(k)))), Cell(('ref', c))]) for k, c in self.ordered(m)])
            its = [('tuple', [Cell(unkey(k)), Cell(c.v)]) for k, c in self.ordered(m)]
            m.items = {}
            return IterObj(its)
        if d[0] == 'adt' and d[1] == 'core::option::Option':
            return IterObj([d[3][0].v] if d[2] == 1 else [])
        if d[0] == 'arr':
            return IterObj([('ref', c) for c in d[1]] if is_ref else [c.v for c in d[1]])
        if d[0] == 'set':
            by_ref = is_ref or id(d[1]) in self.__dict__.get('ref_sets', ())
            return IterObj([('ref', Cell(unkey(k))) for k in sorted(d[1])] if by_ref else [unkey(k) for k in sorted(d[1])])
        if d[0] == 'adt' and d[1] in ('core::ops::range::Range', 'core::ops::range::RangeInclusive') and len(d[3]) >= 2:
            lo, hi = self.deref_all(d[3][0].v), self.deref_all(d[3][1].v)
            if lo[0] != 'int' or hi[0] != 'int' or lo[1] is None or hi[1] is None:
                raise Unmodelled('iteration over a range with unknown bounds')
            top = hi[1] + (1 if d[1].endswith('Inclusive') else 0)
            if top - lo[1] > 4096:
                raise Unmodelled('iteration over a long range')
            return IterObj([('int', i) for i in range(lo[1], top)])
        raise Unmodelled('iteration over %s' % d[0])

    def iter_next(self, it, depth):
        while it.items:
            x = it.items.pop(0)
            ok = True
            for st in it.stages:
                kind = st[0]
                if kind == 'map':
                    x = self.call_closure(st[1], [x], depth)
                elif kind == 'filter':
                    if not self.truthy(self.call_closure(st[1], [('ref', Cell(x))], depth)):
                        ok = False
                        break
                elif kind == 'filter_map':
                    r = self.call_closure(st[1], [x], depth)
                    if r[2] == 0:
                        ok = False
                        break
                    x = r[3][0].v
                elif kind == 'inspect':
                    self.call_closure(st[1], [('ref', Cell(x))], depth)
                elif kind == 'copied':
                    x = clone_value(self.deref_all(x))
                elif kind == 'enumerate':
                    x = ('tuple', [Cell(('int', it.count)), Cell(x)])
                    it.count += 1
            if ok:
                return x
        return None

    def model_seq(self, name, seg, A, depth):
        if name in ('core::iter::traits::collect::IntoIterator::into_iter',):
            return ('iter', self.as_iter(A[0]))
        if name == 'core::iter::traits::iterator::Iterator::next':
            it = self.deref_all(A[0])
            if it[0] != 'iter':
                raise Unmodelled('next on %s' % it[0])
            x = self.iter_next(it[1], depth)
            return mk_option(x) if x is not None else mk_option(None)
        if name.startswith('core::iter::traits::iterator::Iterator::'):
            it = self.deref_all(A[0])
            if it[0] == 'adt' and it[1] in ('core::ops::range::Range', 'core::ops::range::RangeInclusive'):
                it = ('iter', self.as_iter(it))
            if it[0] != 'iter':
                raise Unmodelled('%s on %s' % (name, it[0]))
            io = it[1]
            if seg in ('map', 'filter', 'filter_map', 'inspect'):
                return ('iter', IterObj(io.items, io.stages + [(seg, A[1])]))
            if seg in ('copied', 'cloned'):
                return ('iter', IterObj(io.items, io.stages + [('copied',)]))
            if seg == 'enumerate':
                return ('iter', IterObj(io.items, io.stages + [('enumerate',)]))
            if seg == 'chain':
                a = self.drain(io, depth)
                b = self.drain(self.as_iter(A[1]), depth)
                return ('iter', IterObj(a + b))
            if seg in ('collect',):
                return self.collect(io, t_hint=None, depth=depth)
            if seg == 'for_each':
                for x in self.drain(io, depth):
                    self.call_closure(A[1], [x], depth)
                return UNIT
            if seg == 'count':
                return ('int', len(self.drain(io, depth)))
            if seg in ('min', 'max'):
                xs = self.drain(io, depth)
                if not xs:
                    return mk_option(None)
                best = xs[0]
                for x in xs[1:]:
                    a, b = self.deref_all(best), self.deref_all(x)
                    if a[0] == 'ctr' and b[0] == 'ctr' and seg == 'max':
                        best = ('ctr', ('max', a[1], b[1]))       # counters are symbolic: the greater of two is a term
                        continue
                    if a[0] == 'int' and b[0] == 'int' and a[1] is not None and b[1] is not None:
                        if (seg == 'max' and b[1] >= a[1]) or (seg == 'min' and b[1] < a[1]):
                            best = x
                        continue
                    r = self.order.cmp(a[1], b[1])
                    if (seg == 'max' and r in '<=') or (seg == 'min' and r == '>'):
                        best = x
                return mk_option(best)
            if seg in ('any', 'all'):
                for x in self.drain(io, depth):
                    r = self.truthy(self.call_closure(A[1], [x], depth))
                    if seg == 'any' and r:
                        return mk_bool(True)
                    if seg == 'all' and not r:
                        return mk_bool(False)
                return mk_bool(seg == 'all')
            if seg == 'fold':
                acc = A[1]
                for x in self.drain(io, depth):
                    acc = self.call_closure(A[2], [acc, x], depth)
                return acc
            if seg in ('try_fold', 'try_for_each'):
                acc = A[1] if seg == 'try_fold' else UNIT
                clo_ = A[2] if seg == 'try_fold' else A[1]
                body_, t_ = getattr(self, 'cur', (None, None))
                dty_ = body_.local_ty(t_['dest']['l']) if body_ is not None and not t_['dest']['p'] else ''
                while True:
                    x = self.iter_next(io, depth)
                    if x is None:
                        break
                    r = self.deref_all(self.call_closure(clo_, [acc, x] if seg == 'try_fold' else [x], depth))
                    if r is None or r[0] != 'adt':
                        raise Unmodelled('try_fold step returns %r' % (r[0] if r else None,))
                    cont = (r[1] == 'core::ops::control_flow::ControlFlow' and r[2] == 0) or (r[1] == 'core::result::Result' and r[2] == 0) or (r[1] == 'core::option::Option' and r[2] == 1)
                    if not cont:
                        return r
                    acc = r[3][0].v if r[3] else UNIT
                h_ = ty_head(dty_)
                if h_ == 'core::option::Option':
                    return mk_option(acc)
                if h_ == 'core::ops::control_flow::ControlFlow':
                    return ('adt', h_, 0, [Cell(acc)])
                return ('adt', 'core::result::Result', 0, [Cell(acc)])
            if seg == 'sum':
                tot = 0
                for x in self.drain(io, depth):
                    xv = self.deref_all(x)
                    if xv[0] != 'int' or xv[1] is None:
                        raise Unmodelled('sum of non-integers')
                    tot += xv[1]
                return ('int', tot)
            if seg in ('rev', 'by_ref', 'fuse', 'peekable'):
                if seg == 'rev':
                    xs = self.drain(io, depth)
                    return ('iter', IterObj(list(reversed(xs))))
                return A[0]
            if seg in ('size_hint',):
                return ('tuple', [Cell(('int', None)), Cell(mk_option(None))])
            if seg in ('take', 'skip', 'step_by', 'nth'):
                nv = self.deref_all(A[1])
                if nv[0] != 'int' or nv[1] is None:
                    raise Unmodelled('%s by an unknown count' % seg)
                n_ = nv[1]
                if seg == 'take':
                    if getattr(self, 'elastic_take', False) and n_ < (1 << 62):
                        # the abstract collection stands for collections of ANY size: a constant count limit may well cut it (the shown two or
                        # three elements are not "fewer than 50 000"): the last shown element is beyond the limit
                        xs_ = self.drain(io, depth)
                        if len(xs_) >= 2 and n_ >= len(xs_):
                            self.trace.append(('take-cut', n_))
                            return ('iter', IterObj(xs_[:-1]))
                        return ('iter', IterObj(xs_[:n_]))
                    out_ = []
                    while len(out_) < n_:
                        x = self.iter_next(io, depth)
                        if x is None:
                            break
                        out_.append(x)
                    return ('iter', IterObj(out_))
                if seg in ('skip', 'nth'):
                    for _ in range(n_):
                        if self.iter_next(io, depth) is None:
                            break
                    if seg == 'nth':
                        x = self.iter_next(io, depth)
                        return mk_option(x) if x is not None else mk_option(None)
                    return A[0] if A[0][0] == 'iter' else ('iter', io)
                xs = self.drain(io, depth)
                return ('iter', IterObj(xs[::max(1, n_)]))
            if seg in ('take_while', 'skip_while'):
                xs = self.drain(io, depth)
                i_ = 0
                while i_ < len(xs) and self.truthy(self.call_closure(A[1], [('ref', Cell(xs[i_]))], depth)):
                    i_ += 1
                return ('iter', IterObj(xs[:i_] if seg == 'take_while' else xs[i_:]))
            if seg == 'last':
                xs = self.drain(io, depth)
                return mk_option(xs[-1]) if xs else mk_option(None)
            if seg in ('find', 'position', 'find_map'):
                i_ = 0
                while True:
                    x = self.iter_next(io, depth)
                    if x is None:
                        return mk_option(None)
                    if seg == 'find_map':
                        r = self.deref_all(self.call_closure(A[1], [x], depth))
                        if r[2] == 1:
                            return r
                    elif self.truthy(self.call_closure(A[1], [('ref', Cell(x))] if seg == 'find' else [x], depth)):
                        return mk_option(x) if seg == 'find' else mk_option(('int', i_))
                    i_ += 1
            if seg in ('flatten', 'flat_map'):
                out_ = []
                for x in self.drain(io, depth):
                    y = self.call_closure(A[1], [x], depth) if seg == 'flat_map' else x
                    out_.extend(self.drain(self.as_iter(y), depth))
                return ('iter', IterObj(out_))
            if seg in ('eq', 'ne') and len(A) == 2:
                a_ = [self.deref_all(x) for x in self.drain(io, depth)]
                b_ = [self.deref_all(x) for x in self.drain(self.as_iter(A[1]), depth)]
                if any(x is None or x[0] not in ('key', 'int', 'ts', 'bool', 'addr') for x in a_ + b_):
                    raise Unmodelled('Iterator::eq over %s' % sorted({x[0] if x else 'None' for x in a_ + b_}))
                same = a_ == b_
                return mk_bool(same if seg == 'eq' else not same)
            if seg == 'unzip':
                xs = [self.deref_all(x) for x in self.drain(io, depth)]
                if any(x is None or x[0] != 'tuple' or len(x[1]) != 2 for x in xs):
                    raise Unmodelled('unzip of non-pairs')
                body_, t_ = getattr(self, 'cur', (None, None))
                ty_ = body_.local_ty(t_['dest']['l']) if body_ is not None and not t_['dest']['p'] else ''
                halves = []
                parts_ = ty_args_of_tuple(ty_)
                for i_ in (0, 1):
                    vals = [x[1][i_].v for x in xs]
                    h_ = ty_head(parts_[i_]) if len(parts_) == 2 else 'alloc::vec::Vec'
                    if h_ in ('std::collections::hash::set::HashSet', 'alloc::collections::btree::set::BTreeSet'):
                        halves.append(('set', {self.key_of(v) for v in vals}))
                    else:
                        halves.append(('vec', vals))
                return ('tuple', [Cell(halves[0]), Cell(halves[1])])
            if seg == 'zip':
                a_ = self.drain(io, depth)
                b_ = self.drain(self.as_iter(A[1]), depth)
                return ('iter', IterObj([('tuple', [Cell(x), Cell(y)]) for x, y in zip(a_, b_)]))
            raise Unmodelled('%s is not modelled' % name)
        if name == 'core::iter::traits::collect::FromIterator::from_iter':
            return self.collect(self.as_iter(A[0]), t_hint=None, depth=depth)
        if name == 'core::iter::traits::collect::Extend::extend':
            tgt = self.deref_all(A[0])
            xs = self.drain(self.as_iter(A[1]), depth)
            if tgt[0] == 'vec':
                tgt[1].extend(xs)
                return UNIT
            if tgt[0] == 'map':
                for x in xs:
                    x = self.deref_all(x)
                    tgt[1].items[self.key_of(x[1][0].v)] = Cell(self.deref_all(x[1][1].v))
                return UNIT
            if tgt[0] == 'set':
                for x in xs:
                    tgt[1].add(self.key_of(x))
                return UNIT
            raise Unmodelled('extend on %s' % tgt[0])
        if name.startswith('alloc::vec::Vec::') or name.startswith('smallvec::SmallVec::') or name.startswith('alloc::slice::') \
                or name.startswith('core::slice::') or name.startswith('alloc::vec::'):
            if seg in ('new', 'with_capacity', 'new_const'):
                return ('vec', [])
            if seg == 'from_iter':
                return self.collect(self.as_iter(A[0]), None, depth)
            v = self.deref_all(A[0])
            if v is not None and v[0] == 'vec' and seg in ('from_vec', 'into_vec', 'into_boxed_slice', 'into_inner'):
                return v
            if v is not None and v[0] == 'vec' and seg == 'to_vec':
                return ('vec', list(v[1]))
            if v is not None and v[0] == 'vec' and seg in ('chunks', 'chunks_exact') and len(A) == 2:
                nv = self.deref_all(A[1])
                if nv[0] != 'int' or not nv[1]:
                    raise Unmodelled('chunks of an unknown size')
                n_ = nv[1]
                xs_ = v[1]
                if self.symbolic_len and len(xs_) >= 2 and n_ >= len(xs_):
                    n_ = 1       # the abstract collection stands for collections of any size: it may well span several chunks
                parts = [('ref', Cell(('vec', xs_[i:i + n_]))) for i in range(0, len(xs_), n_)]
                if seg == 'chunks_exact':
                    parts = [p_ for p_ in parts if len(p_[1].v[1]) == n_]
                return ('iter', IterObj(parts))
            if v[0] == 'arr':
                if seg in ('iter', 'iter_mut'):
                    return ('iter', IterObj([('ref', c) for c in v[1]]))
                if seg == 'len':
                    return ('int', len(v[1]))
                raise Unmodelled('%s on an array' % name)
            if v[0] == 'iter' and seg == 'next':
                x = self.iter_next(v[1], depth)
                return mk_option(x) if x is not None else mk_option(None)
            if v[0] != 'vec':
                raise Unmodelled('%s on %s' % (name, v[0]))
            xs = v[1]
            if seg == 'push':
                xs.append(A[1])
                return UNIT
            if seg == 'pop':
                return mk_option(xs.pop()) if xs else mk_option(None)
            if seg == 'len':
                # (symbolic_len) the abstract collection stands for collections of any size with this shape: its length is not a known number
                if self.symbolic_len == 'bounded':
                    return ('int', LenInt(len(xs)))
                return ('int', None) if (xs and self.symbolic_len) else ('int', len(xs))
            if seg == 'is_empty':
                return mk_bool(not xs)
            if seg == 'clear':
                del xs[:]
                return UNIT
            if seg in ('reserve', 'shrink_to_fit', 'reserve_exact'):
                return UNIT
            if seg in ('extend', 'extend_from_slice', 'append'):
                src = self.deref_all(A[1])
                if src[0] == 'vec':
                    xs.extend(src[1])
                    if seg == 'append':
                        del src[1][:]
                else:
                    xs.extend(self.drain(self.as_iter(A[1]), depth))
                return UNIT
            if seg in ('iter', 'iter_mut'):
                cells = [Cell(x) for x in xs]
                return ('iter', IterObj([('ref', c) for c in cells]))
            if seg == 'drain' and len(A) >= 2:
                # the range of the drain decides what leaves the vector (`..end`, `start..`, `a..b`, `..`)
                rg_ = self.deref_all(A[1])
                lo_, hi_ = 0, len(xs)
                if rg_ is not None and rg_[0] == 'adt' and rg_[1].startswith('core::ops::range::'):
                    kind_ = rg_[1].rsplit('::', 1)[-1]
                    fs_ = [self.deref_all(c_.v) for c_ in rg_[3]]
                    if any(f_ is None or f_[0] != 'int' or f_[1] is None for f_ in fs_):
                        raise Unmodelled('drain over a range with an unknown bound')
                    ns_ = [int(f_[1]) for f_ in fs_]
                    if kind_ == 'Range':
                        lo_, hi_ = ns_[0], ns_[1]
                    elif kind_ == 'RangeTo':
                        hi_ = ns_[0]
                    elif kind_ == 'RangeFrom':
                        lo_ = ns_[0]
                    elif kind_ == 'RangeToInclusive':
                        hi_ = ns_[0] + 1
                    elif kind_ == 'RangeInclusive':
                        lo_, hi_ = ns_[0], ns_[1] + 1
                    elif kind_ != 'RangeFull':
                        raise Unmodelled('drain over %s' % kind_)
                    if lo_ > hi_ or hi_ > len(xs):
                        raise PanicPath('drain range out of bounds')
                its = list(xs[lo_:hi_])
                del xs[lo_:hi_]
                return ('iter', IterObj(its))
            if seg in ('into_iter', 'drain'):
                its = list(xs)
                if seg == 'drain' or A[0][0] != 'ref':
                    del xs[:]
                return ('iter', IterObj(its))
            if seg in ('sort', 'sort_unstable', 'sort_by_key', 'sort_unstable_by_key', 'sort_by', 'sort_unstable_by', 'sort_by_cached_key'):
                self.sort(xs, seg, A[1] if len(A) > 1 else None, depth)
                return UNIT
            if seg in ('as_slice', 'as_mut_slice', 'deref', 'deref_mut', 'as_ref', 'as_mut'):
                return A[0]
            if seg == 'retain':
                keep = []
                for x in xs:
                    if self.truthy(self.call_closure(A[1], [('ref', Cell(x))], depth)):
                        keep.append(x)
                xs[:] = keep
                return UNIT
            if seg == 'contains':
                tgt = self.deref_all(A[1])
                return mk_bool(any(self.deref_all(x) == tgt for x in xs))
            if seg in ('binary_search', 'binary_search_by_key', 'binary_search_by'):
                # the slice is sorted by the caller's invariant; the answer is the position a linear scan in key order gives
                def kcmp(a, b):
                    a, b = self.deref_all(a), self.deref_all(b)
                    if a[0] == 'key' and b[0] == 'key':
                        return (a[1] > b[1]) - (a[1] < b[1])
                    if a[0] == 'int' and b[0] == 'int' and a[1] is not None and b[1] is not None:
                        return (a[1] > b[1]) - (a[1] < b[1])
                    if a[0] == 'ts' and b[0] == 'ts':
                        return {'<': -1, '=': 0, '>': 1}[self.order.cmp(a[1], b[1])]
                    raise Unmodelled('binary search over %s keys' % a[0])
                def probe(i):
                    x = xs[i]
                    if seg == 'binary_search':
                        return kcmp(x, A[1])
                    if seg == 'binary_search_by_key':
                        return kcmp(self.call_closure(A[2], [('ref', Cell(x))], depth), A[1])
                    o = self.deref_all(self.call_closure(A[1], [('ref', Cell(x))], depth))
                    return o[2] - 1
                # the algorithm itself (core::slice::binary_search_by), NOT "is the element there": on a sequence that is not sorted
                # a binary search misses elements, and that is exactly what a caller relying on it gets
                size = len(xs)
                if size == 0:
                    return ('adt', 'core::result::Result', 1, [Cell(('int', 0))])
                base = 0
                while size > 1:
                    half = size // 2
                    mid = base + half
                    if probe(mid) <= 0:
                        base = mid
                    size -= half
                c = probe(base)
                if c == 0:
                    return ('adt', 'core::result::Result', 0, [Cell(('int', base))])
                return ('adt', 'core::result::Result', 1, [Cell(('int', base + (1 if c < 0 else 0)))])
            if seg in ('remove', 'swap_remove', 'insert', 'get', 'get_mut', 'index', 'index_mut', 'get_unchecked', 'get_unchecked_mut'):
                iv = self.deref_all(A[1])
                if iv[0] != 'int' or iv[1] is None:
                    raise Unmodelled('%s at an unknown position' % name)
                i = iv[1]
                if seg == 'insert':
                    if i > len(xs):
                        raise PanicPath('Vec::insert out of bounds')
                    xs.insert(i, A[2])
                    return UNIT
                if seg in ('get', 'get_mut'):
                    return mk_option(('ref', Cell(xs[i]))) if i < len(xs) else mk_option(None)
                if i >= len(xs):
                    raise PanicPath('%s out of bounds' % seg)
                if seg == 'remove':
                    return xs.pop(i)
                if seg == 'swap_remove':
                    x = xs[i]
                    xs[i] = xs[-1]
                    xs.pop()
                    return x
                return ('ref', Cell(xs[i]))
            if seg in ('first', 'last', 'first_mut', 'last_mut'):
                if not xs:
                    return mk_option(None)
                return mk_option(('ref', Cell(xs[0 if seg.startswith('first') else -1])))
            if seg == 'truncate':
                iv = self.deref_all(A[1])
                if iv[0] != 'int' or iv[1] is None:
                    raise Unmodelled('truncate to an unknown length')
                del xs[iv[1]:]
                return UNIT
            raise Unmodelled('%s is not modelled' % name)
        return NotImplemented

    def drain(self, io, depth):
        out = []
        while True:
            x = self.iter_next(io, depth)
            if x is None:
                return out
            out.append(x)

    def collect(self, io, t_hint, depth):
        body, t = getattr(self, 'cur', (None, None))       # (draining runs closures, which moves `cur`)
        xs = self.drain(io, depth)
        ty = body.local_ty(t['dest']['l']) if body is not None and t is not None and not t['dest']['p'] else ''
        from facts import ty_head
        h = ty_head(ty)
        if h in ('std::collections::hash::set::HashSet', 'alloc::collections::btree::set::BTreeSet'):
            st_ = {self.key_of(x) for x in xs}
            if '<&' in ty.replace(' ', ''):
                self.__dict__.setdefault('ref_sets', set()).add(id(st_))       # a set of references: iterating it yields references
            return ('set', st_)
        if h.endswith('::FuturesUnordered') or h.endswith('::FuturesOrdered'):
            return ('futs', list(xs))
        if h in ('std::collections::hash::map::HashMap', 'alloc::collections::btree::map::BTreeMap'):
            m = MapObj('hash' if 'hash' in h else 'btree')
            for x in xs:
                x = self.deref_all(x)
                m.items[self.key_of(x[1][0].v)] = Cell(self.deref_all(x[1][1].v))
            return ('map', m)
        return ('vec', xs)

    def sort(self, xs, seg, clo, depth):
        import functools

        def keyv(x):
            if seg in ('sort', 'sort_unstable'):
                return x
            return self.call_closure(clo, [('ref', Cell(x))], depth)

        def cmpv(a, b):
            a, b = self.deref_all(a), self.deref_all(b)
            if a[0] == 'ts' and b[0] == 'ts':
                return {'<': -1, '=': 0, '>': 1}[self.order.cmp(a[1], b[1])]
            if a[0] == 'key' and b[0] == 'key':
                return (a[1] > b[1]) - (a[1] < b[1])
            if a[0] == 'bool' and b[0] == 'bool':
                return (a[1] > b[1]) - (a[1] < b[1])
            if a[0] == 'tuple' and b[0] == 'tuple':
                for ca, cb in zip(a[1], b[1]):
                    r = cmpv(ca.v, cb.v)
                    if r:
                        return r
                return 0
            raise Unmodelled('sort key of kind %s' % a[0])
        if seg in ('sort_by', 'sort_unstable_by'):
            def c2(a, b):
                o = self.call_closure(clo, [('ref', Cell(a)), ('ref', Cell(b))], depth)
                return ORDERING_DISCR[o[2]]
            xs.sort(key=functools.cmp_to_key(c2))
            return
        keyed = [(keyv(x), x) for x in xs]
        keyed.sort(key=functools.cmp_to_key(lambda p, q: cmpv(p[0], q[0])))
        xs[:] = [x for _k, x in keyed]


def explore(make_run):
    """enumerate every resolution of the nondeterministic choices: make_run(choices) runs one interpretation and returns a
    result, or raises NeedChoice.  Returns [(oracle_log, result)]."""
    out = []
    work = [[]]
    while work:
        ch = work.pop()
        try:
            log, res = make_run(ch)
            out.append((log, res))
        except PanicPath as e:
            out.append((list(ch), ('panic', str(e))))
        except NeedChoice:
            work.append(ch + [True])
            work.append(ch + [False])
        if len(out) > 4096:
            raise Unmodelled('too many oracle resolutions')
    return out
