"""Thorough tier: stored mutants.  Each patch in mutants/<Cxx>/ is a realistic single-site edit of
/repo that compiles; the property's rule must report it.  Scratch copies live under a mktemp
directory outside /repo and /verif and are removed before returning."""
import time
import os
import shutil
import subprocess
import tempfile

import engine

MUT_DIR = os.path.join(engine.VERIF, 'mutants')


def parse_header(path):
    meta = {'what': '', 'expect': ''}
    with open(path) as f:
        for line in f:
            if line.startswith('# what:'):
                meta['what'] = line[7:].strip()
            elif line.startswith('# expect:'):
                meta['expect'] = line[9:].strip()
            elif not line.startswith('#'):
                break
    return meta


def scratch_copy(repo):
    # (bin/seedverify applies a seeded change to /repo for the duration of a check and says so through this file: wait for it to be undone)
    lock = '/tmp/.dc_repo_patched.lock'
    d = tempfile.mkdtemp(prefix='dcmut.')
    for _ in range(600):
        if os.path.exists(lock) and repo == engine.REPO:
            time.sleep(2)
            continue
        subprocess.check_call(['rsync', '-a', '--delete', '--exclude', 'target', '--exclude', '.git', repo + '/', d + '/'])
        if not (os.path.exists(lock) and repo == engine.REPO):
            break
    return d


def run_patch(pid, mod, patch, repo=None, keep=False, header=None):
    repo = repo or engine.REPO
    meta = header or parse_header(patch)
    name = os.path.basename(patch)
    d = scratch_copy(repo)
    try:
        p = subprocess.run(['patch', '-p1', '--no-backup-if-mismatch', '-s', '-i', patch], cwd=d,
                           stdout=subprocess.PIPE, stderr=subprocess.STDOUT, text=True)
        if p.returncode != 0:
            return {'name': name, 'status': 'not-applicable', 'what': meta['what'], 'expect': meta['expect'],
                    'note': 'patch does not apply to this tree: ' + p.stdout[-300:]}
        try:
            facts_dir, h, _n = engine.ensure_facts(list(mod.CONFIGS), repo=d)
        except engine.ExtractionError as e:
            return {'name': name, 'status': 'does-not-compile', 'what': meta['what'], 'expect': meta['expect'],
                    'note': str(e)[-600:]}
        ctx = engine.Ctx(facts_dir, 'quick')
        mod.check(ctx)
        expects = [e.strip() for e in meta['expect'].split(',') if e.strip()]
        viol = [o for o in ctx.obs if not o.ok]
        shutil.rmtree(facts_dir, ignore_errors=True)
        if expects == ['none']:
            # a behaviour-preserving variant (accepted idiom): the rules must stay silent apart from listed known findings
            known = {k['key'] for k in engine.load_known() if k['status'] == 'known'}
            extra = [o for o in viol if o.full_key not in known]
            return {'name': name, 'status': 'quiet' if not extra else 'false-alarm', 'what': meta['what'],
                    'expect': 'none', 'reported': sorted({o.full_key for o in extra})[:12]}
        # a listed known finding is reported on every tree: it never counts as detecting the change
        known = {k['key'] for k in engine.load_known() if k['status'] == 'known'}
        viol = [o for o in viol if o.full_key not in known]
        hit = [o for o in viol if any(o.rule == e or o.rule.startswith(e) for e in expects)]
        return {'name': name, 'status': 'killed' if hit else 'missed', 'what': meta['what'],
                'expect': meta['expect'], 'reported': sorted({o.full_key for o in viol})[:12]}
    finally:
        if not keep:
            shutil.rmtree(d, ignore_errors=True)


def seeded_patches(pid):
    """changes written by independent sub-agents for this property (seeded/<id>/patch.diff)"""
    out = []
    sd = os.path.join(engine.VERIF, 'seeded')
    if os.path.isdir(sd):
        for d in sorted(os.listdir(sd)):
            p = os.path.join(sd, d, 'patch.diff')
            m = os.path.join(sd, d, 'meta.json')
            if os.path.exists(p) and os.path.exists(m):
                try:
                    import json
                    prop = json.load(open(m)).get('property')
                except Exception:
                    prop = None
                if prop == pid or d.startswith(pid):
                    out.append((d, p))
    return out


def run_for(pid, mod):
    d = os.path.join(MUT_DIR, pid)
    res = []
    if os.path.isdir(d):
        for f in sorted(os.listdir(d)):
            if f.endswith('.patch'):
                res.append(run_patch(pid, mod, os.path.join(d, f)))
    for name, p in seeded_patches(pid):
        r = run_patch(pid, mod, p, header={'what': 'seeded change %s (independent sub-agent)' % name, 'expect': pid})
        r['name'] = 'seeded/' + name
        res.append(r)
    return {'results': res,
            'killed': len([r for r in res if r['status'] == 'killed']),
            'missed': len([r for r in res if r['status'] == 'missed']),
            'quiet_on_conforming_variants': len([r for r in res if r['status'] == 'quiet']),
            'false_alarms': len([r for r in res if r['status'] == 'false-alarm']),
            'not_applicable': len([r for r in res if r['status'] not in ('killed', 'missed', 'quiet', 'false-alarm')])}
