"""Fact base: loading the extractor's JSON and the CFG/dataflow primitives (DESIGN §4).

Everything here works on the pre-lowering MIR of one body with *normal* edges
only (cleanup blocks and unwind edges are not recorded as successors).
"""
import json
import os
import re
from functools import lru_cache

# ---------------------------------------------------------------------------
# path helpers
# ---------------------------------------------------------------------------

_GEN = re.compile(r'::<')


def strip_generics(path):
    """`a::B::<T, U>::c` -> `a::B::c`; `<X<N> as T<U>>::m` keeps the qualified head
    but strips generics inside it."""
    if path is None:
        return None
    out = []
    depth = 0
    i = 0
    n = len(path)
    # qualified paths `<A as B>::m` start with '<' at depth 0: keep that bracket pair
    keep_stack = []
    while i < n:
        c = path[i]
        if c == '<':
            # generic args are introduced by `::<` or directly after an identifier
            # (types printed as `Foo<T>`); the qualified-self bracket follows
            # start-of-string, space, '(' , '&', ',' or another '<'
            prev = path[i - 1] if i > 0 else ''
            is_generic = (prev.isalnum() or prev == '_' or prev == '>' or path[max(0, i - 2):i] == '::')
            if path.startswith('<impl ', i):
                is_generic = False
            if depth > 0:
                depth += 1
            elif is_generic:
                depth = 1
                if out[-2:] == [':', ':']:
                    out = out[:-2]
            else:
                keep_stack.append(True)
                out.append(c)
            i += 1
            continue
        if c == '>':
            prev = path[i - 1] if i > 0 else ''
            if prev == '-':  # `->`
                if depth == 0:
                    out.append(c)
                i += 1
                continue
            if depth > 0:
                depth -= 1
            else:
                if keep_stack:
                    keep_stack.pop()
                out.append(c)
            i += 1
            continue
        if depth == 0:
            out.append(c)
        i += 1
    return ''.join(out)


def last_seg(path):
    p = strip_generics(path)
    return p.rsplit('::', 1)[-1] if p else p


def split_top(s, sep=','):
    """split on sep at bracket depth 0"""
    parts, depth, cur = [], 0, []
    i = 0
    while i < len(s):
        c = s[i]
        if c in '<([{':
            depth += 1
        elif c in '>)]}':
            if c == '>' and i > 0 and s[i - 1] == '-':
                pass
            else:
                depth -= 1
        if c == sep and depth == 0:
            parts.append(''.join(cur).strip())
            cur = []
        else:
            cur.append(c)
        i += 1
    if ''.join(cur).strip():
        parts.append(''.join(cur).strip())
    return parts


def ty_head(ty):
    """head path of a type string, references and `mut` stripped"""
    t = ty.strip()
    while True:
        if t.startswith('&'):
            t = t[1:].lstrip()
            if t.startswith("'"):
                t = t.split(' ', 1)[1] if ' ' in t else t
            if t.startswith('mut '):
                t = t[4:]
            continue
        if t.startswith('*const ') or t.startswith('*mut '):
            t = t.split(' ', 1)[1]
            continue
        break
    m = re.match(r'[A-Za-z_][A-Za-z0-9_:]*', t)
    return m.group(0).rstrip(':') if m else t


def ty_args(ty):
    """top-level generic args of a type string `Head<A, B>` -> [A, B]"""
    t = ty.strip()
    i = t.find('<')
    if i < 0 or not t.endswith('>'):
        return []
    return split_top(t[i + 1:-1])


# ---------------------------------------------------------------------------
# places / operands
# ---------------------------------------------------------------------------

def op_place(op):
    return op['pl'] if op and op.get('k') in ('copy', 'move') else None


def op_local(op):
    p = op_place(op)
    return p['l'] if p else None


def op_const(op):
    return op['c'] if op and op.get('k') == 'const' else None


def const_int(op):
    c = op_const(op)
    if c and 'val' in c:
        return int(c['val'])
    return None


def place_str(p):
    s = '_%d' % p['l']
    for e in p['p']:
        if e == '*':
            s = '(*%s)' % s
        elif isinstance(e, dict):
            if 'f' in e:
                s = '%s.%d' % (s, e['f'])
            elif 'd' in e:
                s = '(%s as %s)' % (s, e.get('n') or e['d'])
            elif 'i' in e:
                s = '%s[_%d]' % (s, e['i'])
            elif 'ci' in e:
                s = '%s[%s%d]' % (s, '-' if e['end'] else '', e['ci'])
            elif 'sub' in e:
                s = '%s[%d..%d]' % (s, e['sub'][0], e['sub'][1])
        else:
            s = '%s.<%s>' % (s, e)
    return s


def op_str(op):
    if op is None:
        return '?'
    k = op.get('k')
    if k in ('copy', 'move'):
        return ('move ' if k == 'move' else '') + place_str(op['pl'])
    if k == 'const':
        c = op['c']
        if 'val' in c:
            return 'const %s_%s' % (c['val'], c['ty'])
        if 'str' in c:
            return 'const %r' % c['str'][:60]
        if 'fn' in c:
            return 'fn %s' % c['fn']
        if 'uneval' in c:
            return 'const {%s%s}' % (c['uneval'], ('#p%d' % c['promoted']) if 'promoted' in c else '')
        return 'const <%s>' % c['ty']
    return k


def rv_str(rv):
    k = rv['k']
    if k == 'use':
        return op_str(rv['op'])
    if k == 'ref':
        return '&%s%s' % ('mut ' if rv['mut'] else '', place_str(rv['pl']))
    if k == 'rawptr':
        return '&raw %s' % place_str(rv['pl'])
    if k == 'cast':
        return '%s as %s (%s)' % (op_str(rv['op']), rv['ty'], rv['ck'])
    if k == 'bin':
        return '%s(%s, %s)' % (rv['op'], op_str(rv['a']), op_str(rv['b']))
    if k == 'un':
        return '%s(%s)' % (rv['op'], op_str(rv['a']))
    if k == 'discr':
        return 'discriminant(%s)' % place_str(rv['pl'])
    if k == 'copyderef':
        return 'deref_copy %s' % place_str(rv['pl'])
    if k == 'aggregate':
        ops = ', '.join(op_str(o) for o in rv['ops'])
        a = rv['agg']
        if a == 'adt':
            return '%s::%s{%s}' % (rv['adt'], rv['vname'], ops)
        if a in ('closure', 'coroutine', 'coroutine_closure'):
            return '[%s %s](%s)' % (a, rv['def'], ops)
        return '%s(%s)' % (a, ops)
    if k == 'repeat':
        return '[%s; _]' % op_str(rv['op'])
    return k


class Body:
    def __init__(self, d, crate, cfg):
        self.d = d
        self.crate = crate
        self.cfg = cfg
        self.defp = d['def']
        self.name = strip_generics(d['def'])
        # a promoted constant of a body is not that body: rules that select bodies by kind never mean it
        self.owner_kind = d['kind']
        self.kind = 'promoted' if d.get('promoted') else d['kind']
        self.parent = d['parent']
        self.impl = d['impl']
        self.derived = d['derived']
        self.file = d['span']['f']
        self.line = d['span']['l']
        self.argc = d['argc']
        self.locals = d['locals']
        self.blocks = d['blocks']
        self.dbg = d['dbg']
        self._succ = None
        self._pred = None
        self._dom = None

    def __repr__(self):
        return '<Body %s>' % self.name

    # -- names -------------------------------------------------------------
    def local_names(self):
        """local index -> debug name (direct locals only)"""
        out = {}
        for v in self.dbg:
            val = v['v']
            if 'l' in val and not val['p']:
                out.setdefault(val['l'], v['name'])
        return out

    def upvar_names(self):
        """for closures/coroutines: field index of _1 -> captured variable name"""
        out = {}
        for v in self.dbg:
            val = v['v']
            if 'l' in val and val['l'] == 1 and val['p']:
                for e in val['p']:
                    if isinstance(e, dict) and 'f' in e:
                        out.setdefault(e['f'], v['name'])
                        break
        return out

    def local_ty(self, l):
        return self.locals[l]['ty']

    # -- CFG ---------------------------------------------------------------
    def term(self, b):
        return self.blocks[b]['t']

    def succ(self, b):
        if self._succ is None:
            self._build_cfg()
        return self._succ[b]

    def pred(self, b):
        if self._pred is None:
            self._build_cfg()
        return self._pred[b]

    def _build_cfg(self):
        n = len(self.blocks)
        succ = [[] for _ in range(n)]
        for i, blk in enumerate(self.blocks):
            t = blk['t']
            k = t['k']
            if k in ('goto', 'drop', 'assert', 'yield'):
                succ[i] = [t['target']]
            elif k == 'call':
                if t['target'] is not None:
                    succ[i] = [t['target']]
            elif k == 'switch':
                s = [x[1] for x in t['targets']] + [t['otherwise']]
                seen = []
                for x in s:
                    if x not in seen:
                        seen.append(x)
                succ[i] = seen
        pred = [[] for _ in range(n)]
        for i, ss in enumerate(succ):
            for s in ss:
                pred[s].append(i)
        self._succ, self._pred = succ, pred

    def reachable_from(self, starts, avoid=(), avoid_edges=()):
        """blocks reachable from `starts` (inclusive) without entering `avoid` blocks
        or crossing `avoid_edges` (set of (a,b))."""
        avoid = set(avoid)
        avoid_edges = set(avoid_edges)
        seen = set()
        work = [s for s in starts if s not in avoid]
        while work:
            b = work.pop()
            if b in seen:
                continue
            seen.add(b)
            for s in self.succ(b):
                if s in avoid or (b, s) in avoid_edges or s in seen:
                    continue
                work.append(s)
        return seen

    def reachable(self):
        return self.reachable_from([0])

    def return_blocks(self):
        r = self.reachable()
        return [i for i in r if self.term(i)['k'] == 'return']

    def dominators(self):
        """block -> set of dominating blocks (iterative; bodies are small)"""
        if self._dom is not None:
            return self._dom
        reach = self.reachable()
        order = sorted(reach)
        dom = {b: set(order) for b in order}
        dom[0] = {0}
        changed = True
        while changed:
            changed = False
            for b in order:
                if b == 0:
                    continue
                ps = [p for p in self.pred(b) if p in reach]
                if not ps:
                    continue
                new = set.intersection(*(dom[p] for p in ps)) | {b}
                if new != dom[b]:
                    dom[b] = new
                    changed = True
        self._dom = dom
        return dom

    def dominates(self, a, b):
        d = self.dominators()
        return b in d and a in d[b]

    def edge_dominates(self, edge, b):
        """every path entry->b crosses edge (a,s)"""
        a, s = edge
        if b not in self.reachable():
            return True
        r = self.reachable_from([0], avoid_edges=[(a, s)])
        return b not in r

    def must_pass(self, start_blocks, through, targets):
        """every path from start_blocks to any of targets passes through a block in `through`"""
        r = self.reachable_from(start_blocks, avoid=through)
        return not (set(targets) & r)

    # -- statements / calls --------------------------------------------------
    def calls(self):
        """yield (block index, terminator) for every Call in reachable, non-cleanup blocks"""
        for i, blk in enumerate(self.blocks):
            if blk['cleanup']:
                continue
            t = blk['t']
            if t['k'] == 'call':
                yield i, t

    def callee(self, t):
        """normalised callee path (resolved impl if known)"""
        return strip_generics(t.get('resolved') or t.get('callee'))

    def callee_decl(self, t):
        return strip_generics(t.get('callee'))

    def assigns(self):
        for i, blk in enumerate(self.blocks):
            if blk['cleanup']:
                continue
            for j, s in enumerate(blk['s']):
                if s['k'] == 'assign':
                    yield i, j, s

    def dump(self, out=None):
        import sys
        out = out or sys.stdout
        names = self.local_names()
        out.write('== %s [%s] %s:%d argc=%d\n' % (self.defp, self.kind, self.file, self.line, self.argc))
        up = self.upvar_names()
        if up:
            out.write('   upvars: %s\n' % up)
        for i, l in enumerate(self.locals):
            out.write('   let _%d: %s%s\n' % (i, l['ty'], ('  // ' + names[i]) if i in names else ''))
        for i, blk in enumerate(self.blocks):
            if blk['cleanup']:
                continue
            out.write(' bb%d:\n' % i)
            for s in blk['s']:
                if s['k'] == 'assign':
                    out.write('    %s = %s   // L%s\n' % (place_str(s['lhs']), rv_str(s['rv']), s['cs']))
                elif s['k'] == 'setdiscr':
                    out.write('    discriminant(%s) = %d\n' % (place_str(s['lhs']), s['variant']))
            t = blk['t']
            k = t['k']
            if k == 'call':
                out.write('    %s = %s(%s) -> %s   // L%s%s\n' % (
                    place_str(t['dest']), t.get('resolved_inst') or t.get('callee_inst') or op_str(t['func']),
                    ', '.join(op_str(a) for a in t['args']),
                    ('bb%d' % t['target']) if t['target'] is not None else '!', t['cs'],
                    ' [exp]' if t['x'] else ''))
            elif k == 'switch':
                out.write('    switch %s -> %s otherwise bb%d\n' % (
                    op_str(t['discr']), ', '.join('%s:bb%d' % (v, b) for v, b in t['targets']), t['otherwise']))
            elif k == 'goto':
                out.write('    goto bb%d\n' % t['target'])
            elif k == 'drop':
                out.write('    drop(%s) -> bb%d\n' % (place_str(t['pl']), t['target']))
            elif k == 'assert':
                out.write('    assert(%s == %s, %s) -> bb%d\n' % (op_str(t['cond']), t['expected'], t['msg'], t['target']))
            elif k == 'yield':
                out.write('    %s = yield(%s) -> bb%d\n' % (place_str(t['resume_arg']), op_str(t['value']), t['target']))
            else:
                out.write('    %s\n' % k)


class Facts:
    """All fact files of one configuration."""

    def __init__(self, directory, cfg):
        self.cfg = cfg
        self.dir = directory
        self.crates = {}
        self.bodies = {}      # def path (with generics) -> Body
        self.by_name = {}     # stripped name -> [Body]
        self.adts = {}
        self.impls = []
        self.fns = {}
        self.moved = {}       # actual path -> canonical path of items that live in another module than on the pinned tree
        self.renamed = {}
        self.new_fns = set()
        for fn in sorted(os.listdir(directory)):
            if not fn.endswith('.%s.json' % cfg):
                continue
            with open(os.path.join(directory, fn)) as f:
                text = f.read()
            d = json.loads(text)
            text2 = self._canonicalise(text, d)
            if text2 is not text:
                d = json.loads(text2)
            # renamed private items get their reference names back; functions without a counterpart on the pinned tree are
            # remembered so that they can be inlined into their callers (normalize.py)
            import normalize
            ren, fld, var, new_fns = normalize.plan(d)
            if ren:
                d = json.loads(normalize.apply_text(text2, ren))
                self.renamed.update(ren)
                ren2, fld, var, new_fns = normalize.plan(d)
            normalize.apply_struct(d, fld, var)
            self.new_fns |= new_fns
            cr = d['crate']
            self.crates[cr] = d
            for bd in d['bodies']:
                b = Body(bd, cr, cfg)
                self.bodies[b.defp] = b
                self.by_name.setdefault(b.name, []).append(b)
            for a in d['adts']:
                self.adts[a['def']] = a
            for im in d['impls']:
                im['crate'] = cr
                self.impls.append(im)
            for f_ in d['fns']:
                f_['crate'] = cr
                self.fns[strip_generics(f_['def'])] = f_
        self._children = None
        self.pristine = {}
        if self.new_fns:
            self._inline_new_helpers()

    def _inline_new_helpers(self):
        """a synchronous function that has no counterpart on the pinned tree (an extracted helper) is inlined into its callers:
        rules written against one body keep seeing the whole mechanism"""
        import inline
        new = set(self.new_fns)
        self.pristine = {}
        for defp, b in list(self.bodies.items()):
            if b.d['promoted']:
                continue
            if not any(t.get('callee') and strip_generics(t.get('resolved') or t['callee']).rsplit('::{closure#0}', 1)[0] in new for _i, t in b.calls()):
                continue
            try:
                nb = inline.inline_calls(self, b, should_inline=lambda cal, t, depth: cal.name in new, max_depth=4)
                if b.kind == 'coroutine':
                    # awaited new async helpers: their coroutine body replaces the poll in the await loop
                    nb = inline.inline_awaits(self, nb, lambda k: k.name.rsplit('::{closure#0}', 1)[0] in new)
                    nb = inline.inline_calls(self, nb, should_inline=lambda cal, t, depth: cal.name in new, max_depth=4)
            except Exception:
                continue
            self.pristine[defp] = b        # the interpreters follow calls themselves and want the body as written
            self.bodies[defp] = nb
            lst = self.by_name.get(b.name, [])
            self.by_name[b.name] = [nb if x is b else x for x in lst]

    _CANON = None

    def _canonicalise(self, text, d):
        """Module moves are behaviour-neutral: an item (type, free function, constant) that now lives in another private
        module of its crate is given back the path it has on the pinned tree (rules/canon_paths.json), everywhere in the
        fact file, so that rules keyed on paths keep finding it.  Renamed items are NOT mapped."""
        if Facts._CANON is None:
            p = os.path.join(os.path.dirname(os.path.abspath(__file__)), 'canon_paths.json')
            Facts._CANON = json.load(open(p)) if os.path.exists(p) else {}
        cr = d['crate']
        canon = Facts._CANON.get(cr)
        if not canon:
            return text
        here = {}
        for a in d['adts']:
            here.setdefault(a['def'].rsplit('::', 1)[-1], set()).add(a['def'])
        for b in d['bodies']:
            if b['kind'] in ('fn', 'static', 'const') and not b['parent'] and not b['impl'] and not b['promoted']:
                p = re.sub(r'::<.*$', '', b['def'])
                here.setdefault(p.rsplit('::', 1)[-1], set()).add(p)
        repl = {}
        for name, paths in here.items():
            want = canon.get(name)
            if want and len(paths) == 1:
                have = next(iter(paths))
                if have != want and have.startswith(cr + '::') and want not in paths:
                    repl[have] = want
        if not repl:
            return text
        self.moved.update(repl)
        for have in sorted(repl, key=len, reverse=True):
            text = re.sub(re.escape(have) + r'(?![A-Za-z0-9_])', repl[have], text)
        return text

    def body(self, name):
        """unique body by stripped name"""
        bs = self.by_name.get(name, [])
        bs = [b for b in bs if not b.d['promoted']]
        if len(bs) == 1:
            return bs[0]
        return None

    def find(self, pattern, crate=None):
        rx = re.compile(pattern)
        return [b for b in self.bodies.values()
                if rx.search(b.name) and (crate is None or b.crate == crate) and not b.d['promoted']]

    def children(self, body):
        if self._children is None:
            ch = {}
            for b in self.bodies.values():
                if b.parent and not b.d['promoted']:
                    ch.setdefault(b.parent, []).append(b)
            self._children = ch
        return self._children.get(body.defp, [])

    def group(self, body):
        """body group: the body plus every body nested under it"""
        out = [body]
        work = [body]
        while work:
            b = work.pop()
            for c in self.children(b):
                out.append(c)
                work.append(c)
        return out

    def root_of(self, body):
        b = body
        while b.parent and b.parent in self.bodies:
            b = self.bodies[b.parent]
        return b

    def stats(self):
        nb = len(self.bodies)
        nblk = sum(len(b.blocks) for b in self.bodies.values())
        ncalls = sum(1 for b in self.bodies.values() for _ in b.calls())
        return {'bodies': nb, 'blocks': nblk, 'call_sites': ncalls, 'crates': sorted(self.crates)}
