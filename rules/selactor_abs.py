"""C15.N1.SEM / C06.W7.SEM: membership snapshot -> watcher -> selector actor -> selection, end to end (P-TRACE).

The membership watcher is interpreted over its scripted snapshots (watcher_abs) and what it hands to `NodeSelectorHandle::set_nodes`
is captured — whatever type that is.  The selector actor is started through the real `start_node_selector` (so its state is what
the code initialises), the captured payloads are sent to it through the real `set_nodes`, requests through the real `get_nodes`,
and the actor's loop is interpreted over the queue

    [update(snapshot 1), request, update(snapshot 2), request, request, update(snapshot 5: alone), request]

with `NodeSelector::select_nodes` a modelled effect that records the layout it is shown, and the freshness test of the cache explored
both ways.  Decided on every path: each request is answered with a selection made from the layout of the LATEST update before it —
exactly the members of that snapshot grouped by their data centre, with the matching total — never one made (or cached) before that
update, never a layout that still holds a data centre or node of an earlier snapshot.  Snapshot 2 replaces one data centre by
another (the number of data centres does not change)."""
import re
import absint
from absint import Interp, Order, Cell, MapObj, Unmodelled, UNIT, mk_option, mk_bool
from facts import strip_generics, last_seg, ty_head
import actor_abs
from actor_abs import World, Chan, ok, err, upvar_types
import watcher_abs
import registry_abs

NODE = 'datacake_node'
# (indices into watcher_abs.SNAPSHOTS: 0 {n1,n2}; 1 n1's data centre leaves, n3's joins; 4 everybody leaves; 6 {n4}; 7 n5 joins n4)
PLAN = [('set', 0), ('get', 'g1'), ('set', 1), ('get', 'g2'), ('get', 'g3'), ('set', 4), ('get', 'g4'), ('set', 6), ('get', 'g5'), ('set', 7), ('get', 'g6')]
LOCAL = 'a0'


def expected_layout(i):
    snap = watcher_abs.SNAPSHOTS[i]
    out = {}
    for n, a in snap.items():
        out.setdefault(watcher_abs.DCS[n], set()).add(a)
    return out, len(snap)


class SelWorld(World):
    def __init__(self, facts):
        World.__init__(self, hooks=[self.hook])
        self.facts = facts
        self.chan = Chan()
        self.chan.sent = self.chan.script           # what is sent is what the actor receives
        self.spawned = []
        self.calls = []
        self.gone = None          # the reply channel (oneshot number) whose requester has gone away: sending the reply fails

    def layout_of(self, interp, v):
        v = interp.deref_all(v)
        # the layout map may sit inside a struct: the first map found
        seen = 0
        while v is not None and v[0] == 'adt' and seen < 4:
            nxt = None
            for c in v[3]:
                x = interp.deref_all(c.v)
                if x is not None and x[0] == 'map':
                    nxt = x
                    break
            if nxt is None:
                break
            v = nxt
            seen += 1
        if v is None or v[0] != 'map':
            raise Unmodelled('the layout shown to the selector is not a map')
        out = {}
        for k, c in v[1].items.items():
            nodes = []

            def dig(x, d=0):
                x = interp.deref_all(x)
                if x is None or d > 5:
                    return
                if x[0] == 'vec':
                    for y in x[1]:
                        y = interp.deref_all(y.v if isinstance(y, Cell) else y)
                        if y is not None and y[0] == 'addr':
                            nodes.append(y[1])
                elif x[0] == 'adt':
                    for cc in x[3]:
                        dig(cc.v, d + 1)
            dig(c.v)
            out[absint.Interp.unkey(k) if hasattr(absint.Interp, 'unkey') and isinstance(k, str) and k.startswith('T\x1f') else k] = set(nodes)
        return out

    def hook(self, world, interp, name, args, t, body):
        seg = last_seg(name)
        if 'oneshot' in name and seg == 'send' and args and self.gone is not None:
            tx = interp.deref_all(args[0])
            if tx is not None and tx[0] == 'otx' and tx[1] == self.gone:
                self.trace.append(('reply-failed', tx[1]))
                return err(args[1])          # (the receiver was dropped: the value comes back)
        if name.startswith('flume::') and seg in ('bounded', 'unbounded'):
            return ('tuple', [Cell(('chan', self.chan)), Cell(('chan', self.chan))])
        if name in ('tokio::task::spawn::spawn', 'tokio::task::spawn', 'tokio::spawn') and args:
            self.spawned.append(args[-1])
            return ('opaque', 'join-handle')
        if name.endswith('::NodeSelector::select_nodes') and len(args) >= 5:
            total = interp.deref_all(args[3])
            lay = None
            for a in args[1:]:
                x = interp.deref_all(a)
                if x is not None and (x[0] == 'map' or (x[0] == 'adt' and x[1].startswith(NODE))):
                    try:
                        lay = self.layout_of(interp, a)
                        break
                    except Unmodelled:
                        continue
            if lay is None:
                raise Unmodelled('the layout handed to select_nodes was not recognised')
            self.calls.append({'layout': lay, 'total': total[1] if total and total[0] == 'int' else None})
            # the selection: every node of the layout shown other than the local one (so a selection made for another membership differs)
            return ok(('vec', [('addr', a) for a in sorted({x for v in lay.values() for x in v}) if a != LOCAL]))
        if name.startswith('std::time::Instant::') or name.startswith('tokio::time::instant::Instant::'):
            return ('opaque', 'instant') if seg == 'now' else ('opaque', 'elapsed')
        return None


def check_selector_actor(ctx, facts, rule):
    from orswot_abs import _fallback
    try:
        # (a) what the watcher tells the selector, per snapshot
        ws = watcher_abs.find_watcher(facts)
        if len(ws) != 1:
            raise Unmodelled('membership watcher not identified by role')
        wres = watcher_abs.run_watcher(facts, ws[0][0], ws[0][1], want_payloads=True)
        payloads = None
        for log, res in wres:
            if isinstance(res, tuple) and res and res[0] == 'panic':
                continue
            _pub, pays = res
            by_tick = {}
            for tick, v in pays:
                by_tick[tick] = v
            payloads = by_tick
            break
        if not payloads or any((i + 1) not in payloads for _k, i in PLAN if _k == 'set'):
            raise Unmodelled('the watcher does not tell the selector about every snapshot')
        start = [b for b in facts.bodies.values() if b.crate == NODE and b.kind == 'coroutine' and b.cfg is not None and b.name.endswith('::start_node_selector::{closure#0}')]
        setn = [b for b in facts.bodies.values() if b.crate == NODE and b.kind == 'coroutine' and b.cfg is not None and b.name.endswith('::NodeSelectorHandle::set_nodes::{closure#0}')]
        getn = [b for b in facts.bodies.values() if b.crate == NODE and b.kind == 'coroutine' and b.cfg is not None and b.name.endswith('::NodeSelectorHandle::get_nodes::{closure#0}')]
        cons = [n for n in facts.adts if n.startswith(NODE + '::') and n.endswith('::Consistency')]
        if len(start) != 1 or len(setn) != 1 or len(getn) != 1 or len(cons) != 1:
            raise Unmodelled('start_node_selector / set_nodes / get_nodes not found')
        start, setn, getn = start[0], setn[0], getn[0]
        level = [i for i, v in enumerate(facts.adts[cons[0]]['variants']) if v['name'] == 'One']
        if not level:
            raise Unmodelled('Consistency::One not found')

        def run(choices, gone_request=None):
            world = SelWorld(facts)
            it = Interp(facts, Order({}), opaque_call=world.call, step_limit=400000)
            it.poll_hook = world.poll
            it.unknown_call = actor_abs.lenient_unknown
            it.opaque_fields = True
            it.choices = list(choices)

            def coroutine(body, by_type):
                ups = upvar_types(body)
                upv = {}
                for i, ty in ups.items():
                    upv[i] = by_type(ty)
                n = max(upv) + 1 if upv else 1
                st = ('closure', body.defp, [Cell(upv.get(i, ('opaque', 'u'))) for i in range(n)])
                return it.deref_all(it.run_body(body, [st, ('opaque', 'cx')]))
            # (b) the actor, started by the real constructor
            handle = coroutine(start, lambda ty: ('addr', 'a0') if 'SocketAddr' in ty else ('key', 'dcA') if ('Cow<' in ty or 'String' in ty or ty == '&str') else ('opaque', 'selector'))
            if handle is None or handle[0] != 'adt' or len(world.spawned) != 1:
                raise Unmodelled('start_node_selector does not spawn one actor and return a handle')
            actor = it.deref_all(world.spawned[0])
            if actor is None or actor[0] != 'closure':
                raise Unmodelled('the spawned actor is not a future of the crate')
            # (c) the queue, through the real handle
            gets = []
            for kind, x in PLAN:
                if kind == 'set':
                    pv = absint.clone_value(it.deref_all(payloads[x + 1]))           # (a fresh copy per run: the actor consumes it)
                    coroutine(setn, lambda ty, pv=pv: ('ref', Cell(handle)) if 'NodeSelectorHandle' in ty else pv)
                else:
                    before = world.n_oneshot
                    try:
                        coroutine(getn, lambda ty: ('ref', Cell(handle)) if 'NodeSelectorHandle' in ty else ('adt', cons[0], level[0], []))
                    except (absint.PanicPath, Unmodelled):
                        pass         # (the reply is not there yet: the request itself is in the queue)
                    gets.append((x, world.n_oneshot))
                    if world.n_oneshot != before + 1:
                        raise Unmodelled('get_nodes does not create one reply channel')
            queue = list(world.chan.script)
            if len(queue) != len(PLAN):
                raise Unmodelled('%d operations reached the queue for %d calls' % (len(queue), len(PLAN)))
            # (d) the actor's loop over the queue
            world.trace[:] = []
            world.calls[:] = []
            if gone_request is not None:
                world.gone = dict(gets)[gone_request]
            it.poll_coroutine(('ref', Cell(actor)), 0)
            replies = {e[1]: e[2] for e in world.trace if e[0] == 'reply'}
            return it.oracle_log, (gets, replies, list(world.calls))
        results = absint.explore(run)
        # the same queue once more, with the requester of g2 gone by the time the actor replies (a caller that timed out or was cancelled)
        results_gone = absint.explore(lambda ch: run(ch, gone_request='g2'))
    except (Unmodelled, absint.NeedChoice, absint.PanicPath, IndexError, TypeError, KeyError, AttributeError, RecursionError) as e:
        return _fallback(ctx, rule, e)
    site_ = '%s:%s' % (start.file, start.line)
    _judge(ctx, rule, site_, results, None)
    _judge(ctx, rule, site_, results_gone, 'g2')
    return True


def _judge(ctx, rule, site_, results, gone):
    latest = {}
    cur = None
    for kind, x in PLAN:
        if kind == 'set':
            cur = x
        else:
            latest[x] = cur
    bad = {}
    seen = 0
    for log, res in results:
        if res and res[0] == 'panic':
            bad.setdefault('panic', 'a path of the actor panics (%s)' % (res[1],))
            continue
        seen += 1
        gets, replies, calls = res
        allowed = [expected_layout(x) for k_, x in PLAN if k_ == 'set']
        for c_ in calls:
            if (c_['layout'], c_['total'] if c_['total'] is not None else sum(len(v) for v in c_['layout'].values())) not in allowed:
                stale = sorted({dc for dc in c_['layout']} - set().union(*[set(l) for l, _t in allowed if all(c_['layout'].get(dc) == l.get(dc) for dc in l)] or [set()]))
                bad.setdefault('layout', 'the selector is shown the layout %s with total %s, which is the membership of no update (every update REPLACES the layout: '
                               'a data centre or node that left must not stay selectable, the total must be the number of members)' % (
                                   {k: sorted(v) for k, v in sorted(c_['layout'].items())}, c_['total']))
        for g, txid in gets:
            if g == gone:
                continue          # (nobody is waiting for this answer)
            want_l, want_t = expected_layout(latest[g])
            want_sel = sorted({x for v in want_l.values() for x in v} - {LOCAL})
            r = replies.get(txid)
            rr = r
            while rr is not None and rr[0] == 'ref':
                rr = rr[1].v
            got = None
            if rr is not None and rr[0] == 'adt' and rr[1] == 'core::result::Result' and rr[2] == 0:
                v = rr[3][0].v
                while v is not None and v[0] == 'ref':
                    v = v[1].v
                if v is not None and v[0] == 'vec':
                    got = []
                    for x0 in v[1]:
                        x0 = x0.v if isinstance(x0, Cell) else x0
                        while x0 is not None and x0[0] == 'ref':
                            x0 = x0[1].v
                        got.append(x0[1] if x0 is not None and x0[0] == 'addr' else str(x0))
            if got is None:
                bad.setdefault(g, 'request %s is not answered with a selection (%s)' % (g, 'no reply' if r is None else 'an error / something else'))
            elif sorted(got) != want_sel:
                bad.setdefault(g, 'request %s, made after the membership became %s, is answered with the selection %s — one made for another membership (expected one made from the '
                               'latest update: %s)%s' % (g, {k: sorted(v) for k, v in sorted(want_l.items())}, sorted(got), want_sel,
                                                          ': a selection cached before the update is still served' if set(got) < set(want_sel) or not (set(got) - set(want_sel)) else
                                                          ': nodes that left are still selected'))
    LAB = {'g1': 'first request after the first update', 'g2': 'request after an update that replaces one data centre by another', 'g3': 'second request after that update (cache)',
           'g4': 'request after every other node left', 'g5': 'request after a node joined the empty cluster', 'g6': 'request after a further node joined (every cached node is still a member)'}
    if gone is not None:
        # one obligation: the actor outlives a requester that went away — every later update and request is served as before
        later = [g for g in ('g3', 'g4', 'g5', 'g6') if g in bad]
        good = seen > 0 and not later and 'panic' not in bad and 'layout' not in bad
        ctx.ob(rule, 'selector-actor|a requester that went away', good, site_,
               'the requester of one request is gone when the actor replies: every later update and request is still served (%d path(s))' % seen if good else
               'after a reply could not be delivered (its requester timed out / was cancelled): %s — the actor must outlive its requesters; once it stops, `set_nodes` fails '
               'and the membership watcher that awaits it stops publishing membership changes' % (bad.get(later[0]) if later else bad.get('panic') or bad.get('layout') or 'no path'))
        return
    if 'panic' in bad:
        ctx.ob(rule, 'selector-actor|no-panic', False, site_, bad['panic'])
    ctx.ob(rule, 'selector-actor|layout-is-the-latest-membership', seen > 0 and 'layout' not in bad, site_,
           'every layout the selector is shown is exactly the membership of one update, with its total' if seen > 0 and 'layout' not in bad else bad.get('layout', 'no path'))
    for g in ('g1', 'g2', 'g3', 'g4', 'g5', 'g6'):
        good = seen > 0 and g not in bad
        ctx.ob(rule, 'selector-actor|%s' % LAB[g], good, site_,
               '%s: answered with a selection made from the latest update (%d path(s))' % (LAB[g], seen) if good else bad.get(g, 'no path'))
