"""Rule G (shared by C02 and C04): the acceptance gate `will_apply` must consult every stamp
table a mutator consults to refuse an operation (contradiction rule, DESIGN §5 C02-G)."""
from analysis import *  # noqa
from facts import strip_generics, op_local, op_place
from engine import site

OS = 'datacake_crdt::orswot::OrSWotSet::'
NV = 'datacake_crdt::orswot::NodeVersions'


def feeds_switch(body, local, _depth=0):
    cur = {local}
    for _ in range(6):
        for l in list(cur):
            if switch_on(body, l):
                return True
        nxt = set()
        for _b, _j, s in body.assigns():
            rv = s['rv']
            if s['lhs']['p']:
                continue
            if rv['k'] == 'un' and rv['op'] == 'Not' and op_local(rv['a']) in cur:
                nxt.add(s['lhs']['l'])
            if rv['k'] == 'use' and op_local(rv['op']) in cur:
                nxt.add(s['lhs']['l'])
        if not nxt - cur:
            break
        cur |= nxt
    # the answer packed into a tuple / struct that is then matched on (`match (already_observed, live, tombstone) { .. }`),
    # or returned by the function (`already_observed || ..` as the tail expression): it still steers the outcome
    fl = Flow(body)
    fw = fl.forward([local], stop=[])
    for i, blk in enumerate(body.blocks):
        t = blk['t']
        if t['k'] == 'switch' and not blk['cleanup']:
            dl = op_local(t['discr'])
            if dl in fw:
                return True
            pl = op_place(t['discr'])
            if pl and pl['l'] in fw:
                return True
    if 0 in fw and body.local_ty(0) == 'bool':
        return True
    # the answer compared with a constant verdict (`== Observation::Stale`): the comparison's result steers
    for _b, t in body.calls():
        n = cname(t) or ''
        if n in ('core::cmp::PartialEq::eq', 'core::cmp::PartialEq::ne') and not t['dest']['p'] and _depth < 3 \
                and any(op_local(a) in fw for a in t['args']) and t['dest']['l'] not in fw:
            if feeds_switch(body, t['dest']['l'], _depth + 1):
                return True
    return False


def is_verdict_type(facts, ty):
    """bool, or a field-less enum of the crate (a two-variant verdict such as Fresh / Stale)"""
    if ty == 'bool':
        return True
    a = facts.adts.get(strip_generics(ty))
    return bool(a is not None and a['kind'] == 'enum' and a['def'].startswith('datacake_crdt') and a['variants'] and all(not v['fields'] for v in a['variants']))


def self_fields_accessed(facts, method_body, _depth=0, _seen=None):
    """names of the fields of *self accessed in the method's own body — and in the methods it calls on `self` (a provided trait method
    that asks a required one, a private helper)"""
    adt = facts.adts.get(NV)
    names = [f['name'] for f in adt['variants'][0]['fields']] if adt else []
    out = set()
    _seen = _seen if _seen is not None else set()
    _seen.add(method_body.defp)
    if _depth < 3:
        cg = CallGraph(facts) if not hasattr(facts, '_gate_cg') else facts._gate_cg
        facts._gate_cg = cg
        fl = Flow(method_body)
        for _blk, t in method_body.calls():
            if not t.get('args'):
                continue
            l = op_local(t['args'][0])
            if l is None or 1 not in fl.backward([l]):
                continue
            for cb in cg.targets(t):
                if cb.crate == 'datacake_crdt' and cb.defp not in _seen and cb.argc >= 1 and ('NodeVersions' in cb.local_ty(1) or 'Self' in cb.local_ty(1)):
                    out |= self_fields_accessed(facts, cb, _depth + 1, _seen)
    for b in facts.group(method_body):
        if b is not method_body:
            continue  # closures reach self only through captures of already-projected places
        def visit(pl):
            if pl['l'] == 1 and len(pl['p']) >= 2 and pl['p'][0] == '*' and isinstance(pl['p'][1], dict) and 'f' in pl['p'][1]:
                i = pl['p'][1]['f']
                out.add(names[i] if i < len(names) else str(i))
        for _blk, _j, s in b.assigns():
            for pl in rv_places(s['rv']):
                visit(pl)
            visit(s['lhs'])
    return out


def gate_predicates(facts, body):
    """bool-returning NodeVersions methods called by `body` whose result steers control flow"""
    out = {}
    for blk, t in body.calls():
        n = cname(t)
        if not n:
            continue
        on_versions = n.startswith(NV + '::')
        if not on_versions and n.startswith('datacake_crdt::') and t.get('args'):
            # a method asked of the version vectors through a private trait: the receiver is the NodeVersions component
            l0 = op_local(t['args'][0])
            on_versions = l0 is not None and 'NodeVersions' in body.local_ty(l0)
        if not on_versions:
            continue
        if t['dest']['p'] or not is_verdict_type(facts, body.local_ty(t['dest']['l'])):
            continue
        if not feeds_switch(body, t['dest']['l']):
            continue
        cb = facts.body(n)
        if cb is None:
            cands = CallGraph(facts).targets(t) if not hasattr(facts, '_gate_cg') else facts._gate_cg.targets(t)
            cb = cands[0] if cands else None
        if cb is None:
            continue
        out[n.rsplit('::', 1)[1]] = (self_fields_accessed(facts, cb), t['cs'])
    return out


def check_gate(ctx, facts, rule):
    wa = facts.body(OS + 'will_apply')
    muts = [facts.body(OS + 'insert_with_source'), facts.body(OS + 'delete_with_source')]
    if wa is None or any(m is None for m in muts):
        ctx.bad(rule, 'anchors', '', 'will_apply / insert_with_source / delete_with_source not found (fail closed)')
        return
    gp = gate_predicates(facts, wa)
    wa_fields = set()
    for f, _l in gp.values():
        wa_fields |= f
    if not gp:
        ctx.bad(rule, 'will_apply|no-version-predicate', site(wa),
                'will_apply consults no NodeVersions predicate at all')
    for m in muts:
        mp = gate_predicates(facts, m)
        mname = m.name.rsplit('::', 1)[1]
        if not mp:
            ctx.bad(rule, mname + '|no-version-predicate', site(m), 'mutator consults no NodeVersions predicate')
            continue
        for pname, (fields, line) in sorted(mp.items()):
            missing = sorted(fields - wa_fields)
            if missing:
                ctx.bad(rule, '%s|%s|%s-not-consulted-by-will_apply' % (mname, pname, '+'.join(missing)),
                        site(m, line),
                        '%s refuses an operation through NodeVersions::%s, which decides on field(s) %s; will_apply decides only '
                        'on %s (via %s) and never reads %s: the gate can say "will apply" for an operation the set then refuses, '
                        'so storage is written and the set is not' % (
                            mname, pname, sorted(fields), sorted(wa_fields), sorted(gp), missing),
                        {'mutator_predicates': {k: sorted(v[0]) for k, v in mp.items()},
                         'gate_predicates': {k: sorted(v[0]) for k, v in gp.items()}})
            else:
                ctx.ok(rule, '%s|%s' % (mname, pname), site(m, line),
                       'every stamp table %s consults (%s) is consulted by will_apply' % (pname, sorted(fields)))
