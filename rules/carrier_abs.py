"""C15.N7 / C16.M5 / C06.W8: the membership record is a plain carrier (P-ORDER).

The selector filters the local node out of a data centre's list by comparing addresses (`addr != local_node`), the network layer
connects and disconnects by address, the consumers key their peer tables by node id: all of them rely on a `ClusterMember` holding
exactly the id, address and data centre it was built with — the local address the selector is started with comes from the same
configuration value by another route.  `ClusterMember::new` is interpreted on symbolic arguments: every field of the record must be
one of the arguments, unchanged, each argument stored once.  (Round 6, C15f: a constructor that rewrote IPv4-mapped IPv6 addresses to
plain IPv4 made the local node a stranger to the selector, which then picked it as its own replica.)"""
from absint import Interp, Order, Cell, Unmodelled, NeedChoice, PanicPath
from facts import last_seg


def check_member_constructor(ctx, facts, rule):
    from orswot_abs import _fallback
    try:
        adts = [a for n, a in facts.adts.items() if n.startswith('datacake_node::') and n.endswith('::ClusterMember') and a['kind'] == 'struct']
        if len(adts) != 1:
            raise Unmodelled('ClusterMember not found')
        adt = adts[0]
        body = facts.bodies.get(adt['def'] + '::new')
        if body is None or body.cfg is None:
            raise Unmodelled('ClusterMember::new not found')
        fields = adt['variants'][0]['fields']
        args = []
        for i in range(1, body.argc + 1):
            args.append(('key', 'arg%d' % i))
        foreign = []

        IDENT = ('clone', 'into', 'from', 'to_owned', 'to_string', 'into_owned', 'as_ref', 'borrow', 'deref', 'into_boxed_str', 'into_string')

        def hook(interp, name, args_, t, b):
            # anything but a plain copy / identity conversion applied to an argument is a transformation of it
            vals = [interp.deref_all(a) for a in args_]
            on_arg = [v for v in vals if v is not None and v[0] == 'key' and str(v[1]).startswith('arg')]
            if on_arg and len(vals) == 1 and last_seg(name) in IDENT and not name.startswith('datacake'):
                return on_arg[0]
            if on_arg and not name.startswith('datacake'):
                foreign.append(name)
                return ('opaque', 'transformed-by:' + name)
            if on_arg:
                foreign.append(name)         # a workspace helper: interpreted, and remembered in case the interpretation gives up
            return None
        it = Interp(facts, Order({}), opaque_call=hook, step_limit=20000)
        it.opaque_fields = True
        try:
            r = it.deref_all(it.run_body(body, list(args)))
        except (Unmodelled, NeedChoice, PanicPath, IndexError, TypeError, KeyError, AttributeError) as e:
            if not foreign:
                raise
            ctx.ob(rule, 'member-record|constructor', False, '%s:%s' % (body.file, body.line),
                   'ClusterMember::new passes an argument through %s before storing it: the record no longer holds the value it was built with — the selector '
                   '(local-node filter), the network layer and the consumers compare these values with ones that reached them by another route' % ', '.join(sorted(set(foreign))[:3]))
            return True
        bad = []
        if r is None or r[0] != 'adt':
            raise Unmodelled('ClusterMember::new does not build the record directly')
        names = body.local_names()
        got = []
        for f, c in zip(fields, r[3]):
            v = it.deref_all(c.v)
            if v is None or v[0] != 'key' or not str(v[1]).startswith('arg'):
                bad.append('field `%s` of the record is not one of the constructor\'s arguments as given (%s)' % (f['name'], (v[:2] if v else v)))
            else:
                got.append(v[1])
                pn = names.get(int(str(v[1])[3:]))
                if pn and pn != f['name'] and pn in [x['name'] for x in fields]:
                    bad.append('field `%s` is filled from the argument called `%s`' % (f['name'], pn))
        if len(set(got)) != len(got):
            bad.append('one argument fills two fields')
        ctx.ob(rule, 'member-record|constructor', not bad, '%s:%s' % (body.file, body.line),
               'ClusterMember::new stores id, address and data centre exactly as given' if not bad else
               'ClusterMember::new: %s — the selector (local-node filter), the network layer and the consumers compare these values with ones that reached them by another route' % bad[0])
        return True
    except (Unmodelled, NeedChoice, PanicPath, IndexError, TypeError, KeyError, AttributeError, RecursionError, ValueError) as e:
        return _fallback(ctx, rule, e)
