"""C08 — purging tombstones is invisible and deletes stay deleted.  DESIGN §5 C08."""
from analysis import *  # noqa
from facts import strip_generics, op_local, op_const
from engine import site
import gate
import c02

CONFIGS = ['prod']
EXPLANATION = (
    'P6: the state codec adds nothing of its own — OrSWotSet::from_bytes returns exactly what the validating deserialiser produced (nothing is called on it, no field rewritten; a refusal is an error) and as_bytes hands the set as it is to the serialiser. '
    'SEM (primary): purge_old_deletes / will_apply / merge / diff / the mutators summarised by abstract interpretation (purge removes and returns exactly t'
    'he tombstones before the cut-off and touches nothing else; will_apply refuses before the cut-off); VSEM: cut-off = min over all sources (missing = zer'
    'o) minus the forgiveness constant, strict predicate; P4: the purge handler against every storage answer. Structural fallback: '
    'Decided clauses: P1 purge_old_deletes mutates only the tombstone map (P-EFFECT over its body and workspace callees); '
    'P2 the one cut-off predicate that selects tombstones for purge is the predicate will_apply refuses on, diff skips on when the '
    'replica holds nothing, and merge skips remote deletes on, and it is a strict `ts < cut-off` test, with the purge keeping a '
    'tombstone exactly when the predicate is false and every tombstone taken out being kept or reported; P3 the cut-off is a MIN over all per-source maps (zero stamp for a missing '
    'source) minus the constant FORGIVENESS_PERIOD (3600 s in the shipped configuration) with a saturating subtraction; '
    'P5 every mutator keeps the live map and the tombstone map exclusive (a new stamp is stored in one only after the key left the other), so a purge can never hand a live key to storage; P4 actor side: the purge handler, interpreted against every answer of storage (handlers_abs; C02.O3 as fallback): storage is asked inside the handler to remove exactly the purged tombstones and the set forgets exactly the ones storage removed. NOT decided: the cluster-level equivalence of '
    'purging and non-purging runs.')
# P3 also: the cut-off table has a single writer (the cut-off computation)
ASSUMPTIONS = ['operations reach every replica within the forgiveness period (property precondition)']

OS = 'datacake_crdt::orswot::OrSWotSet::'
NV = 'datacake_crdt::orswot::NodeVersions::'


def cutoff_writers(facts, pred_name):
    """NodeVersions methods that write (mutably borrow + insert / assign) the field the cut-off predicate reads"""
    pred_body = facts.body(NV + pred_name)
    pred_fields = gate.self_fields_accessed(facts, pred_body) if pred_body is not None else set()
    nvn = field_names(facts, 'datacake_crdt::orswot::NodeVersions')
    out = []
    for b_ in facts.bodies.values():
        if b_.crate != 'datacake_crdt' or not b_.name.startswith(NV) or b_.kind != 'method' or b_.d['promoted'] or b_.derived:
            continue
        hit = False
        for _bb, _j, s_ in b_.assigns():
            rv = s_['rv']
            if rv['k'] == 'ref' and rv['mut'] and rv['pl']['l'] == 1 and len(rv['pl']['p']) == 2 and isinstance(rv['pl']['p'][1], dict) \
                    and rv['pl']['p'][1]['f'] < len(nvn) and nvn[rv['pl']['p'][1]['f']] in pred_fields:
                hit = True
            lhs = s_['lhs']
            if lhs['l'] == 1 and len(lhs['p']) >= 2 and lhs['p'][0] == '*' and isinstance(lhs['p'][1], dict) and lhs['p'][1]['f'] < len(nvn) \
                    and nvn[lhs['p'][1]['f']] in pred_fields:
                hit = True
        if hit:
            out.append(b_)
    return sorted(out, key=lambda b: b.name)


def field_names(facts, adt):
    a = facts.adts.get(adt)
    return [f['name'] for f in a['variants'][0]['fields']] if a else []


def check(ctx):
    facts = ctx.facts('prod')
    import versions_abs as _va
    _va.check_forgiveness_value(ctx, facts, 'C08.F')      # (round 8, C01i) the forgiveness period of the non-test build is the stated hour
    cg = CallGraph(facts)
    # P6: the purge cut-offs travel with the state: the decode entry point does not rebuild or drop them (codec_abs)
    import codec_abs
    codec_abs.check_state_codec(ctx, facts, 'C08.P6')
    purge = facts.body(OS + 'purge_old_deletes')
    if purge is None:
        ctx.bad('C08.P1', 'anchor', '', 'purge_old_deletes not found (fail closed)')
        return
    names = field_names(facts, 'datacake_crdt::orswot::OrSWotSet')
    # ---- SEM: per-key transfer functions over the finite domain of order types (P-ORDER).  Where a function is summarised,
    # its summary subsumes the structural clauses about it (P1, the polarity / same-predicate parts of P2, P5).
    import orswot_abs
    sem_purge = orswot_abs.check_purge(ctx, facts, 'C08.SEM')
    sem_wa = orswot_abs.check_will_apply(ctx, facts, 'C08.SEM')
    sem_merge = orswot_abs.check_merge(ctx, facts, 'C08.SEM')
    sem_mut = orswot_abs.check_mutators(ctx, facts, 'C08.SEM')
    sem_diff = orswot_abs.check_diff(ctx, facts, 'C08.SEM')
    # ---- P4: the actor side of a purge (storage is asked to remove exactly the purged tombstones, inside the handler, and the set
    # forgets exactly the ones storage removed) — the handler summaries of C02 (handlers_abs), structural C02.O3 as fallback
    import handlers_abs
    n0 = len(ctx.obs)
    if not handlers_abs.check_handlers(ctx, facts, 'C08.P4'):
        import c02 as _c02h
        _c02h.check(ctx)
        keep = []
        for o in ctx.obs[n0:]:
            if o.rule in ('C02.O3', 'C02.ANCHORS'):
                o.rule = 'C08.P4'
                keep.append(o)
        ctx.obs[n0:] = keep
    else:
        ctx.obs[n0:] = [o for o in ctx.obs[n0:] if o.key.startswith('purge|')]
    # ---- P1 -------------------------------------------------------------------
    eff = {} if sem_purge else self_field_effects(facts, cg, purge)
    touched = sorted(names[f] if isinstance(f, int) and f < len(names) else str(f) for f in eff)
    if not sem_purge:
        ctx.ob('C08.P1', 'purge_old_deletes|fields-mutated', touched == ['dead'], site(purge),
               'purge_old_deletes mutates field(s) %s of the set%s' % (touched, '' if touched == ['dead'] else
               ' — purge must remove tombstones only; mutating live entries / version stamps changes what is live or what is refused'),
               {'effects': {str(k): v for k, v in eff.items()}})

    # ---- P5: purge may only ever see tombstones of keys that are not live: entries / dead are kept exclusive by every mutator
    import lww
    mbodies = [facts.body(OS + x) for x in ('insert_with_source', 'delete_with_source', 'merge')]
    if all(mbodies) and not (sem_merge and sem_mut):
        nx = lww.check_exclusive_maps(ctx, facts, 'C08.P5', mbodies)
        ctx.floor('C08.P5', 'new-stamp stores into entries / dead', nx, 4)
    # ---- P2 ---------------------------------------------------------------------
    users = {'purge_old_deletes': purge, 'will_apply': facts.body(OS + 'will_apply'),
             'merge': facts.body(OS + 'merge')}
    import c05 as _c05
    _d = facts.body(OS + 'diff')
    if _d is not None:
        for _b, _t in _d.calls():
            _n = cname(_t)
            if _n and _n.startswith('datacake_crdt::') and any(op_local(a) is not None and 'alloc::vec::Vec<' in _d.local_ty(op_local(a)) and _d.local_ty(op_local(a)).startswith('&mut') for a in _t['args']):
                users['diff-per-key-test'] = facts.body(_n)
    pp = gate.gate_predicates(facts, purge)
    if len(pp) != 1:
        # by role: the read-only boolean predicate of the version vectors
        cands = [b_ for b_ in facts.bodies.values() if b_.crate == 'datacake_crdt' and b_.kind == 'method' and not b_.d['promoted']
                 and b_.name.startswith(NV) and b_.argc == 2 and b_.local_ty(0) == 'bool' and b_.local_ty(1).startswith('&') and not b_.local_ty(1).startswith('&mut')
                 and b_.local_ty(2).endswith('HLCTimestamp')]
        if len(cands) == 1:
            pp = {cands[0].name.rsplit('::', 1)[1]: (set(), None)}
    PRED = sorted(pp)[0] if len(pp) == 1 else 'is_ts_before_last_observed_event'     # the cut-off predicate, found by role
    ctx.ob('C08.P2', 'purge|predicate', set(pp) == {PRED} or len(pp) == 1, site(purge),
           'purge selects tombstones with NodeVersions predicate(s) %s' % sorted(pp))
    sem_of = {'purge_old_deletes': sem_purge, 'will_apply': sem_wa, 'merge': sem_merge, 'diff-per-key-test': sem_diff}
    for uname, ub in users.items():
        if sem_of.get(uname):
            continue
        if ub is None:
            ctx.bad('C08.P2', uname + '|anchor', '', '%s not found' % uname)
            continue
        up = gate.gate_predicates(facts, ub)
        missing = sorted(set(pp) - set(up))
        ctx.ob('C08.P2', '%s|same-predicate' % uname, not missing, site(ub),
               '%s consults %s; purge predicate(s) %s %s' % (uname, sorted(up), sorted(pp),
               'all consulted' if not missing else 'NOT consulted: an operation not newer than a purged delete is no longer refused / is listed again'))
    # will_apply: predicate true -> returns false
    wa = users['will_apply']
    if wa is not None and not sem_wa:
        r_true = bool_eval(wa, lambda b, t: True if cname(t) == NV + PRED else None)
        ctx.ob('C08.P2', 'will_apply|refuses-when-before-cutoff', r_true == {False}, site(wa),
               'will_apply returns %s when the cut-off predicate is true (must be exactly {False})' % r_true)
    # purge: kept iff predicate false
    calls = list(purge.calls())
    for pb, pt in ([] if sem_purge else [(b, t) for b, t in calls if cname(t) == NV + PRED]):
        # find the switch on (possibly negated) result
        cmp_edges = None
        cur, pol = pt['dest']['l'], True
        for _ in range(4):
            sw = switch_on(purge, cur)
            if sw:
                sb, st = sw[0]
                tm = {int(v): tb for v, tb in st['targets']}
                f_t = tm.get(0, st['otherwise'])
                t_t = st['otherwise'] if 0 in tm else tm.get(1)
                cmp_edges = ((sb, t_t), (sb, f_t)) if pol else ((sb, f_t), (sb, t_t))
                break
            nxt = None
            for _b, _j, s in purge.assigns():
                if s['rv']['k'] == 'un' and s['rv']['op'] == 'Not' and op_local(s['rv']['a']) == cur:
                    nxt, pol = s['lhs']['l'], not pol
            if nxt is None:
                break
            cur = nxt
        if not cmp_edges:
            ctx.bad('C08.P2', 'purge|polarity', site(purge, pt['cs']), 'cannot find the branch on the cut-off predicate (fail closed)')
            continue
        true_e, false_e = cmp_edges
        reins = [b for b, t in calls if cname(t) in ('std::collections::hash::map::HashMap::insert',)]
        pushes = [b for b, t in calls if cname(t) == 'alloc::vec::Vec::push']
        good = all(purge.edge_dominates(false_e, b) for b in reins) and all(purge.edge_dominates(true_e, b) for b in pushes) and reins and pushes
        ctx.ob('C08.P2', 'purge|polarity', bool(good), site(purge, pt['cs']),
               'purge keeps a tombstone exactly when the predicate is false and reports it purged exactly when true' if good else
               'purge keeps / purges on the wrong edge of the cut-off predicate')
    # every tombstone taken out of the map is either put back or reported (no iteration drops one silently)
    nx = [(b, t) for b, t in calls if cname(t) == 'core::iter::traits::iterator::Iterator::next']
    if nx and not sem_purge:
        flow_p = Flow(purge)
        re_n = ResultEdges(purge, flow_p, nx[0][0], include_option=True)
        starts = [e[1] for e in re_n.ok]
        sinks = [b for b, t in calls if cname(t) in ('std::collections::hash::map::HashMap::insert', 'alloc::vec::Vec::push')]
        every = bool(starts) and nx[0][0] not in purge.reachable_from(starts, avoid=sinks)
        ctx.ob('C08.P2', 'purge|every-tombstone-kept-or-reported', every, site(purge),
               'every tombstone taken out of the map is either re-inserted or returned as purged' if every else
               'an iteration of the purge loop can drop a tombstone without keeping or reporting it: storage keeps a tombstone the set forgot')
    # VSEM: the version vectors themselves, summarised by P-ORDER (versions_abs): max-register per (source, origin), cut-off =
    # min over all sources (missing = zero) minus the forgiveness constant, recomputed on every update / merge, strict predicate
    import versions_abs
    sem_v = versions_abs.check_versions(ctx, facts, 'C08.VSEM')
    # strictness of the predicate
    pb_ = facts.body(NV + PRED)
    found = sem_v
    if pb_ is not None and not sem_v:
        for body in facts.group(pb_):
            flow = Flow(body)
            for c in all_comparisons(body):
                if c['lhs'] is None or c['rhs'] is None:
                    continue
                found = True
                # which operand is the probe (the method's ts parameter, or the closure capture of it)
                la, lb = flow.backward([c['lhs']]), flow.backward([c['rhs']])
                if body is pb_:
                    probe_l, probe_r = 2 in la, 2 in lb
                else:
                    probe_l, probe_r = (1 in la and 2 not in la), (1 in lb and 2 not in lb)
                rel = c['rel']
                if probe_r and not probe_l:
                    rel = FLIP[rel]
                ctx.ob('C08.P2', 'predicate|strict', rel == '<' and (probe_l != probe_r), site(body, c['line']),
                       'cut-off predicate tests `ts %s cut-off` (must be strict `<`: an operation exactly at the cut-off is the newest '
                       'one observed and must be kept)' % rel)
    if not found:
        ctx.bad('C08.P2', 'predicate|strict', '', 'no comparison found in the cut-off predicate (fail closed)')

    # ---- P3 ---------------------------------------------------------------------
    if sem_v:
        check_fp_value(ctx, facts)
        return
    writers = cutoff_writers(facts, PRED)
    with_min = [b_ for b_ in writers if any(cname(t_) and re.search(r'Iterator::(min|max|min_by_key|max_by_key)$|cmp::(Ord::)?(min|max)$', cname(t_)) for _x, t_ in b_.calls())]
    cs = with_min[0] if with_min else (writers[0] if writers else None)
    extra = [b_ for b_ in writers if b_ is not cs]
    ctx.ob('C08.P3', 'cutoff|single-writer', len(writers) >= 1 and not extra, site(extra[0]) if extra else (site(cs) if cs else ''),
           'the cut-off table is written only by the cut-off computation (%s)' % (cs.name.rsplit('::', 1)[1] if cs else '?') if writers and not extra else
           'the cut-off table is also written by %s, bypassing the min-over-all-sources / forgiveness computation: replicas that learn a stamp on that path '
           'purge and refuse differently from those that learn it on the other' % [b_.name.replace('datacake_crdt::orswot::', '') for b_ in extra])
    if cs is None:
        ctx.bad('C08.P3', 'anchor', '', 'compute_safe_last_stamp not found')
        return
    flow = Flow(cs)
    red = [(b, t) for b, t in cs.calls() if cname(t) and re.search(r'Iterator::(min|max|min_by_key|max_by_key|min_by|max_by)$|cmp::(Ord::)?(min|max)$', cname(t))]
    good_red = False
    for b, t in red:
        meth = cname(t).rsplit('::', 1)[1]
        adaptors, back = c02.iterator_chain(cs, flow, op_local(t['args'][0]))
        drops = [a[0] for a in adaptors if a[0] in ('take', 'skip', 'filter', 'step_by', 'take_while', 'skip_while')]
        nv_names = field_names(facts, 'datacake_crdt::orswot::NodeVersions')
        over_all = False
        for _b, _j, s in cs.assigns():
            if s['rv']['k'] == 'ref' and s['lhs']['l'] in back:
                pl = s['rv']['pl']
                if pl['l'] == 1 and len(pl['p']) == 2 and isinstance(pl['p'][1], dict) and nv_names[pl['p'][1]['f']] == 'nodes_max_stamps':
                    over_all = True
        ok = meth == 'min' and over_all and not drops
        good_red = good_red or ok
        ctx.ob('C08.P3', 'cutoff|reduction', ok, site(cs, t['cs']),
               'cut-off reduces the per-source stamps with `%s` over %s%s' % (
                   meth, 'all of nodes_max_stamps' if over_all else 'something other than the whole nodes_max_stamps array',
                   (' dropping sources via ' + ','.join(drops)) if drops else '') +
               ('' if ok else ' — the cut-off must be the MINIMUM over ALL sources, otherwise a source that lags is purged past'))
    if not red:
        ctx.bad('C08.P3', 'cutoff|reduction', site(cs), 'no min-reduction over the per-source stamps found')
    # missing source -> zero stamp
    zero_ok = False
    for body in facts.group(cs):
        for b, t in body.calls():
            if cname(t) == 'core::option::Option::unwrap_or_else' or cname(t) == 'core::option::Option::unwrap_or' or cname(t) == 'core::option::Option::unwrap_or_default':
                zero_ok = True
        for b, t in body.calls():
            if cname(t) in ('core::option::Option::unwrap', 'core::option::Option::expect') and body is not cs:
                zero_ok = False
    ctx.ob('C08.P3', 'cutoff|missing-source', zero_ok, site(cs),
           'a source that has not seen the origin contributes a substitute (zero) stamp' if zero_ok else 'missing source is not substituted')
    # forgiveness subtraction
    sub = [(b, t) for b, t in cs.calls() if cname(t) and cname(t).startswith('core::time::Duration::') and 'sub' in cname(t).rsplit('::', 1)[1]]
    sub += [(b, t) for b, t in cs.calls() if cname(t) == 'core::ops::arith::Sub::sub']
    oksub = False
    for b, t in sub:
        meth = cname(t).rsplit('::', 1)[1]
        c = op_const(t['args'][1]) if len(t['args']) > 1 else None
        is_fp = bool(c and c.get('uneval') == 'datacake_crdt::orswot::FORGIVENESS_PERIOD')
        ins = [bb for bb, tt in cs.calls() if cname(tt) == 'alloc::collections::btree::map::BTreeMap::insert'
               and t['dest']['l'] in Flow(cs, all_calls=True).backward([op_local(tt['args'][-1])])]
        ok = meth == 'saturating_sub' and is_fp and bool(ins)
        oksub = oksub or ok
        ctx.ob('C08.P3', 'cutoff|forgiveness', ok, site(cs, t['cs']),
               'cut-off = min stamp %s FORGIVENESS_PERIOD%s, stored in safe_last_stamps' % (meth, '' if is_fp else ' (NOT the constant)') if ok else
               'forgiveness subtraction is `%s` with %s; result %s' % (meth, 'FORGIVENESS_PERIOD' if is_fp else 'a different operand', 'stored' if ins else 'not stored'))
    if not sub:
        ctx.bad('C08.P3', 'cutoff|forgiveness', site(cs), 'the cut-off does not subtract FORGIVENESS_PERIOD: tombstones are purged with no allowance for late operations')
    check_fp_value(ctx, facts)


def check_fp_value(ctx, facts):
    # value of the constant
    fp = facts.body('datacake_crdt::orswot::FORGIVENESS_PERIOD')
    if fp is None:
        ctx.bad('C08.P3', 'FORGIVENESS_PERIOD', '', 'constant not found')
    else:
        reach = const_fold_reachable(fp)
        vals = [const_int(t['args'][0]) for b, t in fp.calls() if b in reach and cname(t) == 'core::time::Duration::from_secs']
        ctx.ob('C08.P3', 'FORGIVENESS_PERIOD|value', vals == [3600], site(fp),
               'FORGIVENESS_PERIOD evaluates to Duration::from_secs(%s) in the shipped configuration (property states one hour)' % vals)
