"""C13 — a message is served exactly when its service is registered.  DESIGN §5 C13."""
from analysis import *  # noqa
from facts import strip_generics, op_local, op_const, const_int, last_seg
from engine import site
import c02

CONFIGS = ['prod', 'release']
EXPLANATION = (
    "G6: no value drawn from an atomic counter narrower than 64 bits identifies a registration (it would repeat after a wrap-around). "
    "BUILD PARITY: the black-box and white-box registry summaries are evaluated on the facts of the RELEASE build of datacake-rpc as well (debug assertions off: whatever is written inside debug_assert! / cfg(debug_assertions) is absent), with the same expectations. "
    "G5.SEM: every function to_uri_path passes a service name / message path through is interpreted on a text of three symbolic characters (every test on a character an oracle explored both ways): the result is a per-character substitution - no character dropped, merged or moved - so names that differ only in punctuation keep different URIs. "
    "SEM, black box (abstract interpretation of the MIR, no code runs): every sequence of up to three Server::add_service / remove_service calls (two services, one re-added "
    "with another instance and fewer messages) is interpreted through the server's own API — ServiceRegistry::add_handler, the key and URI functions as symbolic terms, the "
    "registry state as ServerState::default() gives it — and after every call the lookup the connection handler uses must find, for each (service, message) path, exactly the "
    "instance last registered for it and nothing once its service was removed; independent of how the registry is represented. "
    "SEM, state level: the registry's add / remove / lookup summarised per (service, key) over 12 abstract pre-states; one request through the connection hand"
    'ler interpreted against a registry that does / does not hold the handler. Structural fallback / remaining clauses: '
    'Decided clauses: G1 removing a service removes exactly that service\'s handler keys (retain closure returns false iff the key is in '
    'the removed service\'s key set, the set being what the service table held for the removed name; or a per-key remove loop); '
    'G2 adding a service records every handler key under the service name and extends the handler map on every path; '
    'G3 one key function on all three sides: registry key = hash(to_uri_path(service_name, path)), lookup key = hash(request path) '
    'untransformed, client URI = the same to_uri_path with (service_name, path) in the same order; G4 dispatch only through the registry '
    '(try_handle on the Some edge of get_handler, None -> Status::unavailable). NOT decided: hash collisions; concurrent add/remove.')
ASSUMPTIONS = ['64-bit SipHash collisions between distinct URIs are ignored']

R = 'datacake_rpc::'
HANDLER_TY = 'dyn datacake_rpc::handler::OpaqueMessageHandler'


def closure_of_arg(body, t, idx):
    l = op_local(t['args'][idx])
    return c02.closure_def_of_local(body, l)


def check_G1(ctx, facts, cg):
    rs = facts.body(R + 'server::Server::remove_service')
    if rs is None:
        ctx.bad('C13.G1', 'anchor', '', 'Server::remove_service not found (fail closed)')
        return
    reach = cg.reach([rs], bound=3)
    n = 0
    for body in reach:
        if body.crate != 'datacake_rpc':
            continue
        flow = Flow(body)
        calls = list(body.calls())
        for b, t in calls:
            n_ = cname(t)
            if n_ == 'alloc::collections::btree::map::BTreeMap::retain' and HANDLER_TY in ' '.join(t.get('gargs') or []):
                n += 1
                key = body.name.replace(R, '') + '|retain'
                cdef, caps = closure_of_arg(body, t, 1)
                pol = c02.polarity(facts, cdef, lambda x: x is not None and x.endswith('::contains')) if cdef else None
                if not pol:
                    ctx.bad('C13.G1', key, site(body, t['cs']), 'retain predicate does not test membership in the removed key set (unrecognised idiom, fail closed)')
                    continue
                good = pol[0] == {False} and pol[1] == {True}
                # the set tested is what the services table held for the removed name
                src_ok = False
                for c in caps or []:
                    l = op_local(c)
                    if l is None:
                        continue
                    back = flow.backward([l])
                    for b2, t2 in calls:
                        if t2['dest']['l'] in back and cname(t2) in ('alloc::collections::btree::map::BTreeMap::remove', 'alloc::collections::btree::map::BTreeMap::get'):
                            direct = Flow(body, only={'core::ops::deref::Deref::deref', 'core::borrow::Borrow::borrow', 'core::convert::AsRef::as_ref'})
                            if 2 in direct.backward([op_local(t2['args'][1])]):
                                src_ok = True
                ctx.ob('C13.G1', key, good and src_ok, site(body, t['cs']),
                       'retain keeps a handler iff its key is NOT in the removed service\'s key set' if good and src_ok else
                       ('retain keeps a handler when contains(key) is %s and drops it when it is %s: removing a service keeps exactly its handlers and drops every other service\'s'
                        % ('true' if True in pol[0] else '?', 'false' if False in pol[1] else '?')) if not good else
                       'the key set tested is not the one the service table held for the removed name')
            if n_ == 'alloc::collections::btree::map::BTreeMap::remove' and HANDLER_TY in ' '.join(t.get('gargs') or []):
                n += 1
                nb, nt = c02.next_call_feeding(body, flow, {'args': [None] + t['args'][1:]})
                ctx.ob('C13.G1', body.name.replace(R, '') + '|remove-loop', nt is not None, site(body, t['cs']),
                       'handlers are removed per key of the removed service' if nt is not None else 'handler removal is not driven by the removed service\'s keys')
    ctx.floor('C13.G1', 'handler-map removal sites reachable from remove_service', n, 1)


def check_G2(ctx, facts):
    ah = facts.body(R + 'server::ServerState::add_handlers')
    if ah is None:
        ctx.bad('C13.G2', 'anchor', '', 'ServerState::add_handlers not found')
        return
    flow = Flow(ah)
    calls = list(ah.calls())
    ext = [(b, t) for b, t in calls if cname(t) == 'core::iter::traits::collect::Extend::extend' and 3 in flow.backward([op_local(t['args'][1])])]
    # accepted alternative: a loop over the new handlers with BTreeMap::insert (replaces); NOT entry().or_insert* (keeps a stale handler)
    loop_ins = [(b, t) for b, t in calls if cname(t) == 'alloc::collections::btree::map::BTreeMap::insert' and HANDLER_TY in ' '.join(t.get('gargs') or [])
                and 3 in flow.backward([op_local(t['args'][-1])])]
    keepers = [(b, t) for b, t in calls if cname(t) and re.search(r'btree::map::entry::Entry::(or_insert|or_insert_with|or_default)$', cname(t))
               and HANDLER_TY in ' '.join(t.get('gargs') or [])]
    writes = [b for b, t in ext + loop_ins]
    good = bool(writes) and not keepers and (ah.must_pass([0], [b for b, t in ext], ah.return_blocks()) if ext else True)
    ctx.ob('C13.G2', 'handlers-extended', good, site(ah),
           'the handler map receives (and replaces with) the new handlers on every path' if good else
           ('the handler map keeps an existing handler when a service is added again (entry().or_insert): requests are dispatched to the removed / old instance'
            if keepers else 'the handler map does not receive the new handlers on every path'))
    ins = [(b, t) for b, t in calls if cname(t) == 'alloc::collections::btree::set::BTreeSet::insert']
    good = False
    for b, t in ins:
        nb, nt = c02.next_call_feeding(ah, flow, t)
        if nt is None:
            continue
        it = op_local(nt['args'][0])
        back = flow.backward([it])
        from_keys = any(cname(t2) == 'alloc::collections::btree::map::BTreeMap::keys' and t2['dest']['l'] in back and 3 in flow.backward([op_local(t2['args'][0])]) for b2, t2 in calls)
        recv = flow.backward([op_local(t['args'][0])])
        ent = [t2 for b2, t2 in calls if cname(t2) == 'alloc::collections::btree::map::BTreeMap::entry' and t2['dest']['l'] in recv]
        by_name = any(2 in Flow(ah, all_calls=True).backward([op_local(e['args'][1])]) for e in ent)
        good = from_keys and by_name
    ctx.ob('C13.G2', 'service-table', good, site(ah),
           'every key of the new handlers is recorded under the service name' if good else 'service table does not record every new handler key under the service name')


def check_G3_server_side(ctx, facts, key_sem):
    # registry side
    addh = facts.body(R + 'handler::ServiceRegistry::add_handler')
    gh = facts.body(R + 'server::ServerState::get_handler')
    mm = facts.body(R + 'request::MessageMetadata::to_uri_path')
    if addh is None or gh is None or mm is None:
        ctx.bad('C13.G3', 'anchors', '', 'add_handler / get_handler / MessageMetadata::to_uri_path not found (fail closed)')
        return
    hash_types = []

    def uri_call_ok(body, t, flow):
        a0 = flow.backward([op_local(t['args'][0])])
        a1 = flow.backward([op_local(t['args'][1])])
        sn = [tt['dest']['l'] for _b, tt in body.calls() if cname(tt) == R + 'handler::RpcService::service_name']
        pa = [tt['dest']['l'] for _b, tt in body.calls() if cname(tt) == R + 'handler::Handler::path']
        return bool(set(sn) & a0) and bool(set(pa) & a1) and not (set(pa) & a0) and not (set(sn) & a1)

    flow = Flow(addh)
    calls = list(addh.calls())
    ins = [(b, t) for b, t in calls if cname(t) == 'alloc::collections::btree::map::BTreeMap::insert']
    good = False
    hs_seen = []
    for b, t in ins:
        kb = flow.backward([op_local(t['args'][1])])
        hs = [tt for _b, tt in calls if cname(tt) == R + 'hash' and tt['dest']['l'] in kb]
        for h in hs:
            hs_seen.append(h)
            hash_types.append(('registry', (h.get('gargs') or ['?'])[0]))
            ub = flow.backward([op_local(h['args'][0])])
            us = [tt for _b, tt in calls if cname(tt) == R + 'to_uri_path' and tt['dest']['l'] in ub]
            if us and uri_call_ok(addh, us[0], flow):
                good = True
    if key_sem:
        # decided by the symbolic summary (registry_abs.check_keys); every hash in add_handler is on the registry side
        for _b, tt in calls:
            if cname(tt) == R + 'hash' and not any(tt is h for h in hs_seen):
                hash_types.append(('registry', (tt.get('gargs') or ['?'])[0]))
    else:
        ctx.ob('C13.G3', 'registry-key', good, site(addh),
               'registry key = hash(to_uri_path(service_name(), path()))' if good else 'registry key is not hash(to_uri_path(service_name(), path())) with the parts in that order')
    # lookup side
    flow = Flow(gh)
    calls = list(gh.calls())
    gets = [(b, t) for b, t in calls if cname(t) == 'alloc::collections::btree::map::BTreeMap::get']
    good = False
    for b, t in gets:
        kb = flow.backward([op_local(t['args'][1])])
        hs = [tt for _b, tt in calls if cname(tt) == R + 'hash' and tt['dest']['l'] in kb]
        for h in hs:
            hash_types.append(('lookup', (h.get('gargs') or ['?'])[0]))
            src = flow.backward([op_local(h['args'][0])])
            transforms = [cname(tt) for _b, tt in calls if tt['dest']['l'] in src and cname(tt) not in (R + 'hash',)
                          and not tables.propagates(cname(tt)) and cname(tt) not in tables.PROPAGATING]
            strx = [cname(tt) for _b, tt in calls if tt['dest']['l'] in src and cname(tt) and cname(tt).startswith('core::str::')]
            if 2 in src and not strx:
                good = True
    ctx.ob('C13.G3', 'lookup-key', good, site(gh),
           'lookup key = hash(uri) of the untransformed uri argument' if good else 'lookup hashes something other than the untransformed request path')
    ok_types = all(tp in ('alloc::string::String', 'str') for _w, tp in hash_types) and len(hash_types) >= 2
    ctx.ob('C13.G3', 'hash-instantiation', ok_types, '', 'hash instantiated at %s (String and str hash alike)' % hash_types if ok_types else
           'hash is instantiated at %s: registry and lookup keys hash differently' % hash_types)


def check_G3(ctx, facts, dispatch_sem=False, key_sem=False, black_box=False):
    if not black_box:
        check_G3_server_side(ctx, facts, key_sem)
    mm = facts.body(R + 'request::MessageMetadata::to_uri_path')
    if mm is None:
        ctx.bad('C13.G3', 'anchors', '', 'MessageMetadata::to_uri_path not found (fail closed)')
        return
    # request path handed to get_handler unmodified
    thr = [b for b in facts.bodies.values() if b.crate == 'datacake_rpc' and b.kind == 'coroutine' and b.name.startswith(R + 'net::server::try_handle_request')]
    # (decided by the dispatch summary when it applies: there the registered handler is only found if the path reaches the lookup
    # as it came in)
    for b in ([] if dispatch_sem else thr):
        flow = Flow(b)
        calls = list(b.calls())
        g = [(bb, t) for bb, t in calls if cname(t) == R + 'server::ServerState::get_handler']
        good = False
        for bb, t in g:
            src = flow.backward([op_local(t['args'][1])])
            from_path = any(cname(tt) == 'http::uri::Uri::path' and tt['dest']['l'] in src for _b, tt in calls)
            strx = [cname(tt) for _b, tt in calls if tt['dest']['l'] in src and cname(tt) and cname(tt).startswith(('core::str::', 'alloc::str::', 'alloc::string::'))]
            good = from_path and not strx
        ctx.ob('C13.G3', 'request-path', good, site(b), 'get_handler receives req.uri.path() unmodified' if good else 'the request path is transformed before lookup')
    # client side
    flow = Flow(mm)
    calls = list(mm.calls())
    us = [(b, t) for b, t in calls if cname(t) == R + 'to_uri_path']
    names = [f['name'] for f in facts.adts[R + 'request::MessageMetadata']['variants'][0]['fields']]
    good = False
    for b, t in us:
        def field_of(op):
            l = op_local(op)
            for _b, _j, s in mm.assigns():
                if s['lhs']['l'] == l:
                    for pl in rv_places(s['rv']):
                        fs = [e['f'] for e in pl['p'] if isinstance(e, dict) and 'f' in e]
                        if pl['l'] == 1 and fs:
                            return names[fs[0]]
                        r = field_of({'k': 'copy', 'pl': {'l': pl['l'], 'p': []}}) if pl['l'] != l else None
                        if r:
                            return r
            return None
        good = field_of(t['args'][0]) == 'service_name' and field_of(t['args'][1]) == 'path'
    if not key_sem:
        ctx.ob('C13.G3', 'client-uri', good, site(mm), 'client URI = to_uri_path(service_name, path)' if good else 'client builds its URI from the metadata fields in a different order / with a different function')
    n_md = 0
    for b in facts.bodies.values():
        if b.crate != 'datacake_rpc' or b.d['promoted']:
            continue
        flow = None
        for blk, j, s in b.assigns():
            rv = s['rv']
            if rv['k'] == 'aggregate' and rv.get('agg') == 'adt' and strip_generics(rv['adt']) == R + 'request::MessageMetadata':
                flow = flow or Flow(b)
                n_md += 1
                fl = dict(zip(rv['fields'], rv['ops']))
                sn = [tt['dest']['l'] for _b, tt in b.calls() if cname(tt) == R + 'handler::RpcService::service_name']
                pa = [tt['dest']['l'] for _b, tt in b.calls() if cname(tt) == R + 'handler::Handler::path']
                good = bool(set(sn) & flow.backward([op_local(fl['service_name'])])) and bool(set(pa) & flow.backward([op_local(fl['path'])]))
                ctx.ob('C13.G3', 'metadata|' + b.name.replace(R, ''), good, site(b, s['cs']),
                       'metadata = {service_name: service_name(), path: path()}' if good else 'metadata fields are filled from the wrong source')
    ctx.floor('C13.G3', 'client metadata construction sites', n_md, 2)
    sp = [b for b in facts.bodies.values() if b.crate == 'datacake_rpc' and b.kind == 'coroutine' and b.name.startswith(R + 'net::client::Channel::send_parts')]
    for b in sp:
        good = any(cname(t) == R + 'request::MessageMetadata::to_uri_path' for _b, t in b.calls())
        ctx.ob('C13.G3', 'send_parts-uri', good, site(b), 'request URI is built from metadata.to_uri_path()' if good else 'send_parts does not use metadata.to_uri_path()')


def check_G4(ctx, facts):
    thr = [b for b in facts.bodies.values() if b.crate == 'datacake_rpc' and b.kind == 'coroutine' and b.name.startswith(R + 'net::server::try_handle_request')]
    if not thr:
        ctx.bad('C13.G4', 'anchor', '', 'try_handle_request not found')
    for b in thr:
        flow = Flow(b)
        calls = list(b.calls())
        g = [(bb, t) for bb, t in calls if cname(t) == R + 'server::ServerState::get_handler']
        th = [(bb, t) for bb, t in calls if cname(t) == R + 'handler::OpaqueMessageHandler::try_handle']
        good = len(g) == 1 and len(th) >= 1
        unavailable = False
        if good:
            re_ = ResultEdges(b, flow, g[0][0], include_option=False)
            good = re_.inspected and all(re_.ok_dominates(bb) for bb, t in th) and \
                all(g[0][1]['dest']['l'] in flow.backward([op_local(t['args'][0])]) for bb, t in th)
            for bb, t in calls:
                if cname(t) in ('core::option::Option::ok_or_else', 'core::option::Option::ok_or') and g[0][1]['dest']['l'] in flow.backward([op_local(t['args'][0])]):
                    cdef, _caps = c02.closure_def_of_local(b, op_local(t['args'][1]))
                    cb = facts.bodies.get(cdef) if cdef else None
                    if cb and any(cname(tt) == R + 'net::status::Status::unavailable' for _b, tt in cb.calls()):
                        unavailable = True
        ctx.ob('C13.G4', 'dispatch-through-registry', bool(good), site(b),
               'try_handle runs only on the Some edge of get_handler, on the handler it returned' if good else 'a handler can be invoked without a successful registry lookup')
        ctx.ob('C13.G4', 'unknown-service-status', unavailable, site(b),
               'missing handler -> Status::unavailable' if unavailable else 'a missing handler is not reported as Status::unavailable')


def check_G6(ctx, facts, rule='C13.G6'):
    """G6: whatever the registry uses to tell one registration from another must not repeat within the life of a server.  An id drawn from
    an atomic counter NARROWER than 64 bits wraps after 2^8 / 2^16 / 2^32 registrations: a later registration then carries the id of an
    earlier one that is still registered, and removing / replacing it removes the other service's handlers too.  Reported when the value
    of a `fetch_add` / `fetch_update` on an AtomicU8 / U16 / U32 (I8 / I16 / I32) in the RPC crate is stored into a structure or compared
    for equality.  Expected count zero.  (Round 8, C13i.)"""
    n = 0
    hits = []
    for b in facts.bodies.values():
        if b.crate != 'datacake_rpc' or b.d['promoted'] or b.derived:
            continue
        srcs = []
        for _blk, t in b.calls():
            n_ = str(t.get('callee') or cname(t) or '')
            m = re.search(r'atomic::Atomic(U8|U16|U32|I8|I16|I32)::(fetch_add|fetch_sub|fetch_update|swap)$', n_) or \
                re.search(r'atomic::Atomic(?:::)?<([ui](?:8|16|32))>::(fetch_add|fetch_sub|fetch_update|swap)$', n_)      # (generic `Atomic<T>` on newer toolchains)
            if m:
                srcs.append((t['dest']['l'], m.group(1).upper(), t))
        if not srcs:
            continue
        n += len(srcs)
        fl = Flow(b, all_calls=True)
        for l, width, t in srcs:
            der = fl.forward([l])
            stored = False
            for _b, _j, s_ in b.assigns():
                rv = s_['rv']
                if rv['k'] == 'aggregate' and any(op_local(o) in der for o in rv['ops']):
                    stored = True
                if rv['k'] == 'bin' and rv['op'] in ('Eq', 'Ne') and (op_local(rv['a']) in der or op_local(rv['b']) in der):
                    stored = True
            for _blk, t2 in b.calls():
                n2 = cname(t2) or ''
                if re.search(r'(BTreeMap|HashMap|BTreeSet|HashSet)(<.*>)?::(insert|entry|remove|contains|contains_key|get)$', n2) and any(op_local(a) in der for a in t2['args'][1:]):
                    stored = True
            if stored:
                hits.append((b, t, width))
    for b, t, width in hits:
        ctx.bad(rule, 'narrow-id-counter|%s' % strip_generics(b.name), site(b, t['cs']),
                'a registration is identified by a value drawn from an Atomic%s counter: it wraps after 2^%s registrations, a later registration then shares the id of an earlier one '
                'that is still registered — removing or replacing it removes the other service\'s handlers too (served although removed / refused although registered)'
                % (width, width[1:]))
    if not hits:
        ctx.ok(rule, 'narrow-id-counter|none', '', '%d narrow atomic counter update(s) in the RPC crate, none identifies a registration' % n, nontrivial=False)


def check(ctx):
    facts = ctx.facts('prod')
    cg = CallGraph(facts)
    # G5.SEM: the registry summaries take to_uri_path for an injective term U(service, path); what it applies to a name before formatting
    # it is interpreted on symbolic text (names_abs): a per-character substitution, nothing dropped, merged or moved
    check_G6(ctx, facts)
    import names_abs
    names_abs.check_names(ctx, facts, 'C13.G5.SEM')
    # SEM: the registry's add / remove / lookup summarised per (service, key) over its finite abstract state (registry_abs);
    # subsumes G1 and G2, which are evaluated only when a construct is not modelled
    import registry_abs
    # black box first: every sequence of up to three add_service / remove_service calls through the server's own API, observed through
    # the lookup the connection handler uses — independent of how the registry is represented
    bb = registry_abs.check_server(ctx, facts, 'C13.SEM')
    if not registry_abs.check_registry(ctx, facts, 'C13.SEM') and not bb:
        check_G1(ctx, facts, cg)
        check_G2(ctx, facts)
    # BUILD PARITY (round 8, C13h: the removal written inside debug_assert!, gone when debug assertions are off): the registry summaries are
    # evaluated on the RELEASE build of the crate as well — same scenarios, same expectations; a construct the summary does not model
    # there decides nothing (the structural fallback reads the debug build)
    try:
        rfacts = ctx.facts('release')
    except Exception:
        rfacts = None
    if rfacts is not None:
        n0 = len(ctx.obs)
        registry_abs.check_server(ctx, rfacts, 'C13.SEM')
        registry_abs.check_registry(ctx, rfacts, 'C13.SEM')
        for o in ctx.obs[n0:]:
            o.key = 'release-build|' + o.key
            if not o.ok:
                o.detail = '[in the build WITHOUT debug assertions (cargo --release): code inside debug_assert! / cfg(debug_assertions) is not there] ' + str(o.detail)
    # SEM: one request through the connection handler, interpreted against a registry that does / does not hold the handler and
    # against both answers of the handler (server_abs); subsumes G4 and the request-path clause of G3
    import server_abs
    sem = server_abs.check_dispatch(ctx, facts, 'C13.SEM')
    # SEM: the key a handler ends up under in the handler map and the URI the client builds, as symbolic terms over
    # service_name() / path() / to_uri_path / hash (registry_abs.check_keys); subsumes the registry-key and client-uri clauses of G3
    ksem = registry_abs.check_keys(ctx, facts, 'C13.SEM')
    if not ksem and bb:
        ksem = registry_abs.check_keys(ctx, facts, 'C13.SEM', registry_side=False)      # (the registry side is decided by the black box)
    check_G3(ctx, facts, dispatch_sem=bool(sem), key_sem=bool(ksem), black_box=bool(bb))
    if not sem:
        check_G4(ctx, facts)
