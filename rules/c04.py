"""C04 — per key the greatest timestamp wins, in any arrival order.  DESIGN §5 C04."""
from analysis import *  # noqa
from facts import strip_generics
from engine import site
import lww
import gate
import orswot_abs

CONFIGS = ['prod']
EXPLANATION = (
    "PURE: no operation of the set or of its version vectors lets an ambient reading (wall clock, monotonic clock, randomness, environment, thread / process id — directly or through a workspace helper that returns one) decide a branch, a returned value or a stored value: the outcome is a function of the set and the operation (call graph from every method of OrSWotSet / NodeVersions + derived-from relation per body; the crate's own wall-clock helper is the positive control). VSEM also interprets arithmetic done directly on the PACKED word of a stamp (word - k, checked / saturating) against the layout HLCTimestamp::new really packs: k must be the forgiveness seconds shifted to the seconds field. "
    'A-SEM: the five keyspace-actor handlers interpreted against every answer of storage (the C02 handler summaries re-evaluated): an operation is written exactly when the set\'s gate accepts it, whatever its source. '
    'T2: every constructor that packs a caller-supplied Duration refuses seconds above 2^32 - 1 before the packer is reached (the order of the packed words is the order of the times only for seconds the field can hold). '
    'SEM (primary): the per-key transfer functions of insert_with_source / delete_with_source over the 7 abstract inputs (key absent / live / tombstoned, s'
    'tamp older / equal / newer) equal the last-write-wins register (insert wins a tie; returned flag = state changed; version gate can refuse); VSEM: the '
    'per-source stamp is a max-register. Structural fallback: '
    'Decided clauses: X a key is never live and tombstoned at once (a new stamp is stored in one map only after the key was removed from the other); D no unguarded drop — a timestamp removed from its map is re-inserted, joined, or dropped only on an edge where it is the smaller one; B no blind overwrite — a timestamp written into a map slot with `insert` competed with what the slot held; L monotone LWW guards in insert_with_source / delete_with_source / try_update_max_stamp and their '
    'and_modify closures (stored operand is the greater on every guard edge); T1 the order is the derived order of the single '
    'packed u64 word (layout checked bit-exactly under C10.E1); R the returned flag is set exactly where the entries/dead map '
    'is written; G will_apply consults every stamp table a mutator consults to refuse. NOT decided: the full outcome over all '
    'permutations; forgiveness-window arithmetic.')
ASSUMPTIONS = ['timestamps are distinct (strictness of guards is not checked: behaviour-neutral under the property precondition)']

OS = 'datacake_crdt::orswot::OrSWotSet::'
NV = 'datacake_crdt::orswot::NodeVersions::'
TS = 'datacake_crdt::timestamp::HLCTimestamp'


def check_T1(ctx, facts):
    adt = facts.adts.get(TS)
    if not adt:
        ctx.bad('C04.T1', 'adt', '', 'HLCTimestamp ADT not found')
        return
    fields = adt['variants'][0]['fields']
    ok = len(fields) == 1 and fields[0]['ty'] == 'u64'
    ctx.ob('C04.T1', 'single-u64-field', ok, '%s:%s' % (adt['span']['f'], adt['span']['l']),
           'HLCTimestamp has fields %s' % [(f['name'], f['ty']) for f in fields])
    def impls_of(tr):
        return [im for im in facts.impls if im['self'] == TS and im.get('trait_def') and strip_generics(im['trait_def']) == tr
                and ('<' not in im['trait'] or im['trait'].endswith('<' + TS + '>'))]
    hand_order = False
    if any(len(impls_of(tr)) == 1 and not impls_of(tr)[0]['derived'] for tr in ('core::cmp::PartialOrd', 'core::cmp::Ord')):
        # a hand-written order: decided by interpreting cmp / partial_cmp under every field-wise relation of the two operands
        # (bits_abs.check_order); the derived-order clause is the fallback
        import bits_abs
        hand_order = bool(bits_abs.check_order(ctx, facts, 'C04.T1', TS))
    for tr in ('core::cmp::PartialOrd', 'core::cmp::Ord', 'core::cmp::PartialEq', 'core::cmp::Eq'):
        ims = impls_of(tr)
        if hand_order and tr in ('core::cmp::PartialOrd', 'core::cmp::Ord'):
            continue
        ok = len(ims) == 1 and ims[0]['derived']
        ctx.ob('C04.T1', 'derived|' + tr, ok, '',
               '%s for HLCTimestamp is %s' % (tr, 'derived (field order of the single word)' if ok else
                                              'hand-written or missing: the order is no longer the packed-word order'))


def check_R(ctx, facts):
    """return flag = state change, in insert_with_source / delete_with_source: over the body and the closures that capture the
    flag, the flag is set to true exactly where the INCOMING timestamp is stored (map insert, write through the slot
    reference, or_insert* value); restoring a looked-up value is not a change."""
    import analysis as _an
    for name in ('insert_with_source', 'delete_with_source'):
        body = facts.body(OS + name)
        if body is None:
            ctx.bad('C04.R', name, '', 'not found')
            continue
        cands = [l for l in _an._return_locals(body) if l != 0 and body.local_ty(l) == 'bool' and l in body.local_names()]
        flag = cands[0] if len(cands) == 1 else None
        if flag is None:
            # the function may return a computed boolean instead of a flag variable: every `true` must then come from a
            # comparison against the slot's previous content and be co-located with a store of the incoming stamp
            ctx.bad('C04.R', name + '|flag', site(body), 'the returned change flag is not a single boolean variable set next to the stores '
                    '(unrecognised idiom, fail closed): cannot relate "returns true" to "the view changed"')
            continue
        flow = Flow(body, skip_deref_writes=True)
        ts_param = 4
        sites_total = 0
        problems = []
        inits = []
        # ---- the function body itself
        sets, stores = [], []
        for b, j, s in body.assigns():
            if s['lhs']['l'] == flag and not s['lhs']['p']:
                v = const_int(s['rv'].get('op')) if s['rv']['k'] == 'use' else None
                if v == 1:
                    sets.append((b, s['cs']))
                elif v == 0:
                    inits.append((b, s['cs']))
                else:
                    problems.append('flag written with a non-constant value at line %s' % s['cs'])
        for b, t in body.calls():
            n = cname(t)
            if n and re.match(r'^(alloc::collections::btree::map::BTreeMap|std::collections::hash::map::HashMap)::insert$', n):
                vl = op_local(t['args'][-1])
                if vl is not None and lww.is_ts(body, vl):
                    vb = flow.backward([vl])
                    from_lookup = any(tt['dest']['l'] in vb for _b, tt in body.calls() if cname(tt) and lww.LOOKUPS.match(cname(tt)))
                    if ts_param in vb and not from_lookup:
                        stores.append((b, t['cs']))
        groups = [(body, sets, stores, 'body')]
        # ---- closures that capture the flag
        for blk, s, cdef, ops in closure_aggregates(body):
            cb = facts.bodies.get(cdef)
            if cb is None:
                continue
            idx = None
            for i, o in enumerate(ops):
                l = op_local(o)
                if l is not None and flag in referent_roots(body, l) | {l} and (flag in Flow(body).backward([l])):
                    idx = i
            if idx is None:
                continue
            csets, cstores = [], []
            for b2, j2, s2 in cb.assigns():
                lhs = s2['lhs']
                if lhs['l'] == 1 and any(isinstance(e, dict) and e.get('f') == idx for e in lhs['p']) and lhs['p'][-1] == '*':
                    v = const_int(s2['rv'].get('op')) if s2['rv']['k'] == 'use' else None
                    if v == 1:
                        csets.append((b2, s2['cs']))
                    else:
                        problems.append('flag written with a non-true value in %s' % cdef.rsplit('::', 1)[1])
                elif lhs['p'] and lhs['p'][0] == '*' and lww.is_ts(cb, lhs['l']):
                    cstores.append((b2, s2['cs']))
            if cb.argc == 1:     # FnOnce() -> V handed to or_insert_with: returning is storing
                cstores.append((0, cb.line))
            groups.append((cb, csets, cstores, cdef.rsplit('::', 1)[1]))
        for gb, gsets, gstores, gname in groups:
            S = [b for b, _l in gstores]
            F = [b for b, _l in gsets]
            rets = gb.return_blocks()
            sites_total += len(gstores)
            for b, l in gsets:
                if not (b in S or any(gb.dominates(x, b) for x in S) or (S and gb.must_pass([b], S, rets))):
                    problems.append('flag set at line %s (%s) on a path that does not store the incoming timestamp: the call reports a change that did not happen' % (l, gname))
            for b, l in gstores:
                if not (b in F or any(gb.dominates(x, b) for x in F) or (F and gb.must_pass([b], F, rets))):
                    problems.append('incoming timestamp stored at line %s (%s) on a path that does not set the flag: a change is not reported' % (l, gname))
        if len(inits) != 1:
            problems.append('flag has %d constant-false initialisations (expected 1)' % len(inits))
        ctx.ob('C04.R', name + '|flag-iff-store', not problems and sites_total >= 1, site(body),
               'the change flag is set exactly where the incoming timestamp is stored (%d store sites)' % sites_total if not problems and sites_total >= 1
               else ('; '.join(problems[:3]) or 'no store site of the incoming timestamp found (fail closed)'))


def check(ctx):
    facts = ctx.facts('prod')
    import versions_abs as _va
    _va.check_forgiveness_value(ctx, facts, 'C04.F')      # (round 8, C01i) the forgiveness period of the non-test build is the stated hour
    # PURE (round 8, C04h: the mutators dropped operations stamped too far ahead of the replica's wall clock): set operations read no ambient input
    import purity
    purity.check_pure_core(ctx, facts, 'C04.PURE')
    # T2: "later time = larger word" holds only for seconds the seconds field can hold: the constructor refuses the rest (= C10.E7)
    import c10
    c10.check_constructor_range(ctx, facts, rule='C04.T2')
    # A: "the greatest timestamp wins" is observed through the node's store: the keyspace actor writes an operation exactly when the set's
    # gate accepts it and folds the set for exactly what was written (= C02.SEM, the handler summaries, re-evaluated under C04; only the
    # summary — where it declines C02's structural clauses decide).  Round 7, C04g: the gate skipped for repair-sourced operations.
    import handlers_abs
    handlers_abs.check_handlers(ctx, facts, 'C04.A-SEM')
    roots = [facts.body(OS + 'insert_with_source'), facts.body(OS + 'delete_with_source')]
    # the per-source stamp update the mutators gate on (found by role: the NodeVersions predicate steering their early return)
    stamp = None
    if roots[0] is not None:
        for pname in sorted(gate.gate_predicates(facts, roots[0])):
            stamp = stamp or facts.body(NV + pname)
    roots.append(stamp)
    if any(r is None for r in roots):
        ctx.bad('C04.L', 'anchors', '', 'insert_with_source / delete_with_source / try_update_max_stamp not found (fail closed)')
        return
    # SEM: the per-key transfer function of both mutators, computed over the finite domain of order types (P-ORDER), equals
    # the last-write-wins register.  It subsumes the structural clauses L / B / X / D / R for the two mutators, which are
    # only evaluated when the code uses a construct the abstract interpreter does not model.
    if orswot_abs.check_mutators(ctx, facts, 'C04.SEM'):
        import versions_abs
        if not versions_abs.check_versions(ctx, facts, 'C04.VSEM'):
            n = lww.check_bodies(ctx, facts, 'C04.L', [stamp], 'stamp update')
            ctx.floor('C04.L', 'survivor guards in the per-source stamp update', n, 1)
            # (round 8, C04i) the prediction will_apply makes rests on the purge cut-off being the MINIMUM over all sources minus the forgiveness
            # period: where the version-vector summary declines, the structural clauses of the cut-off (C08.P3) decide under C04 as well
            import engine as _eng
            import c08 as _c08
            sub = _eng.Ctx(ctx.facts_dir, ctx.tier)
            sub._facts = ctx._facts
            _c08.check(sub)
            for o in sub.obs:
                if o.rule == 'C08.P3':
                    o.rule = 'C04.P3'
                    ctx.obs.append(o)
    else:
        n = lww.check_bodies(ctx, facts, 'C04.L', roots, 'mutators')
        ctx.floor('C04.L', 'survivor guards in the mutators', n, 5)
        nb = lww.check_blind_overwrites(ctx, facts, 'C04.B', roots[:2])
        ctx.floor('C04.B', 'timestamp stores by insert in the mutators', nb, 1)
        nx = lww.check_exclusive_maps(ctx, facts, 'C04.X', roots[:2])
        ctx.floor('C04.X', 'new-stamp stores into entries / dead in the mutators', nx, 2)
        nd = lww.check_guarded_drops(ctx, facts, 'C04.D', roots[:2])
        ctx.floor('C04.D', 'timestamp removals in the mutators', nd, 1)
        check_R(ctx, facts)
    check_T1(ctx, facts)
    gate.check_gate(ctx, facts, 'C04.G')
