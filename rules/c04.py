"""C04 — per key the greatest timestamp wins, in any arrival order.  DESIGN §5 C04."""
from analysis import *  # noqa
from facts import strip_generics
from engine import site
import lww
import gate

CONFIGS = ['prod']
EXPLANATION = (
    'Decided clauses: B no blind overwrite — a timestamp written into a map slot with `insert` competed with what the slot held; L monotone LWW guards in insert_with_source / delete_with_source / try_update_max_stamp and their '
    'and_modify closures (stored operand is the greater on every guard edge); T1 the order is the derived order of the single '
    'packed u64 word (layout checked bit-exactly under C10.E1); R the returned flag is set exactly where the entries/dead map '
    'is written; G will_apply consults every stamp table a mutator consults to refuse. NOT decided: the full outcome over all '
    'permutations; forgiveness-window arithmetic.')
ASSUMPTIONS = ['timestamps are distinct (strictness of guards is not checked: behaviour-neutral under the property precondition)']

OS = 'datacake_crdt::orswot::OrSWotSet::'
NV = 'datacake_crdt::orswot::NodeVersions::'
TS = 'datacake_crdt::timestamp::HLCTimestamp'


def check_T1(ctx, facts):
    adt = facts.adts.get(TS)
    if not adt:
        ctx.bad('C04.T1', 'adt', '', 'HLCTimestamp ADT not found')
        return
    fields = adt['variants'][0]['fields']
    ok = len(fields) == 1 and fields[0]['ty'] == 'u64'
    ctx.ob('C04.T1', 'single-u64-field', ok, '%s:%s' % (adt['span']['f'], adt['span']['l']),
           'HLCTimestamp has fields %s' % [(f['name'], f['ty']) for f in fields])
    for tr in ('core::cmp::PartialOrd', 'core::cmp::Ord', 'core::cmp::PartialEq', 'core::cmp::Eq'):
        ims = [im for im in facts.impls if im['self'] == TS and im.get('trait_def') and strip_generics(im['trait_def']) == tr
               and ('<' not in im['trait'] or im['trait'].endswith('<' + TS + '>'))]
        ok = len(ims) == 1 and ims[0]['derived']
        ctx.ob('C04.T1', 'derived|' + tr, ok, '',
               '%s for HLCTimestamp is %s' % (tr, 'derived (field order of the single word)' if ok else
                                              'hand-written or missing: the order is no longer the packed-word order'))


def check_R(ctx, facts):
    """return flag = state change, in insert_with_source / delete_with_source"""
    for name in ('insert_with_source', 'delete_with_source'):
        body = facts.body(OS + name)
        if body is None:
            ctx.bad('C04.R', name, '', 'not found')
            continue
        names = {v: k for k, v in body.local_names().items()}
        # the flag: the bool local returned on every path (copied into _0)
        import analysis as _an
        cands = [l for l in _an._return_locals(body) if l != 0 and body.local_ty(l) == 'bool' and l in body.local_names()]
        flag = cands[0] if len(cands) == 1 else None
        if flag is None:
            ctx.bad('C04.R', name + '|flag', site(body), 'returned flag local not found (unrecognised idiom, fail closed)')
            continue
        # writes to the flag in this body must be the constant false initialiser only
        for b, j, s in body.assigns():
            if s['lhs']['l'] == flag and not s['lhs']['p']:
                c = const_int(s['rv'].get('op')) if s['rv']['k'] == 'use' else None
                ctx.ob('C04.R', '%s|init' % name, c == 0, site(body, s['cs']),
                       'flag initialised to %s in the outer body' % ('false' if c == 0 else 'a non-false value: reports a change that may not happen'))
        # closures capturing &mut flag
        n_sites = 0
        for blk, s, cdef, ops in closure_aggregates(body):
            cb = facts.bodies.get(cdef)
            if cb is None:
                continue
            # which upvar index is the flag
            idx = None
            for i, o in enumerate(ops):
                l = op_local(o)
                if l is not None and flag in Flow(body).backward([l]):
                    idx = i
            if idx is None:
                continue
            # blocks that set the flag true / blocks that store the timestamp
            set_blocks, store_blocks = [], []
            cflow = Flow(cb)
            for b2, j2, s2 in cb.assigns():
                lhs = s2['lhs']
                if lhs['l'] == 1 and any(isinstance(e, dict) and e.get('f') == idx for e in lhs['p']) and lhs['p'][-1] == '*':
                    set_blocks.append((b2, const_int(s2['rv'].get('op')) if s2['rv']['k'] == 'use' else None, s2['cs']))
                elif lhs['p'] and lhs['p'][0] == '*' and lww.is_ts(cb, lhs['l']):
                    store_blocks.append((b2, s2['cs']))
            is_or_insert = cb.argc == 1  # FnOnce() -> V : the returned value is the store
            cname_ = cdef.rsplit('::', 1)[1]
            key = '%s|%s' % (name, cname_)
            n_sites += 1
            if is_or_insert:
                # every path to return sets the flag true
                sb = [b2 for b2, v, _l in set_blocks if v == 1]
                good = bool(sb) and cb.must_pass([0], sb, cb.return_blocks())
                ctx.ob('C04.R', key, good, site(cb),
                       'or_insert_with closure (always stores) %s the flag on every path' % ('sets' if good else 'does NOT set'))
            else:
                good = True
                why = []
                S = [sb2 for sb2, _ in store_blocks]
                F = [b2 for b2, _v, _ in set_blocks]
                rets = cb.return_blocks()
                for b2, v, l2 in set_blocks:
                    if v != 1:
                        good = False
                        why.append('flag written with a non-true value')
                    if not (b2 in S or any(cb.dominates(x, b2) for x in S) or cb.must_pass([b2], S, rets)):
                        good = False
                        why.append('flag set at line %s on a path that does not store the timestamp: the call reports a change that did not happen' % l2)
                for sb2, l2 in store_blocks:
                    if not (sb2 in F or any(cb.dominates(x, sb2) for x in F) or cb.must_pass([sb2], F, rets)):
                        good = False
                        why.append('timestamp stored at line %s on a path that does not set the flag: a change is not reported' % l2)
                if not set_blocks or not store_blocks:
                    good = False
                    why.append('and_modify closure has no flag write or no store')
                ctx.ob('C04.R', key, good, site(cb),
                       'and_modify closure sets the flag exactly where it stores the timestamp' if good else '; '.join(why))
        ctx.floor('C04.R', name + ' closures writing the flag', n_sites, 2)


def check(ctx):
    facts = ctx.facts('prod')
    roots = [facts.body(OS + 'insert_with_source'), facts.body(OS + 'delete_with_source'),
             facts.body(NV + 'try_update_max_stamp')]
    if any(r is None for r in roots):
        ctx.bad('C04.L', 'anchors', '', 'insert_with_source / delete_with_source / try_update_max_stamp not found (fail closed)')
        return
    n = lww.check_bodies(ctx, facts, 'C04.L', roots, 'mutators')
    ctx.floor('C04.L', 'survivor guards in the mutators', n, 5)
    nb = lww.check_blind_overwrites(ctx, facts, 'C04.B', roots[:2])
    ctx.floor('C04.B', 'timestamp stores by insert in the mutators', nb, 2)
    check_T1(ctx, facts)
    check_R(ctx, facts)
    gate.check_gate(ctx, facts, 'C04.G')
