"""C13 (G1 / G2): the handler registry of the RPC server, summarised per (service, handler key) by abstract interpretation.

Abstract state for one service S and one handler key k: is S listed in the service table, does its key set hold k, does the
handler map hold k (and which instance).  The transfer functions of add / remove / lookup are computed by interpreting
ServerState's methods (found by signature, not by name) for every abstract pre-state and compared with the registry they
must implement: add(S, {k -> new}) lists k under S and installs `new` (replacing an older instance); add(S, other keys)
and any operation on another service leave k alone; remove(S) unlists S and removes exactly the keys listed under it;
lookup returns what the handler map holds.  By induction over operation sequences a request is dispatched exactly when its
service was added and not removed since."""
import absint
from absint import Interp, Order, Cell, MapObj, Unmodelled, mk_option, UNIT
from facts import strip_generics, last_seg, ty_head


def hook(interp, name, args, t, body):
    seg = last_seg(name)
    if name.startswith('lock_api::') or name.startswith('parking_lot::') or name.startswith('std::sync::'):
        if seg in ('lock', 'write', 'read', 'upgradable_read', 'try_lock', 'try_write', 'try_read'):
            inner = interp.deref_all(args[0])
            return ('ref', interp.lock_cells.setdefault(id(inner), Cell(inner))) if False else args[0]
    if name.endswith('::hash') and name.startswith('datacake_rpc::') and args:
        a = interp.deref_all(args[0])
        if a is not None and a[0] == 'key':
            return ('key', 'h:' + a[1])
    if name in ('alloc::string::ToString::to_string', 'alloc::borrow::ToOwned::to_owned', 'core::convert::AsRef::as_ref', 'alloc::string::String::as_str',
                'core::convert::From::from', 'core::convert::Into::into', 'alloc::str::<impl str>::to_string', 'alloc::str::<impl str>::to_owned'):
        a = interp.deref_all(args[0])
        if a is not None and a[0] == 'key':
            return a
    return None


class Roles:
    def __init__(self, facts):
        adts = [a for n, a in facts.adts.items() if n.startswith('datacake_rpc::') and n.endswith('::ServerState')]
        if len(adts) != 1:
            raise Unmodelled('ServerState not found')
        self.adt = adts[0]
        f = self.adt['variants'][0]['fields']
        svc = [i for i, x in enumerate(f) if 'BTreeSet' in x['ty'] or 'HashSet' in x['ty'] or ('Vec<' in x['ty'] and 'String' in x['ty'])]
        hnd = [i for i, x in enumerate(f) if 'dyn' in x['ty'] and 'OpaqueMessageHandler' in x['ty']]
        if len(svc) != 1 or len(hnd) != 1 or len(f) != 2:
            raise Unmodelled('ServerState: expected a service table and a handler map')
        self.svc, self.hnd = svc[0], hnd[0]
        ms = [b for b in facts.bodies.values() if b.crate == 'datacake_rpc' and not b.d['promoted'] and b.kind == 'method' and '::ServerState::' in b.name and not b.name.startswith('<')]
        self.add = [b for b in ms if b.argc == 3 and 'BTreeMap' in b.local_ty(3) and b.local_ty(0) == '()']
        self.remove = [b for b in ms if b.argc == 2 and b.local_ty(2) in ('&str', '&alloc::string::String') and b.local_ty(0) == '()']
        self.lookup = [b for b in ms if b.argc == 2 and b.local_ty(2) in ('&str', '&alloc::string::String') and b.local_ty(0).startswith('core::option::Option<')]
        if len(self.add) != 1 or len(self.remove) != 1 or len(self.lookup) != 1:
            raise Unmodelled('ServerState add / remove / lookup not identified by signature (%d/%d/%d)' % (len(self.add), len(self.remove), len(self.lookup)))
        self.add, self.remove, self.lookup = self.add[0], self.remove[0], self.lookup[0]

    def make(self, services, handlers):
        """services: {svc: set(keys)}, handlers: {key: instance}"""
        cells = [None, None]
        m = MapObj('btree', {s: Cell(('set', set(ks))) for s, ks in services.items()})
        h = MapObj('btree', {k: Cell(('handler', v)) for k, v in handlers.items()})
        cells[self.svc] = Cell(('map', m))
        cells[self.hnd] = Cell(('map', h))
        return ('adt', strip_generics(self.adt['def']), 0, cells)

    def read(self, v):
        s = {k: set(c.v[1]) for k, c in v[3][self.svc].v[1].items.items()}
        h = {k: c.v[1] for k, c in v[3][self.hnd].v[1].items.items()}
        return s, h


def run(facts, body, args):
    it = Interp(facts, Order({}), opaque_call=hook)
    it.lock_cells = {}
    r = it.run_body(body, args)
    return r


def check_registry(ctx, facts, rule):
    from orswot_abs import _fallback
    try:
        roles = Roles(facts)
        K = 'h:u'          # the key of uri `u`
        pres = []
        for listed in (None, 'without', 'with'):            # service S: not listed / listed without k / listed with k
            for held in (None, 'old'):                       # handler map: k absent / an older instance
                for other in (False, True):                  # another service T listed with its own key
                    pres.append((listed, held, other))
        out = {}
        for pre in pres:
            listed, held, other = pre
            def state():
                sv = {}
                if listed:
                    sv['S'] = {'h:w'} | ({K} if listed == 'with' else set())
                if other:
                    sv['T'] = {'h:t'}
                hd = {}
                if held:
                    hd[K] = 'old'
                if listed:
                    hd['h:w'] = 'w-inst'
                if other:
                    hd['h:t'] = 't-inst'
                return roles.make(sv, hd)
            # add(S, {k -> new})
            st = state()
            run(facts, roles.add, [('ref', Cell(st)), ('ref', Cell(('key', 'S'))), ('map', MapObj('btree', {K: Cell(('handler', 'new'))}))])
            out[(pre, 'add-with')] = roles.read(st)
            st = state()
            run(facts, roles.add, [('ref', Cell(st)), ('ref', Cell(('key', 'S'))), ('map', MapObj('btree', {'h:z': Cell(('handler', 'z-inst'))}))])
            out[(pre, 'add-other-key')] = roles.read(st)
            st = state()
            run(facts, roles.add, [('ref', Cell(st)), ('ref', Cell(('key', 'T'))), ('map', MapObj('btree', {'h:t2': Cell(('handler', 't2-inst'))}))])
            out[(pre, 'add-other-service')] = roles.read(st)
            st = state()
            run(facts, roles.remove, [('ref', Cell(st)), ('ref', Cell(('key', 'S')))])
            out[(pre, 'remove')] = roles.read(st)
            st = state()
            run(facts, roles.remove, [('ref', Cell(st)), ('ref', Cell(('key', 'T')))])
            out[(pre, 'remove-other')] = roles.read(st)
            st = state()
            r = run(facts, roles.lookup, [('ref', Cell(st)), ('ref', Cell(('key', 'u')))])
            out[(pre, 'lookup')] = (r, roles.read(st))
    except (Unmodelled, absint.NeedChoice, absint.PanicPath, IndexError, TypeError, KeyError, AttributeError) as e:
        return _fallback(ctx, rule, e)
    site_ = '%s:%s' % (roles.add.file, roles.add.line)

    def lab(pre):
        listed, held, other = pre
        return 'service %s, handler map %s%s' % ({None: 'not listed', 'without': 'listed without the key', 'with': 'listed with the key'}[listed],
                                                 'holds an older instance' if held else 'has no entry', ', another service present' if other else '')
    for pre in pres:
        listed, held, other = pre
        base_s = {}
        if listed:
            base_s['S'] = {'h:w'} | ({K} if listed == 'with' else set())
        if other:
            base_s['T'] = {'h:t'}
        base_h = {}
        if held:
            base_h[K] = 'old'
        if listed:
            base_h['h:w'] = 'w-inst'
        if other:
            base_h['h:t'] = 't-inst'
        exp = {}
        s2 = {k: set(v) for k, v in base_s.items()}; h2 = dict(base_h)
        s2.setdefault('S', set()).add(K); h2[K] = 'new'
        exp['add-with'] = (s2, h2)
        s2 = {k: set(v) for k, v in base_s.items()}; h2 = dict(base_h)
        s2.setdefault('S', set()).add('h:z'); h2['h:z'] = 'z-inst'
        exp['add-other-key'] = (s2, h2)
        s2 = {k: set(v) for k, v in base_s.items()}; h2 = dict(base_h)
        s2.setdefault('T', set()).add('h:t2'); h2['h:t2'] = 't2-inst'
        exp['add-other-service'] = (s2, h2)
        s2 = {k: set(v) for k, v in base_s.items()}; h2 = dict(base_h)
        for k in s2.pop('S', set()):
            h2.pop(k, None)
        exp['remove'] = (s2, h2)
        s2 = {k: set(v) for k, v in base_s.items()}; h2 = dict(base_h)
        for k in s2.pop('T', set()):
            h2.pop(k, None)
        exp['remove-other'] = (s2, h2)
        for op in ('add-with', 'add-other-key', 'add-other-service', 'remove', 'remove-other'):
            got = out[(pre, op)]
            good = got == exp[op]
            ctx.ob(rule, '%s|%s' % (op, lab(pre)), good, site_,
                   '%s with %s leaves the registry as the specification says' % (op, lab(pre)) if good else
                   '%s with %s: the service table / handler map end as %s, expected %s — a request would be dispatched to a removed (or an outdated) handler, or refused although its service is registered' % (
                       op, lab(pre), got, exp[op]))
        r, st_after = out[(pre, 'lookup')]
        want = ('handler', 'old') if held else None
        gotv = r[3][0].v if (r[0] == 'adt' and r[2] == 1) else None
        good = gotv == want and st_after == (base_s, base_h)
        ctx.ob(rule, 'lookup|%s' % lab(pre), good, site_,
               'lookup returns exactly what the handler map holds for the hashed path and changes nothing' if good else
               'lookup with %s returns %s (expected %s) or changes the registry' % (lab(pre), gotv, want))
    return True
