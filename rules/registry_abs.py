"""C13 (G1 / G2): the handler registry of the RPC server, summarised per (service, handler key) by abstract interpretation.

Abstract state for one service S and one handler key k: is S listed in the service table, does its key set hold k, does the
handler map hold k (and which instance).  The transfer functions of add / remove / lookup are computed by interpreting
ServerState's methods (found by signature, not by name) for every abstract pre-state and compared with the registry they
must implement: add(S, {k -> new}) lists k under S and installs `new` (replacing an older instance); add(S, other keys)
and any operation on another service leave k alone; remove(S) unlists S and removes exactly the keys listed under it;
lookup returns what the handler map holds.  By induction over operation sequences a request is dispatched exactly when its
service was added and not removed since."""
import absint
from absint import Interp, Order, Cell, MapObj, Unmodelled, mk_option, UNIT
from facts import strip_generics, last_seg, ty_head
from analysis import cname


STR_OTHER = ('replace', 'replacen', 'to_lowercase', 'to_uppercase', 'to_ascii_lowercase', 'to_ascii_uppercase', 'trim', 'trim_start', 'trim_end', 'trim_matches',
             'trim_start_matches', 'trim_end_matches', 'repeat', 'escape_default', 'escape_debug')


def string_op(interp, name, args, t, body):
    """a text transformation of a name: in general ANOTHER text (a generic service's name holds `<`, upper-case letters, ...), so the
    transformed name is a different symbol; the same transformation of the same name gives the same symbol"""
    seg = last_seg(name)
    if seg in STR_OTHER and args and name.startswith(('alloc::str::<impl str>::', 'core::str::<impl str>::', 'alloc::string::String::')):
        a = interp.deref_all(args[0])
        if a is not None and a[0] == 'key':
            v = ('key', '%s~%s' % (a[1], seg))
            return ('ref', Cell(v)) if body.local_ty(t['dest']['l']).startswith('&') else v
    return None



def name_roles(facts):
    """the crate's URI builder and key hash, by role: (&str, &str) -> String, and (one argument) -> u64 reaching a std hasher"""
    if hasattr(facts, '_name_roles'):
        return facts._name_roles
    uri, hsh = set(), set()
    for b in facts.bodies.values():
        if b.crate != 'datacake_rpc' or b.d['promoted'] or b.kind != 'fn' or b.cfg is None:
            continue
        if b.argc == 2 and b.local_ty(1) == '&str' and b.local_ty(2) == '&str' and b.local_ty(0) == 'alloc::string::String':
            uri.add(b.name)
        if b.argc == 1 and b.local_ty(0) == 'u64':
            cs = [cname(t) or '' for _b, t in b.calls()]
            if any(c.endswith('Hasher::finish') or c.endswith('BuildHasher::hash_one') or c.endswith('::hash_one') for c in cs):
                hsh.add(b.name)
    facts._name_roles = (uri, hsh)
    return facts._name_roles

def hook(interp, name, args, t, body):
    seg = last_seg(name)
    r_ = string_op(interp, name, args, t, body)
    if r_ is not None:
        return r_
    if name.startswith('lock_api::') or name.startswith('parking_lot::') or name.startswith('std::sync::'):
        if seg in ('lock', 'write', 'read', 'upgradable_read', 'try_lock', 'try_write', 'try_read'):
            inner = interp.deref_all(args[0])
            return ('ref', interp.lock_cells.setdefault(id(inner), Cell(inner))) if False else args[0]
    if name.startswith('datacake_rpc::') and args and (name.endswith('::hash') or name in name_roles(interp.facts)[1]):
        a = interp.deref_all(args[0])
        if a is not None and a[0] == 'key':
            return ('key', 'h:' + a[1])
    if name in ('alloc::string::ToString::to_string', 'alloc::borrow::ToOwned::to_owned', 'core::convert::AsRef::as_ref', 'alloc::string::String::as_str',
                'core::convert::From::from', 'core::convert::Into::into', 'alloc::str::<impl str>::to_string', 'alloc::str::<impl str>::to_owned'):
        a = interp.deref_all(args[0])
        if a is not None and a[0] == 'key':
            return a
    return None


class Roles:
    def __init__(self, facts):
        adts = [a for n, a in facts.adts.items() if n.startswith('datacake_rpc::') and n.endswith('::ServerState')]
        if len(adts) != 1:
            raise Unmodelled('ServerState not found')
        self.adt = adts[0]
        f = self.adt['variants'][0]['fields']
        svc = [i for i, x in enumerate(f) if 'BTreeSet' in x['ty'] or 'HashSet' in x['ty'] or ('Vec<' in x['ty'] and 'String' in x['ty'])]
        hnd = [i for i, x in enumerate(f) if 'dyn' in x['ty'] and 'OpaqueMessageHandler' in x['ty']]
        if len(svc) != 1 or len(hnd) != 1 or len(f) != 2:
            raise Unmodelled('ServerState: expected a service table and a handler map')
        self.svc, self.hnd = svc[0], hnd[0]
        ms = [b for b in facts.bodies.values() if b.crate == 'datacake_rpc' and not b.d['promoted'] and b.kind == 'method' and '::ServerState::' in b.name and not b.name.startswith('<')]
        self.add = [b for b in ms if b.argc == 3 and 'BTreeMap' in b.local_ty(3) and b.local_ty(0) == '()']
        self.remove = [b for b in ms if b.argc == 2 and b.local_ty(2) in ('&str', '&alloc::string::String') and b.local_ty(0) == '()']
        self.lookup = [b for b in ms if b.argc == 2 and b.local_ty(2) in ('&str', '&alloc::string::String') and b.local_ty(0).startswith('core::option::Option<')]
        if len(self.add) != 1 or len(self.remove) != 1 or len(self.lookup) != 1:
            raise Unmodelled('ServerState add / remove / lookup not identified by signature (%d/%d/%d)' % (len(self.add), len(self.remove), len(self.lookup)))
        self.add, self.remove, self.lookup = self.add[0], self.remove[0], self.lookup[0]

    def make(self, services, handlers):
        """services: {svc: set(keys)}, handlers: {key: instance}"""
        cells = [None, None]
        m = MapObj('btree', {s: Cell(('set', set(ks))) for s, ks in services.items()})
        h = MapObj('btree', {k: Cell(('handler', v)) for k, v in handlers.items()})
        cells[self.svc] = Cell(('map', m))
        cells[self.hnd] = Cell(('map', h))
        return ('adt', strip_generics(self.adt['def']), 0, cells)

    def read(self, v):
        s = {k: set(c.v[1]) for k, c in v[3][self.svc].v[1].items.items()}
        h = {k: c.v[1] for k, c in v[3][self.hnd].v[1].items.items()}
        return s, h


def run(facts, body, args):
    it = Interp(facts, Order({}), opaque_call=hook)
    it.lock_cells = {}
    r = it.run_body(body, args)
    return r


def check_registry(ctx, facts, rule):
    from orswot_abs import _fallback
    try:
        roles = Roles(facts)
        K = 'h:u'          # the key of uri `u`
        pres = []
        for listed in (None, 'without', 'with'):            # service S: not listed / listed without k / listed with k
            for held in (None, 'old'):                       # handler map: k absent / an older instance
                for other in (False, True):                  # another service T listed with its own key
                    pres.append((listed, held, other))
        out = {}
        for pre in pres:
            listed, held, other = pre
            def state():
                sv = {}
                if listed:
                    sv['S'] = {'h:w'} | ({K} if listed == 'with' else set())
                if other:
                    sv['T'] = {'h:t'}
                hd = {}
                if held:
                    hd[K] = 'old'
                if listed:
                    hd['h:w'] = 'w-inst'
                if other:
                    hd['h:t'] = 't-inst'
                return roles.make(sv, hd)
            # add(S, {k -> new})
            st = state()
            run(facts, roles.add, [('ref', Cell(st)), ('ref', Cell(('key', 'S'))), ('map', MapObj('btree', {K: Cell(('handler', 'new'))}))])
            out[(pre, 'add-with')] = roles.read(st)
            st = state()
            run(facts, roles.add, [('ref', Cell(st)), ('ref', Cell(('key', 'S'))), ('map', MapObj('btree', {'h:z': Cell(('handler', 'z-inst'))}))])
            out[(pre, 'add-other-key')] = roles.read(st)
            st = state()
            run(facts, roles.add, [('ref', Cell(st)), ('ref', Cell(('key', 'T'))), ('map', MapObj('btree', {'h:t2': Cell(('handler', 't2-inst'))}))])
            out[(pre, 'add-other-service')] = roles.read(st)
            st = state()
            run(facts, roles.remove, [('ref', Cell(st)), ('ref', Cell(('key', 'S')))])
            out[(pre, 'remove')] = roles.read(st)
            st = state()
            run(facts, roles.remove, [('ref', Cell(st)), ('ref', Cell(('key', 'T')))])
            out[(pre, 'remove-other')] = roles.read(st)
            st = state()
            r = run(facts, roles.lookup, [('ref', Cell(st)), ('ref', Cell(('key', 'u')))])
            out[(pre, 'lookup')] = (r, roles.read(st))
        # this summary builds registry states directly and so assumes names are stored as given; a registry that stores TRANSFORMED names
        # (sanitised, lower-cased, ...) is outside it — the black box (check_server), which goes through the server's own API, decides it
        for (pre, op), res in out.items():
            sv_ = res[1][0] if op == 'lookup' else res[0]
            if any('~' in str(k) for k in sv_):
                raise Unmodelled('the registry stores transformed service names')
    except (Unmodelled, absint.NeedChoice, absint.PanicPath, IndexError, TypeError, KeyError, AttributeError) as e:
        return _fallback(ctx, rule, e)
    site_ = '%s:%s' % (roles.add.file, roles.add.line)

    def lab(pre):
        listed, held, other = pre
        return 'service %s, handler map %s%s' % ({None: 'not listed', 'without': 'listed without the key', 'with': 'listed with the key'}[listed],
                                                 'holds an older instance' if held else 'has no entry', ', another service present' if other else '')
    for pre in pres:
        listed, held, other = pre
        base_s = {}
        if listed:
            base_s['S'] = {'h:w'} | ({K} if listed == 'with' else set())
        if other:
            base_s['T'] = {'h:t'}
        base_h = {}
        if held:
            base_h[K] = 'old'
        if listed:
            base_h['h:w'] = 'w-inst'
        if other:
            base_h['h:t'] = 't-inst'
        exp = {}
        s2 = {k: set(v) for k, v in base_s.items()}; h2 = dict(base_h)
        s2.setdefault('S', set()).add(K); h2[K] = 'new'
        exp['add-with'] = (s2, h2)
        s2 = {k: set(v) for k, v in base_s.items()}; h2 = dict(base_h)
        s2.setdefault('S', set()).add('h:z'); h2['h:z'] = 'z-inst'
        exp['add-other-key'] = (s2, h2)
        s2 = {k: set(v) for k, v in base_s.items()}; h2 = dict(base_h)
        s2.setdefault('T', set()).add('h:t2'); h2['h:t2'] = 't2-inst'
        exp['add-other-service'] = (s2, h2)
        s2 = {k: set(v) for k, v in base_s.items()}; h2 = dict(base_h)
        for k in s2.pop('S', set()):
            h2.pop(k, None)
        exp['remove'] = (s2, h2)
        s2 = {k: set(v) for k, v in base_s.items()}; h2 = dict(base_h)
        for k in s2.pop('T', set()):
            h2.pop(k, None)
        exp['remove-other'] = (s2, h2)
        for op in ('add-with', 'add-other-key', 'add-other-service', 'remove', 'remove-other'):
            got = out[(pre, op)]
            good = got == exp[op]
            ctx.ob(rule, '%s|%s' % (op, lab(pre)), good, site_,
                   '%s with %s leaves the registry as the specification says' % (op, lab(pre)) if good else
                   '%s with %s: the service table / handler map end as %s, expected %s — a request would be dispatched to a removed (or an outdated) handler, or refused although its service is registered' % (
                       op, lab(pre), got, exp[op]))
        r, st_after = out[(pre, 'lookup')]
        want = ('handler', 'old') if held else None
        gotv = r[3][0].v if (r[0] == 'adt' and r[2] == 1) else None
        good = gotv == want and st_after == (base_s, base_h)
        ctx.ob(rule, 'lookup|%s' % lab(pre), good, site_,
               'lookup returns exactly what the handler map holds for the hashed path and changes nothing' if good else
               'lookup with %s returns %s (expected %s) or changes the registry' % (lab(pre), gotv, want))
    return True


# ---------------------------------------------------------------------------------------------------------------------
# C13.G3: the key a handler is registered under, and the URI the client sends, as symbolic terms
# ---------------------------------------------------------------------------------------------------------------------
def key_hook(interp, name, args, t, body):
    """service_name() / path() are the symbols svc / path; to_uri_path(a, b) is the term U(a,b); hash(x) is H(x)"""
    seg = last_seg(name)
    if name.endswith('::RpcService::service_name'):
        return ('ref', Cell(('key', 'svc')))
    if name.endswith('::Handler::path'):
        return ('ref', Cell(('key', 'path')))
    if name.startswith('datacake_rpc::') and (seg == 'to_uri_path' or name in name_roles(interp.facts)[0]) and len(args) == 2:
        a, b = interp.deref_all(args[0]), interp.deref_all(args[1])
        if a is None or b is None or a[0] != 'key' or b[0] != 'key':
            raise Unmodelled('to_uri_path of something that is not a name')
        return ('key', 'U(%s,%s)' % (a[1], b[1]))
    if name.startswith('datacake_rpc::') and (seg == 'hash' or name in name_roles(interp.facts)[1]) and args:
        a = interp.deref_all(args[0])
        if a is None or a[0] != 'key':
            raise Unmodelled('hash of something that is not a name')
        return ('key', 'H(%s)' % a[1])
    if name in ('alloc::sync::Arc::new', 'alloc::boxed::Box::new') and args:
        return args[0]
    r_ = string_op(interp, name, args, t, body)
    if r_ is not None:
        return r_
    if name in ('alloc::string::ToString::to_string', 'alloc::borrow::ToOwned::to_owned', 'core::convert::AsRef::as_ref', 'alloc::string::String::as_str',
                'core::convert::From::from', 'core::convert::Into::into', 'alloc::str::<impl str>::to_string', 'alloc::str::<impl str>::to_owned',
                'core::ops::deref::Deref::deref', 'core::borrow::Borrow::borrow') and args:
        a = interp.deref_all(args[0])
        if a is not None and a[0] == 'key':
            return ('ref', Cell(a)) if body.local_ty(t['dest']['l']).startswith('&') else a
    if name == 'core::clone::Clone::clone' and args:
        a = interp.deref_all(args[0])
        if a is not None and a[0] == 'opaque':
            return a
    return None


def check_keys(ctx, facts, rule, registry_side=True):
    """registry side: new(service); add_handler::<Msg>(); into_handlers() yields exactly {H(U(svc,path)): handler}
    client side: MessageMetadata{service_name: svc, path: path}.to_uri_path() = U(svc,path)"""
    from orswot_abs import _fallback
    import actor_abs
    R = 'datacake_rpc::'
    try:
        reg = [n for n in facts.adts if n.startswith(R) and n.endswith('::ServiceRegistry')]
        if len(reg) != 1:
            raise Unmodelled('ServiceRegistry not found')
        ms = [b for b in facts.bodies.values() if b.crate == 'datacake_rpc' and b.kind in ('method', 'fn') and '::ServiceRegistry::' in b.name and not b.name.startswith('<')]
        new = [b for b in ms if b.argc == 1 and ty_head(b.local_ty(0)) == reg[0]]
        add = [b for b in ms if b.argc == 1 and b.local_ty(1).startswith('&mut ') and b.local_ty(0) == '()']
        fin = [b for b in ms if b.argc == 1 and ty_head(b.local_ty(1)) == reg[0] and 'BTreeMap' in b.local_ty(0) or b.argc == 1 and ty_head(b.local_ty(1)) == reg[0] and 'HashMap' in b.local_ty(0)]
        if registry_side and (len(new) != 1 or len(add) != 1 or len(fin) != 1):
            raise Unmodelled('ServiceRegistry new / add_handler / into_handlers not identified by signature (%d/%d/%d)' % (len(new), len(add), len(fin)))
        mm = [b for b in facts.bodies.values() if b.crate == 'datacake_rpc' and b.kind == 'method' and b.name.endswith('::MessageMetadata::to_uri_path')]
        mma = facts.adts.get(R + 'request::MessageMetadata')
        if len(mm) != 1 or mma is None:
            raise Unmodelled('MessageMetadata::to_uri_path not found')

        def interp_():
            it = Interp(facts, Order({}), opaque_call=key_hook)
            it.unknown_call = actor_abs.lenient_unknown
            it.opaque_fields = True
            return it
        keys = None
        if registry_side:
            it = interp_()
            r = it.run_body(new[0], [('opaque', 'service')])
            cell = Cell(r)
            it.run_body(add[0], [('ref', cell)])
            m = it.deref_all(it.run_body(fin[0], [cell.v]))
            if m is None or m[0] != 'map':
                raise Unmodelled('into_handlers does not yield a map')
            keys = sorted(m[1].items)
        it2 = interp_()
        md = ('adt', R + 'request::MessageMetadata', 0,
              [Cell(('ref', Cell(('key', 'svc'))) if f['name'] == 'service_name' else ('ref', Cell(('key', 'path'))) if f['name'] == 'path' else ('opaque', f['name']))
               for f in mma['variants'][0]['fields']])
        u = it2.deref_all(it2.run_body(mm[0], [('ref', Cell(md))]))
        # the server's add / remove of a whole service: under which name is the key set filed, and which name is it removed by
        srv = [b for b in facts.bodies.values() if b.crate == 'datacake_rpc' and b.kind == 'method' and b.name.endswith('::Server::add_service')]
        rms = [b for b in facts.bodies.values() if b.crate == 'datacake_rpc' and b.kind == 'method' and b.name.endswith('::Server::remove_service')]
        table_calls = []
        if registry_side and len(srv) == 1 and len(rms) == 1:
            def srv_hook(interp, name, args, t, body):
                if name.endswith('::RpcService::register_handlers') and args:
                    interp.run_body(add[0], [args[0]], 1)
                    return UNIT
                if name.endswith('::ServerState::add_handlers') and len(args) >= 3:
                    nm, hm = interp.deref_all(args[1]), interp.deref_all(args[2])
                    table_calls.append(('add', nm, sorted(hm[1].items) if hm and hm[0] == 'map' else hm))
                    return UNIT
                if name.endswith('::ServerState::remove_handlers') and len(args) >= 2:
                    table_calls.append(('remove', interp.deref_all(args[1]), None))
                    return UNIT
                return key_hook(interp, name, args, t, body)
            it3 = Interp(facts, Order({}), opaque_call=srv_hook)
            it3.unknown_call = actor_abs.lenient_unknown
            it3.opaque_fields = True
            it3.run_body(srv[0], [('ref', Cell(('opaque', 'server'))), ('opaque', 'service')])
            it3.run_body(rms[0], [('ref', Cell(('opaque', 'server'))), ('ref', Cell(('key', 'svc')))])
    except (Unmodelled, absint.NeedChoice, absint.PanicPath, IndexError, TypeError, KeyError, AttributeError) as e:
        return _fallback(ctx, rule, e)
    want = 'H(U(svc,path))'
    ok1 = keys == [want]
    if registry_side:
      ctx.ob(rule, 'registry-key', ok1, '%s:%s' % (add[0].file, add[0].line),
           'a handler for (service svc, message path) ends up in the handler map under hash(to_uri_path(svc, path))' if ok1 else
           'a handler for (service svc, message path) ends up in the handler map under %s, expected %s: the server looks a request up under hash(request path), '
           'so the handler is never found (or another message\'s is)' % (keys, want))
    if table_calls:
        adds = [c for c in table_calls if c[0] == 'add']
        rmv = [c for c in table_calls if c[0] == 'remove']
        ok3 = len(adds) == 1 and adds[0][1] == ('key', 'svc') and adds[0][2] == [want] and len(rmv) == 1 and rmv[0][1] == ('key', 'svc')
        ctx.ob(rule, 'service-table-name', ok3, '%s:%s' % (srv[0].file, srv[0].line),
               'add_service files the service\'s keys under service_name(), the name remove_service(service_name()) looks them up by' if ok3 else
               'add_service files the keys %s under %s and remove_service(svc) removes under %s — expected the keys [%s] under service_name() on both sides: a service '
               'whose service_name() differs from that name can never be removed (its handlers keep serving)' % (
                   adds[0][2] if adds else '?', (adds[0][1][1] if adds and adds[0][1] and adds[0][1][0] == 'key' else adds[0][1] if adds else 'nothing'),
                   (rmv[0][1][1] if rmv and rmv[0][1] and rmv[0][1][0] == 'key' else rmv[0][1] if rmv else 'nothing'), want))
    ok2 = u is not None and u[0] == 'key' and u[1] == 'U(svc,path)'
    ctx.ob(rule, 'client-uri', ok2, '%s:%s' % (mm[0].file, mm[0].line),
           'the client addresses a message as to_uri_path(service_name, path)' if ok2 else
           'the client addresses a message as %s, expected to_uri_path(service_name, path)' % (u[1] if u and u[0] == 'key' else u,))
    return True


# ---------------------------------------------------------------------------------------------------------------------
# C13.SEM (black box): the server's public add / remove of services against what a lookup of a request path finds
# ---------------------------------------------------------------------------------------------------------------------
LOCKS = ('lock_api::', 'parking_lot::', 'std::sync::', 'alloc::sync::', 'tokio::sync::')


def default_wrapped(interp, ty):
    """Default::default() of Arc<T> / Mutex<T> / RwLock<T> / a std collection: the wrappers are transparent in this model"""
    h = ty_head(ty)
    if h in ('alloc::sync::Arc', 'alloc::rc::Rc', 'alloc::boxed::Box') or h.endswith('::Mutex') or h.endswith('::RwLock'):
        inner = ty[ty.index('<') + 1:-1]
        # lock_api::Mutex<RawMutex, T>: the payload is the last argument
        parts = absint.ty_args_of_tuple('(' + inner + ')')
        return default_wrapped(interp, parts[-1]) if parts else None
    v = interp.default_by_type(ty)
    if v is not None:
        return v
    a = interp.facts.adts.get(h)
    if a is not None and a['kind'] == 'struct':
        cells = []
        for f in a['variants'][0]['fields']:
            fv = default_wrapped(interp, f['ty'])
            if fv is None:
                return None
            cells.append(Cell(fv))
        return ('adt', h, 0, cells)
    return None


def server_hook(cur, add_handler_body):
    def h(interp, name, args, t, body):
        seg = last_seg(name)
        if name.endswith('::RpcService::service_name'):
            return ('ref', Cell(('key', cur['name'])))
        if name.endswith('::Handler::path'):
            return ('ref', Cell(('key', cur['path'])))
        if name.endswith('::RpcService::register_handlers') and args:
            for p in cur['paths']:
                cur['path'] = p
                interp.run_body(add_handler_body, [args[0]], 1)
            return UNIT
        if name.startswith(LOCKS) or name.startswith('parking_lot'):
            if seg in ('lock', 'write', 'read', 'upgradable_read', 'try_lock', 'try_write', 'try_read', 'get_mut', 'as_ref', 'deref', 'deref_mut', 'clone') and args:
                return args[0]
            if seg in ('new', 'from', 'const_new') and args:
                return args[-1]
        if name == 'core::clone::Clone::clone' and args:
            a = interp.deref_all(args[0])
            # handles (Arc<..>) are shared, not copied: cloning a registry handle must not fork the registry
            return a
        if name == 'core::default::Default::default' and not args and not t['dest']['p']:
            v = default_wrapped(interp, body.local_ty(t['dest']['l']))
            if v is not None:
                return v
        return key_hook(interp, name, args, t, body)
    return h


def find_instance(interp, v, depth=0, seen=None):
    seen = seen if seen is not None else set()
    v = interp.deref_all(v)
    if v is None or depth > 10:
        return None
    if v[0] == 'opaque' and str(v[1]).startswith('svc-instance:'):
        return v[1].split(':', 1)[1]
    cells = v[3] if v[0] == 'adt' else v[1] if v[0] in ('tuple', 'arr') else v[2] if v[0] == 'closure' else []
    for c in cells:
        if id(c) in seen:
            continue
        seen.add(id(c))
        r = find_instance(interp, c.v, depth + 1, seen)
        if r is not None:
            return r
    return None


def check_server(ctx, facts, rule):
    """every sequence of up to three add_service / remove_service calls, observed through the lookup the connection handler uses"""
    import itertools
    from orswot_abs import _fallback
    import actor_abs
    R = 'datacake_rpc::'
    try:
        srv_adt = [n for n in facts.adts if n.startswith(R) and n.endswith('::Server')]
        if len(srv_adt) != 1:
            raise Unmodelled('Server not found')
        ms = [b for b in facts.bodies.values() if b.crate == 'datacake_rpc' and b.kind == 'method' and not b.name.startswith('<')]
        add_svc = [b for b in ms if b.name.endswith('::Server::add_service')]
        rem_svc = [b for b in ms if b.name.endswith('::Server::remove_service')]
        add_h = [b for b in ms if '::ServiceRegistry::' in b.name and b.argc == 1 and b.local_ty(1).startswith('&mut ') and b.local_ty(0) == '()']
        def answers_with_handler(ty):
            # Option<Arc<dyn OpaqueMessageHandler>>, or a private verdict enum one variant of which carries the handler
            if ty.startswith('core::option::Option<') and 'OpaqueMessageHandler' in ty:
                return True
            a_ = facts.adts.get(ty_head(ty))
            return bool(a_ is not None and a_['kind'] == 'enum' and a_['def'].startswith('datacake_rpc') and
                        any('OpaqueMessageHandler' in f_['ty'] for v_ in a_['variants'] for f_ in v_['fields']) and any(not v_['fields'] for v_ in a_['variants']))
        lookup = [b for b in ms if b.argc == 2 and b.local_ty(2) in ('&str', '&alloc::string::String') and answers_with_handler(b.local_ty(0)) and b.local_ty(1).startswith('&')]
        if len(add_svc) != 1 or len(rem_svc) != 1 or len(add_h) != 1 or len(lookup) != 1:
            raise Unmodelled('Server::add_service / remove_service / ServiceRegistry::add_handler / the path lookup not identified (%d/%d/%d/%d)' % (
                len(add_svc), len(rem_svc), len(add_h), len(lookup)))
        state_ty = lookup[0].local_ty(1).lstrip('&').strip()
        sa = facts.adts[srv_adt[0]]
        OPS = {'A1': ('add', 'S', ('p', 'q'), 'i1'), 'A2': ('add', 'S', ('p',), 'i2'), 'A3': ('add', 'T', ('p',), 'i3'), 'RS': ('remove', 'S'), 'RT': ('remove', 'T')}
        URIS = [('S', 'p'), ('S', 'q'), ('T', 'p'), ('T', 'q')]
        bad = None
        n_seq = 0
        for n in (1, 2, 3):
            for seq in itertools.product(sorted(OPS), repeat=n):
                n_seq += 1
                cur = {'name': None, 'paths': (), 'path': None}
                it = Interp(facts, Order({}), opaque_call=server_hook(cur, add_h[0]), step_limit=200000)
                it.unknown_call = actor_abs.lenient_unknown
                it.opaque_fields = True
                st = default_wrapped(it, state_ty)
                if st is None:
                    raise Unmodelled('the registry state %s cannot be constructed' % state_ty)
                cells = []
                for f in sa['variants'][0]['fields']:
                    cells.append(Cell(st) if ty_head(f['ty']) == ty_head(state_ty) else Cell(('opaque', 'server-field:' + f['name'])))
                server = ('adt', srv_adt[0], 0, cells)
                if not any(ty_head(f['ty']) == ty_head(state_ty) for f in sa['variants'][0]['fields']):
                    raise Unmodelled('Server does not hold the registry state directly')
                reg, keys = {}, {}
                for opn in seq:
                    op = OPS[opn]
                    if op[0] == 'add':
                        cur.update(name=op[1], paths=op[2])
                        it.run_body(add_svc[0], [('ref', Cell(server)), ('opaque', 'svc-instance:' + op[3])])
                        for p in op[2]:
                            reg[(op[1], p)] = op[3]
                            keys.setdefault(op[1], set()).add((op[1], p))
                    else:
                        it.run_body(rem_svc[0], [('ref', Cell(server)), ('ref', Cell(('key', op[1])))])
                        for k in keys.pop(op[1], set()):
                            reg.pop(k, None)
                    for (sn, pa) in URIS:
                        r = it.deref_all(it.run_body(lookup[0], [('ref', Cell(st)), ('ref', Cell(('key', 'U(%s,%s)' % (sn, pa))))]))
                        if r is not None and r[0] == 'adt' and r[1] == 'core::option::Option':
                            got = find_instance(it, r[3][0].v) if (r[2] == 1 and r[3]) else None
                            if r[2] == 1 and got is None:
                                got = '?'
                        else:
                            # a verdict enum: the variant that carries a handler names the instance, the field-less one is "unknown"
                            got = find_instance(it, r) if r is not None else None
                            if r is not None and r[0] == 'adt' and r[3] and got is None:
                                got = '?'
                        want = reg.get((sn, pa))
                        if got != want and bad is None:
                            bad = (seq[:seq.index(opn) + 1] if opn in seq else seq, (sn, pa), got, want)
    except (Unmodelled, absint.NeedChoice, absint.PanicPath, IndexError, TypeError, KeyError, AttributeError, ValueError) as e:
        return _fallback(ctx, rule, e)

    def show(seq):
        return ', '.join({'A1': 'add S{p,q} (instance 1)', 'A2': 'add S{p} (instance 2)', 'A3': 'add T{p} (instance 3)', 'RS': 'remove S', 'RT': 'remove T'}[o] for o in seq)
    ctx.ob(rule, 'served-exactly-when-registered', bad is None, '%s:%s' % (add_svc[0].file, add_svc[0].line),
           'over all %d sequences of up to three add_service / remove_service calls, a request path finds exactly the handler instance last registered for it and '
           'none once its service was removed' % n_seq if bad is None else
           'after [%s] the path of message %s of service %s is served by %s, expected %s' % (show(bad[0]), bad[1][1], bad[1][0],
                                                                                         'instance ' + str(bad[2]) if bad[2] else 'nobody', 'instance ' + str(bad[3]) if bad[3] else 'nobody (unknown service)'))
    return True


def build_state(facts, registered, name='S', path='p', inst='H'):
    """(registry state value, hook) — the state is what ServerState::default() gives, after `Server::add_service` of a service
    `name` with one message `path` served by instance `inst` when `registered`; representation-independent"""
    import actor_abs
    R = 'datacake_rpc::'
    srv_adt = [n for n in facts.adts if n.startswith(R) and n.endswith('::Server')]
    ms = [b for b in facts.bodies.values() if b.crate == 'datacake_rpc' and b.kind == 'method' and not b.name.startswith('<')]
    add_svc = [b for b in ms if b.name.endswith('::Server::add_service')]
    add_h = [b for b in ms if '::ServiceRegistry::' in b.name and b.argc == 1 and b.local_ty(1).startswith('&mut ') and b.local_ty(0) == '()']
    lookup = [b for b in ms if b.argc == 2 and b.local_ty(2) in ('&str', '&alloc::string::String') and b.local_ty(0).startswith('core::option::Option<')
              and 'OpaqueMessageHandler' in b.local_ty(0) and b.local_ty(1).startswith('&')]
    if len(srv_adt) != 1 or len(add_svc) != 1 or len(add_h) != 1 or len(lookup) != 1:
        raise Unmodelled('Server::add_service / ServiceRegistry::add_handler / the path lookup not identified')
    state_ty = lookup[0].local_ty(1).lstrip('&').strip()
    cur = {'name': name, 'paths': (path,), 'path': path}
    hk = server_hook(cur, add_h[0])
    it = Interp(facts, Order({}), opaque_call=hk, step_limit=200000)
    it.unknown_call = actor_abs.lenient_unknown
    it.opaque_fields = True
    st = default_wrapped(it, state_ty)
    if st is None:
        raise Unmodelled('the registry state %s cannot be constructed' % state_ty)
    sa = facts.adts[srv_adt[0]]
    cells = [Cell(st) if ty_head(f['ty']) == ty_head(state_ty) else Cell(('opaque', 'server-field:' + f['name'])) for f in sa['variants'][0]['fields']]
    if registered:
        it.run_body(add_svc[0], [('ref', Cell(('adt', srv_adt[0], 0, cells))), ('opaque', 'svc-instance:' + inst)])
    return st, hk, 'U(%s,%s)' % (name, path)
