"""C07.SEM: what a restarting node rebuilds from what storage holds (P-TRACE).

`KeyspaceGroup::load_states_from_storage` is interpreted against a scripted storage: two keyspaces, the first holding four rows
in storage order (k3 live@t3, k1 tombstone@t1, k2 live@t2, k4 live@t2 — two rows share a stamp, as the documents of one bulk
write do), the second one row.  `get_keyspace_list` / `iter_metadata` are modelled effects, the operations on the rebuilt sets
(`insert` / `delete`) are recorded instead of executed, and so is the final hand-over of the sets (`load_states`).
Decided: every listed keyspace is rebuilt from ITS rows; every row is replayed exactly once, a tombstone as a delete and a live
row as an insert, with the row's own id and stamp; the replay is in non-decreasing stamp order (the per-source register of the
set refuses anything older than what it has seen from the same origin — replaying out of order silently drops rows); and each
rebuilt set is handed on under its keyspace's name.  Loop shapes, helper functions and the collection the rows are gathered in
do not matter.  The structural clauses of R1 are the fallback."""
import re
import absint
from absint import Interp, Order, Cell, MapObj, IterObj, Unmodelled, UNIT, mk_option
from facts import strip_generics, last_seg, ty_head
import actor_abs
from actor_abs import World, ok, err, upvar_types

EC = 'datacake_eventual_consistency'
ROWS = {
    'ksA': [('k3', 't3', False), ('k1', 't1', True), ('k2', 't2', False), ('k4', 't2', False)],
    'ksB': [('k5', 't5', False)],
}
ORDER = {('t1', 't2'): '<', ('t1', 't3'): '<', ('t2', 't3'): '<', ('t1', 't5'): '<', ('t2', 't5'): '<', ('t3', 't5'): '<'}
RANK = {'t1': 1, 't2': 2, 't3': 3, 't5': 5}


def name_of(interp, v):
    v = interp.deref_all(v)
    while v is not None and v[0] == 'adt' and len(v[3]) == 1:
        v = interp.deref_all(v[3][0].v)
    return v[1] if v is not None and v[0] == 'key' else None


def set_id(interp, v):
    v = interp.deref_all(v)
    if v is None or v[0] != 'adt' or not v[3]:
        return None
    return id(v[3][0])


class RebuildWorld(World):
    def __init__(self, facts):
        World.__init__(self, hooks=[self.hook])
        self.facts = facts
        self.ops = []
        self.asked = []
        self.handed = []

    def hook(self, world, interp, name, args, t, body):
        seg = last_seg(name)
        m = re.search(r'::storage::Storage::(\w+)$', name)
        if m:
            meth = m.group(1)
            if meth == 'get_keyspace_list':
                return ('future', 'ready', ok(('vec', [('key', k) for k in ROWS])))
            if meth == 'iter_metadata':
                ks = name_of(interp, args[1])
                self.asked.append(ks)
                rows = ROWS.get(ks)
                if rows is None:
                    raise Unmodelled('metadata requested for %r' % (ks,))
                return ('future', 'ready', ok(('iter', IterObj([('tuple', [Cell(('key', k)), Cell(('ts', s)), Cell(('bool', d))]) for k, s, d in rows]))))
            raise Unmodelled('storage call %s during the rebuild' % meth)
        if re.search(r'::OrSWotSet::(insert|delete|insert_with_source|delete_with_source)$', name) and args:
            vals = [interp.deref_all(a) for a in args[1:]]
            k = [v[1] for v in vals if v and v[0] == 'key']
            s = [v[1] for v in vals if v and v[0] == 'ts']
            src = [v[1] for v in vals if v and v[0] == 'int']
            self.ops.append((set_id(interp, args[0]), 'insert' if 'insert' in seg else 'delete', k[0] if k else None, s[0] if s else None, src[0] if src else 0))
            return ('bool', True)
        if not args and not t['dest']['p'] and ty_head(body.local_ty(t['dest']['l'])).endswith('::OrSWotSet'):
            # a fresh, empty set (Default::default / new): only its identity matters here
            return ('adt', ty_head(body.local_ty(t['dest']['l'])), 0, [Cell(('opaque', 'fresh-set'))])
        if name.endswith('::KeyspaceGroup::load_states') and len(args) >= 2:
            for x in interp.drain(interp.as_iter(args[1]), 0):
                x = interp.deref_all(x)
                if x is None or x[0] != 'tuple' or len(x[1]) != 2:
                    raise Unmodelled('load_states is handed something other than (name, set) pairs')
                self.handed.append((name_of(interp, x[1][0].v), set_id(interp, x[1][1].v)))
            return ('future', 'ready', UNIT)
        return None


def check_rebuild(ctx, facts, rule):
    from orswot_abs import _fallback
    try:
        bs = [b for b in facts.bodies.values() if b.kind == 'coroutine' and b.crate == EC and b.name.endswith('::KeyspaceGroup::load_states_from_storage::{closure#0}')]
        if len(bs) != 1:
            raise Unmodelled('load_states_from_storage not found')
        entry = bs[0]
        ups = upvar_types(entry)

        def run(choices):
            world = RebuildWorld(facts)
            upv = {i: ('ref', Cell(('opaque', 'group'))) if ty.startswith('&') else ('opaque', 'upvar:' + ty) for i, ty in ups.items()}
            it = Interp(facts, Order(ORDER), opaque_call=world.call)
            it.poll_hook = world.poll
            it.unknown_call = actor_abs.lenient_unknown
            it.opaque_fields = True
            it.choices = list(choices)
            n = max(upv) + 1 if upv else 1
            st = ('closure', entry.defp, [Cell(upv.get(i, ('opaque', 'u'))) for i in range(n)])
            r = it.deref_all(it.run_body(entry, [st, ('opaque', 'cx')]))
            return it.oracle_log, (list(world.ops), list(world.asked), list(world.handed), r)
        results = absint.explore(run)
    except (Unmodelled, absint.NeedChoice, absint.PanicPath, IndexError, TypeError, KeyError, AttributeError) as e:
        return _fallback(ctx, rule, e)
    site_ = '%s:%s' % (entry.file, entry.line)
    bad = {}
    seen = 0
    for log, res in results:
        if res and res[0] == 'panic':
            bad.setdefault('no-panic', 'a path of the rebuild panics: %s' % res[1])
            continue
        ops, asked, handed, r = res
        if r is None or r[0] != 'adt' or r[1] != 'core::result::Result' or r[2] != 0:
            continue        # (an error return on an unknown branch: nothing is rebuilt, nothing to compare)
        seen += 1
        by_set = {}
        for sid, op, k, s, src in ops:
            by_set.setdefault(sid, []).append((op, k, s, src))
        name_of_set = {sid: nm for nm, sid in handed}
        if sorted(nm for nm, _s in handed) != sorted(ROWS):
            bad.setdefault('every-keyspace', 'storage lists the keyspaces %s but the sets handed on are for %s: a stored keyspace is not rebuilt (its documents are invisible and never offered to peers)' % (
                sorted(ROWS), sorted(str(nm) for nm, _s in handed)))
        for ks, rows in ROWS.items():
            sids = [sid for nm, sid in handed if nm == ks]
            got = by_set.get(sids[0], []) if sids else []
            want = sorted(('delete' if d else 'insert', k, s) for k, s, d in rows)
            if sorted((op, k, s) for op, k, s, _src in got) != want:
                bad.setdefault('every-row-replayed', 'keyspace %s holds the rows %s; the set handed on for it was built by %s — every stored row must be replayed exactly once, a tombstone as a '
                               'delete and a live row as an insert, with its own id and stamp' % (ks, [(k, s, 'tombstone' if d else 'live') for k, s, d in rows], [(op, k, s) for op, k, s, _ in got]))
            ranks = [RANK.get(s, 0) for _op, _k, s, _src in got]
            if ranks != sorted(ranks):
                bad.setdefault('replay-in-stamp-order', 'the rows of %s are replayed in the order %s: the replay goes through one source of the set, whose register refuses any stamp older than the '
                               'newest already seen from the same origin, so rows replayed after a newer one are dropped from the rebuilt set' % (ks, [s for _op, _k, s, _src in got]))
            if len({src for _op, _k, _s, src in got}) > 1:
                bad.setdefault('one-source', 'the rows of %s are replayed through different sources %s' % (ks, sorted({src for _o, _k, _s, src in got})))
        stray = [sid for sid in by_set if sid not in name_of_set]
        if stray:
            bad.setdefault('every-row-replayed', 'rows are replayed into a set that is never handed on')
    for key, good_text in (('every-keyspace', 'every keyspace storage lists is rebuilt and handed on under its name'),
                           ('every-row-replayed', 'every stored row is replayed exactly once into its keyspace\'s set: tombstones as deletes, live rows as inserts, rows sharing a stamp both kept'),
                           ('replay-in-stamp-order', 'the rows are replayed in non-decreasing stamp order')):
        okk = seen > 0 and key not in bad and 'no-panic' not in bad
        ctx.ob(rule, 'rebuild|' + key, okk, site_, good_text if okk else bad.get(key) or bad.get('no-panic') or 'no successful path through the rebuild')
    return True
